"""python3-vt tools_validate.py  — validates MANIFEST.json and every evidence file against the schemas."""
import glob, json, sys
import jsonschema
ok = True
def val(path, schema):
    global ok
    try:
        jsonschema.validate(json.load(open(path)), json.load(open(schema)))
    except Exception as e:
        ok = False
        print("INVALID", path, str(e)[:300])
val("/verif/MANIFEST.json", "/root/.vp/MANIFEST.schema.json")
man = json.load(open("/verif/MANIFEST.json"))
for c in man["checks"]:
    import os
    if not os.path.exists(c["evidence_file"]):
        ok = False; print("MISSING", c["evidence_file"]); continue
    val(c["evidence_file"], "/root/.vp/EVIDENCE.schema.json")
    e = json.load(open(c["evidence_file"]))
    if e["level"] != c["level_claimed"]["category"]:
        ok = False; print("LEVEL MISMATCH", c["property_id"])
ids = [json.loads(l)["id"] for l in open("/verif/properties.jsonl")]
claimed = {c["property_id"] for c in man["checks"]}
na = {x["property_id"] for x in man.get("not_applicable", [])}
if claimed & na or (claimed | na) != set(ids):
    ok = False; print("claimed/not_applicable do not partition the property list")
print("validate:", "ok" if ok else "FAILED", f"({len(claimed)} claimed, {len(na)} not claimed)")
sys.exit(0 if ok else 1)
