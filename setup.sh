#!/bin/bash
# Offline setup: optional contract libraries beside the repository's interpreter (checks fall back to
# pv's own wrappers when they are absent). Nothing is fetched from a network.
cd "$(dirname "${BASH_SOURCE[0]}")" || exit 1
mkdir -p evidence .deps
PIP_NO_INDEX=1 /venv/bin/pip install --quiet --no-index --find-links /opt/veriftools/wheels --target .deps icontract deal >/dev/null 2>&1 \
  || echo "setup: icontract/deal not installed (optional)"
/venv/bin/python -c "import pennylane, numpy, scipy; print('setup ok: pennylane', pennylane.__version__)"
