"""Developer tool: run checks over several seeds and summarise exit codes / wall times.

    /venv/bin/python tools_sweep.py --tier quick --seeds 0 1 2 [--ids C02 C18] [--par 3]

Exit code 0 iff every run exited 0.  Output lines: id seed rc wall verdict-line.
"""
import argparse
import glob
import os
import subprocess
import sys
import time
from concurrent.futures import ThreadPoolExecutor

ROOT = os.path.dirname(os.path.abspath(__file__))


def one(pid, tier, seed, jobs):
    t0 = time.monotonic()
    env = dict(os.environ, PV_JOBS=str(jobs))
    p = subprocess.run([os.path.join(ROOT, "check"), pid, "--tier", tier, "--seed", str(seed)], capture_output=True, text=True, cwd=ROOT, env=env)
    dt = time.monotonic() - t0
    lines = [l for l in p.stdout.splitlines() if l.startswith(("VIOLATION", "INCONCLUSIVE", "KNOWN-FINDING"))]
    head = next((l for l in p.stdout.splitlines() if l.startswith("[")), "")
    return pid, seed, p.returncode, dt, head, lines, p.stderr[-300:]


def main():
    ap = argparse.ArgumentParser()
    ap.add_argument("--tier", default="quick")
    ap.add_argument("--seeds", type=int, nargs="+", default=[0])
    ap.add_argument("--ids", nargs="*")
    ap.add_argument("--par", type=int, default=3)
    ap.add_argument("--jobs", type=int, default=4)
    a = ap.parse_args()
    ids = a.ids or sorted(os.path.basename(p)[:-3].upper() for p in glob.glob(os.path.join(ROOT, "pv", "checks", "c[0-9]*.py")) if os.path.basename(p)[1:-3].isdigit())
    bad = 0
    with ThreadPoolExecutor(max_workers=a.par) as ex:
        futs = [ex.submit(one, pid, a.tier, s, a.jobs) for s in a.seeds for pid in ids]  # seed-major: one check never runs twice at once
        for f in futs:
            pid, seed, rc, dt, head, lines, err = f.result()
            flag = "ok " if rc == 0 else "BAD"
            print(f"{flag} {pid} seed={seed} rc={rc} wall={dt:.0f}s {head[head.find('cases='):] if 'cases=' in head else head}")
            for l in lines:
                print("     " + l[:400])
            if rc != 0 and not lines:
                print("     stderr: " + err.replace("\n", " | "))
            bad += rc != 0
            sys.stdout.flush()
    print(f"sweep: {len(futs)} runs, {bad} non-zero")
    return 1 if bad else 0


if __name__ == "__main__":
    sys.exit(main())
