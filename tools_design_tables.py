"""Regenerates the generated blocks of DESIGN.md (between <!-- BEGIN:x --> / <!-- END:x --> markers) from
known_findings.json and seeded/*/meta.json (+ seeded/*/result.json written by tools_seeded.py runall --record)."""
import glob
import json
import os
import re

ROOT = os.path.dirname(os.path.abspath(__file__))


def findings_block():
    d = json.load(open(os.path.join(ROOT, "known_findings.json")))["findings"]
    out = ["| property | status | mechanism tag | what fails | commit |", "|---|---|---|---|---|"]
    for f in sorted(d, key=lambda f: (f["property"], f["status"], f["mechanism"])):
        out.append(f"| {f['property']} | {f['status']} | `{f['mechanism']}` | {f.get('summary', '').replace('|', '/')} | {f.get('commit', '')} |")
    nfix = sum(f["status"] == "fixed" for f in d)
    out.append("")
    out.append(f"{nfix} repaired with `fix:` commits, {len(d) - nfix} open (recorded, not repaired; the reason is in each entry's `description`).")
    return "\n".join(out)


def seeded_block():
    out = ["| seeded change | property | what it needs to manifest | caught by (tier) |", "|---|---|---|---|"]
    for m in sorted(glob.glob(os.path.join(ROOT, "seeded", "*", "meta.json"))):
        name = os.path.basename(os.path.dirname(m))
        meta = json.load(open(m))
        res_p = os.path.join(os.path.dirname(m), "result.json")
        res = json.load(open(res_p)) if os.path.exists(res_p) else {}
        caught = "; ".join(f"{k}: {v}" for k, v in res.get("detected", {}).items()) or "(not yet run)"
        out.append(f"| `{name}` | {meta['property']} | {str(meta.get('needs_to_manifest', ''))[:260].replace('|', '/')} | {caught} |")
    return "\n".join(out)


def main():
    p = os.path.join(ROOT, "DESIGN.md")
    s = open(p).read()
    for key, fn in (("FINDINGS", findings_block), ("SEEDED", seeded_block)):
        pat = re.compile(rf"(<!-- BEGIN:{key} -->\n).*?(<!-- END:{key} -->)", re.S)
        if pat.search(s):
            s = pat.sub(lambda m: m.group(1) + fn() + "\n" + m.group(2), s)
    open(p, "w").write(s)
    print("DESIGN.md tables regenerated")


if __name__ == "__main__":
    main()
