"""Optional third-party contract libraries (icontract, deal) installed by setup.sh into /verif/.deps.
They are appended at the END of sys.path so they can never shadow the repository's own packages."""
import os
import sys

_DEPS = os.path.join(os.path.dirname(os.path.dirname(os.path.abspath(__file__))), ".deps")


def icontract():
    """Returns the icontract module or None (checks then fall back to pv.contract wrappers)."""
    if os.path.isdir(_DEPS) and _DEPS not in sys.path:
        sys.path.append(_DEPS)
    try:
        import icontract as ic  # noqa: PLC0415
        return ic
    except Exception:  # noqa: BLE001
        return None
