"""pv — runtime-monitoring harness for PennyLane properties C01..C74 (see /verif/DESIGN.md)."""
