"""Monitor bus / check context.

One ``Ctx`` per shard process.  Check drivers and monitors report through it:

* ``ctx.ev(monitor)``            – one oracle evaluation by a deciding monitor (counted; zero ⇒ inconclusive)
* ``ctx.case(fp, nontrivial, cls=…, sample=…)`` – one generated case with a fingerprint; distinct
  non-trivial fingerprints are what evidence reports as ``distinct_nontrivial``
* ``ctx.violation(monitor, message, case=…, mech=…)`` – a refuting observation (witness kept for replay)
* ``ctx.reject(kind)``           – a documented rejection (allowed by "...or raises")
* ``ctx.count(key)`` / ``ctx.note(key, value)`` / ``ctx.cover(cls)`` / ``ctx.uncovered(cls, why)``
* ``ctx.event(kind, **data)``    – bounded event log (first N kept, all counted)

The bus is lock-protected so thread workloads (C31/C65/C66) can report from any thread without the
monitor becoming the race.
"""
from __future__ import annotations

import contextlib
import hashlib
import json
import signal
import threading
import time
import traceback

import numpy as np

MAX_SAMPLES = 12
MAX_EVENTS = 200
MAX_VIOLATIONS = 40


def _jsonable(x, depth=0):
    """Best-effort conversion of a witness to JSON (never raises)."""
    if depth > 8:
        return repr(x)[:200]
    if x is None or isinstance(x, (bool, int, float, str)):
        if isinstance(x, float) and (x != x or x in (float("inf"), float("-inf"))):
            return repr(x)
        return x
    if isinstance(x, (np.integer,)):
        return int(x)
    if isinstance(x, (np.floating,)):
        return _jsonable(float(x))
    if isinstance(x, (complex, np.complexfloating)):
        return {"re": float(x.real), "im": float(x.imag)}
    if isinstance(x, np.ndarray):
        if x.size > 64:
            return {"ndarray": list(x.shape), "dtype": str(x.dtype), "head": _jsonable(x.ravel()[:16].tolist(), depth + 1)}
        return _jsonable(x.tolist(), depth + 1)
    if isinstance(x, dict):
        return {str(k): _jsonable(v, depth + 1) for k, v in list(x.items())[:200]}
    if isinstance(x, (list, tuple, set, frozenset)):
        return [_jsonable(v, depth + 1) for v in list(x)[:200]]
    return repr(x)[:400]


def fingerprint(*parts) -> str:
    h = hashlib.sha1()
    for p in parts:
        if isinstance(p, bytes):
            h.update(p)
        elif isinstance(p, np.ndarray):
            h.update(str(p.dtype).encode() + str(p.shape).encode() + np.ascontiguousarray(p).tobytes())
        else:
            h.update(repr(p).encode())
        h.update(b"|")
    return h.hexdigest()[:16]


class CaseTimeout(BaseException):
    """raised by Ctx.time_limit: the watched call did not return in time (verdict for that case: inconclusive)"""


class Ctx:
    def __init__(self, prop, tier, seed, shard, nshards, budget_s, only_case=None):
        self.prop = prop
        self.tier = tier
        self.seed = int(seed)
        self.shard = int(shard)
        self.nshards = int(nshards)
        self.budget_s = float(budget_s)
        self.only_case = only_case
        self.t0 = time.monotonic()
        self._lock = threading.RLock()
        self.evals = {}
        self.counters = {}
        self.notes = {}
        self.fps_all = set()
        self.fps_nontrivial = set()
        self.ncases = 0
        self.classes = {}
        self.uncovered_classes = {}
        self.rejections = {}
        self.samples = []
        self.events = []
        self.nevents = {}
        self.violations = []
        self.nviolations = 0
        self.inconclusive = []
        self.stopped_by_time = False
        self.case_index = -1
        pno = int("".join(c for c in prop if c.isdigit()) or 0)
        self._seedseq = [self.seed, pno, self.shard]
        self.rng = np.random.default_rng(self._seedseq + [0])

    # ------------------------------------------------------------------ randomness / budget
    def stream(self, k):
        """Independent deterministic RNG stream k (k>=1) of this shard."""
        return np.random.default_rng(self._seedseq + [int(k)])

    def case_rng(self, i):
        """RNG that depends only on (seed, property, global case index i) – replayable per case."""
        return np.random.default_rng([self.seed, self._seedseq[1], 7919, int(i)])

    @property
    def quick(self):
        return self.tier == "quick"

    def n(self, quick, thorough):
        """Total case count for the tier divided over shards (at least 1)."""
        tot = quick if self.quick else thorough
        return max(1, -(-int(tot) // self.nshards))

    def my(self, items):
        """The slice of an enumerable work list that belongs to this shard (round robin)."""
        return [x for i, x in enumerate(items) if i % self.nshards == self.shard]

    def elapsed(self):
        return time.monotonic() - self.t0

    def time_left(self):
        return self.budget_s - self.elapsed()

    def _maybe_checkpoint(self):
        """Every ~15 s the shard writes what it has observed so far next to its output file, so that a shard the parent has to kill
        (a call into the code under test that never returns while holding the GIL) does not take its observations with it."""
        path = getattr(self, "checkpoint_path", None)
        if not path:
            return
        now = time.monotonic()
        if now - getattr(self, "_last_ckpt", 0.0) < 15.0:
            return
        self._last_ckpt = now
        try:
            tmp = path + ".tmp"
            with open(tmp, "w") as f:
                f.write(dumps(self.dump()))
            import os
            os.replace(tmp, path)
        except Exception:  # noqa: BLE001 - observability only
            pass

    def more(self):
        """False once the soft time budget is used up (recorded; never a verdict)."""
        self._maybe_checkpoint()
        if self.elapsed() > self.budget_s:
            self.stopped_by_time = True
            return False
        return True

    # ------------------------------------------------------------------ reporting
    def ev(self, monitor, n=1):
        with self._lock:
            self.evals[monitor] = self.evals.get(monitor, 0) + n

    def count(self, key, n=1):
        with self._lock:
            self.counters[key] = self.counters.get(key, 0) + n

    def note(self, key, value):
        with self._lock:
            self.notes[key] = _jsonable(value)

    def note_add(self, key, value, cap=60):
        with self._lock:
            lst = self.notes.setdefault(key, [])
            v = _jsonable(value)
            if v not in lst and len(lst) < cap:
                lst.append(v)

    def cover(self, cls, n=1):
        with self._lock:
            self.classes[str(cls)] = self.classes.get(str(cls), 0) + n

    def uncovered(self, cls, why=""):
        with self._lock:
            self.uncovered_classes[str(cls)] = str(why)[:200]

    def reject(self, kind):
        with self._lock:
            self.rejections[str(kind)] = self.rejections.get(str(kind), 0) + 1

    @contextlib.contextmanager
    def time_limit(self, seconds, what):
        """Per-call wall-clock watchdog (main thread of a shard process only).  On expiry CaseTimeout -- a BaseException, so that the
        checks' ``except Exception`` crash classifiers do not mistake it for a failure of the code under test -- is raised at the next
        Python bytecode; the caller records the case as inconclusive (never held, never violated)."""
        if threading.current_thread() is not threading.main_thread():
            yield
            return

        def handler(signum, frame):
            raise CaseTimeout(str(what))
        old = signal.signal(signal.SIGALRM, handler)
        signal.setitimer(signal.ITIMER_REAL, float(seconds))
        try:
            yield
        finally:
            signal.setitimer(signal.ITIMER_REAL, 0.0)
            signal.signal(signal.SIGALRM, old)

    def inconclusive_case(self, why):
        with self._lock:
            if len(self.inconclusive) < 50:
                self.inconclusive.append(str(why)[:300])
            self.counters["inconclusive_cases"] = self.counters.get("inconclusive_cases", 0) + 1

    def case(self, fp, nontrivial=True, cls=None, sample=None):
        with self._lock:
            self.ncases += 1
            fp = str(fp)
            self.fps_all.add(fp)
            if nontrivial:
                new = fp not in self.fps_nontrivial
                self.fps_nontrivial.add(fp)
                if new and sample is not None and len(self.samples) < MAX_SAMPLES:
                    self.samples.append(_jsonable(sample))
            if cls is not None:
                self.classes[str(cls)] = self.classes.get(str(cls), 0) + 1

    def sample(self, s):
        with self._lock:
            if len(self.samples) < MAX_SAMPLES:
                self.samples.append(_jsonable(s))

    def event(self, kind, **data):
        with self._lock:
            self.nevents[kind] = self.nevents.get(kind, 0) + 1
            if len(self.events) < MAX_EVENTS:
                self.events.append({"k": kind, "t": round(self.elapsed(), 6), **_jsonable(data)})

    def violation(self, monitor, message, case=None, mech=None, observed=None, expected=None):
        """Record a refuting observation.  ``mech`` is a mechanism tag computed by a classifier over
        the witness (used to match known findings – never a hash or a random value)."""
        with self._lock:
            self.nviolations += 1
            if len(self.violations) >= MAX_VIOLATIONS:
                return
            self.violations.append(
                {
                    "monitor": monitor,
                    "message": str(message)[:1500],
                    "mech": mech,
                    "case": _jsonable(case),
                    "observed": _jsonable(observed),
                    "expected": _jsonable(expected),
                    "seed": self.seed,
                    "tier": self.tier,
                    "shard": self.shard,
                    "nshards": self.nshards,
                    "case_index": self.case_index,
                }
            )

    def guard(self, monitor, what="exception"):
        """Context manager: an unexpected exception inside becomes an inconclusive case (harness or
        unclassified error), not a silent skip."""
        return _Guard(self, monitor, what)

    # ------------------------------------------------------------------ serialisation
    def dump(self):
        return {
            "prop": self.prop,
            "tier": self.tier,
            "seed": self.seed,
            "shard": self.shard,
            "nshards": self.nshards,
            "evals": self.evals,
            "counters": self.counters,
            "notes": self.notes,
            "ncases": self.ncases,
            "fps_all": sorted(self.fps_all),
            "fps_nontrivial": sorted(self.fps_nontrivial),
            "classes": self.classes,
            "uncovered": self.uncovered_classes,
            "rejections": self.rejections,
            "samples": self.samples,
            "events": self.events,
            "nevents": self.nevents,
            "violations": self.violations,
            "nviolations": self.nviolations,
            "inconclusive": self.inconclusive,
            "stopped_by_time": self.stopped_by_time,
            "wall_s": round(self.elapsed(), 3),
        }


class _Guard:
    def __init__(self, ctx, monitor, what):
        self.ctx, self.monitor, self.what = ctx, monitor, what

    def __enter__(self):
        return self

    def __exit__(self, et, ev, tb):
        if et is None:
            return False
        if issubclass(et, (KeyboardInterrupt, SystemExit, MemoryError)):
            return False
        self.ctx.inconclusive_case(
            f"{self.monitor}: {self.what}: {et.__name__}: {ev} @ " + "".join(traceback.format_tb(tb)[-2:])[-300:]
        )
        return True


def dumps(obj):
    return json.dumps(obj, indent=1, sort_keys=False, default=lambda o: repr(o)[:200])


def absorb(ctx, d, prefix=""):
    """Merge a dumped bus (dict from Ctx.dump of another process, e.g. the doctest run under pv.pytest_plugin) into ctx."""
    with ctx._lock:
        for k, v in d.get("evals", {}).items():
            ctx.evals[k] = ctx.evals.get(k, 0) + v
        for k, v in d.get("counters", {}).items():
            ctx.counters[prefix + k] = ctx.counters.get(prefix + k, 0) + v
        for k, v in d.get("classes", {}).items():
            ctx.classes[k] = ctx.classes.get(k, 0) + v
        ctx.fps_all.update(d.get("fps_all", []))
        ctx.fps_nontrivial.update(d.get("fps_nontrivial", []))
        ctx.ncases += d.get("ncases", 0)
        for v in d.get("violations", []):
            if len(ctx.violations) < MAX_VIOLATIONS:
                ctx.violations.append(v)
        ctx.nviolations += d.get("nviolations", 0)
        ctx.inconclusive.extend(d.get("inconclusive", [])[:10])
