"""Independent geometric lattice construction and textbook Hamiltonian sums for C69 (numpy only).

Sites: index = row-major over cells (first lattice direction most significant), sub-lattice index fastest.
Neighbour shells: sorted distinct distances of the INFINITE lattice; two sites are s-th neighbours if SOME periodic image
(periodic directions only) of the second site lies at the s-th shell distance from the first ("all images", duplicates
collapsed to one edge, as a translation-invariant textbook sum  sum_i S_i S_{i+delta}  would visit them).
"""
from __future__ import annotations

import itertools
import math

import numpy as np

S3 = math.sqrt(3)
# geometry conventions of qp.spin.generate_lattice (specification: primitive vectors and basis positions)
SHAPES = {
    "chain": ([[1.0]], [[0.0]]),
    "square": ([[0, 1], [1, 0]], [[0, 0]]),
    "rectangle": ([[0, 1], [1, 0]], [[0, 0]]),
    "triangle": ([[1, 0], [0.5, S3 / 2]], [[0, 0]]),
    "honeycomb": ([[1, 0], [0.5, S3 / 2]], [[0, 0], [0.5, 0.5 / S3]]),
    "kagome": ([[1, 0], [0.5, S3 / 2]], [[0.0, 0], [-0.25, S3 / 4], [0.25, S3 / 4]]),
    "lieb": ([[0, 1], [1, 0]], [[0, 0], [0.5, 0], [0, 0.5]]),
    "cubic": (np.eye(3).tolist(), [[0, 0, 0]]),
    "bcc": (np.eye(3).tolist(), [[0, 0, 0], [0.5, 0.5, 0.5]]),
    "fcc": (np.eye(3).tolist(), [[0, 0, 0], [0.5, 0.5, 0], [0.5, 0, 0.5], [0, 0.5, 0.5]]),
    "diamond": ([[0, 0.5, 0.5], [0.5, 0, 0.5], [0.5, 0.5, 0]], [[0, 0, 0], [0.25, 0.25, 0.25]]),
}
# textbook coordination numbers (nearest neighbours per site); lieb: corner sites 4, edge-centre sites 2
COORDINATION = {"chain": [2], "square": [4], "rectangle": [4], "triangle": [6], "honeycomb": [3, 3], "kagome": [4, 4, 4],
                "lieb": [4, 2, 2], "cubic": [6], "bcc": [8, 8], "fcc": [12] * 4, "diamond": [4, 4]}
DIM = {k: len(v[0]) for k, v in SHAPES.items()}
GAP = 1e-6


def distinct_sorted(d, gap=GAP):
    d = np.sort(np.asarray(d, dtype=float))
    out = []
    for x in d:
        if not out or x - out[-1] > gap:
            out.append(float(x))
    return out


class RefLattice:
    def __init__(self, vectors, positions, n_cells, bc, order):
        V = np.asarray(vectors, dtype=float)
        B = np.asarray(positions, dtype=float)
        self.V, self.B = V, B
        dim = len(n_cells)
        self.n_cells = [int(x) for x in n_cells]
        self.bc = [bool(bc)] * dim if isinstance(bc, (bool, np.bool_)) else [bool(b) for b in bc]
        self.order = int(order)
        n_sl = len(B)
        self.n_sl = n_sl
        self.n_sites = int(np.prod(self.n_cells)) * n_sl
        cells = list(itertools.product(*[range(n) for n in self.n_cells]))
        self.cells = cells
        strides = [int(np.prod(self.n_cells[d + 1:])) for d in range(dim)]
        self.strides = strides
        P = np.zeros((self.n_sites, V.shape[1]))
        self.site = {}
        for c in cells:
            for s in range(n_sl):
                idx = sum(ci * st for ci, st in zip(c, strides)) * n_sl + s
                P[idx] = np.asarray(c, dtype=float) @ V + B[s]
                self.site[idx] = (c, s)
        self.P = P
        # ---- shells of the infinite lattice
        R = self.order + 2
        big = np.array([np.asarray(c, dtype=float) @ V + B[s] for c in itertools.product(range(-R, R + 1), repeat=dim) for s in range(n_sl)])
        dd = []
        for s in range(n_sl):
            d = np.linalg.norm(big - B[s][None, :], axis=1)
            dd.extend(d[d > GAP].tolist())
        inf_shells = distinct_sorted(dd)
        self.near_degenerate = any(b - a < 2e-3 for a, b in zip(inf_shells[: self.order + 1], inf_shells[1: self.order + 2]))
        self.shell_d = inf_shells[: self.order]
        # ---- all images of all pairs
        ms = [range(-(self.order + 1), self.order + 2) if self.bc[d] else [0] for d in range(dim)]
        shifts = np.array([np.asarray(m, dtype=float) * np.asarray(self.n_cells, dtype=float) @ V for m in itertools.product(*ms)])
        zero_shift = np.array([all(x == 0 for x in m) for m in itertools.product(*ms)])
        D = np.linalg.norm(P[None, :, None, :] + shifts[None, None, :, :] - P[:, None, None, :], axis=3)  # (i, j, m)
        self.self_wrap = False
        dmax = self.shell_d[-1] + GAP if self.shell_d else 0.0
        eye = np.eye(self.n_sites, dtype=bool)
        selfimg = D[eye][:, ~zero_shift]
        if selfimg.size and np.any(selfimg <= dmax):
            self.self_wrap = True
        present = D[~eye]
        self.overlap = bool(np.any(present <= GAP)) or len(dd) < sum(1 for _ in big) * n_sl - n_sl  # two distinct sites at the same point: not a lattice
        present = present[present > GAP]
        # the first `order` distinct distances that actually occur in this finite cluster (with its periodic images): if they
        # differ from the infinite-lattice shells the notion "k-th neighbour" is ambiguous for this cluster (guard)
        fin_first = distinct_sorted(present)[: self.order] if present.size else []
        self.shell_shift = len(fin_first) < self.order or any(abs(a - b) > GAP for a, b in zip(fin_first, self.shell_d))
        self.edges = []
        for s, ds in enumerate(self.shell_d):
            hit = np.any(np.abs(D - ds) < GAP, axis=2)
            es = {(min(i, j), max(i, j)) for i, j in zip(*np.nonzero(hit)) if i != j}
            self.edges.append(es)
        # pairs that are doubled by wrap-around (two different images at the same shell distance)
        self.doubled = False
        for s, ds in enumerate(self.shell_d):
            cnt = np.sum(np.abs(D - ds) < GAP, axis=2)
            if np.any(cnt[~eye] > 1):
                self.doubled = True

    def edge_set(self):
        return {(i, j, s) for s, es in enumerate(self.edges) for i, j in es}

    def degrees(self, shell=0):
        deg = np.zeros(self.n_sites, dtype=int)
        for i, j in self.edges[shell]:
            deg[i] += 1
            deg[j] += 1
        return deg

    def index(self, cell, s):
        return sum(ci * st for ci, st in zip(cell, self.strides)) * self.n_sl + s

    def custom_edges(self, custom):
        """Translate every custom edge (a, b) over all unit cells (documented semantics); returns list of (i, j, label)."""
        out = []
        dim = len(self.n_cells)
        for k, ce in enumerate(custom):
            a, b = ce[0]
            label = ce[1] if len(ce) == 2 else k
            (ca, sa), (cb, sb) = self.site[a], self.site[b]
            t = [cb[d] - ca[d] for d in range(dim)]
            for c in self.cells:
                c2 = []
                ok = True
                for d in range(dim):
                    x = c[d] + t[d]
                    if self.bc[d]:
                        x %= self.n_cells[d]
                    elif not 0 <= x < self.n_cells[d]:
                        ok = False
                        break
                    c2.append(x)
                if ok:
                    out.append((self.index(c, sa), self.index(tuple(c2), sb), label))
        return out


# ----------------------------------------------------------------------------------------------- Pauli dictionaries / dense matrices
def pauli_dict_add(d, word, coeff):
    """word: iterable of (wire, letter) with letters X/Y/Z on distinct wires."""
    key = frozenset(word)
    d[key] = d.get(key, 0.0) + coeff


def dense_from_pauli(terms, n):
    """terms: iterable of (coeff, {qubit: letter}); first qubit = most significant. Action on basis states (no kron)."""
    dim = 2**n
    k = np.arange(dim)
    M = np.zeros((dim, dim), dtype=complex)
    for c, word in terms:
        flip = 0
        ph = np.ones(dim, dtype=complex)
        for p, l in word.items():
            bit = (k >> (n - 1 - p)) & 1
            if l == "X":
                flip |= 1 << (n - 1 - p)
            elif l == "Y":
                flip |= 1 << (n - 1 - p)
                ph = ph * (1j * (1 - 2 * bit))
            elif l == "Z":
                ph = ph * (1 - 2 * bit)
        np.add.at(M, (k ^ flip, k), c * ph)
    return M


def annihilators(n):
    """Jordan-Wigner ladder matrices a_p on n modes (mode p = qubit p, occupied = |1>, first qubit most significant):
    a_p |.. n_p=1 ..> = (-1)^(sum_{q<p} n_q) |.. n_p=0 ..>."""
    dim = 2**n
    k = np.arange(dim)
    out = []
    for p in range(n):
        bit = (k >> (n - 1 - p)) & 1
        occ_before = np.zeros(dim, dtype=int)
        for q in range(p):
            occ_before += (k >> (n - 1 - q)) & 1
        A = np.zeros((dim, dim), dtype=complex)
        src = k[bit == 1]
        A[src ^ (1 << (n - 1 - p)), src] = (-1.0) ** occ_before[bit == 1]
        out.append(A)
    return out
