"""Bridge between PennyLane objects and the independent reference models.

Reads operator *data* only (name, parameters, wires, hyper-parameters, expression structure) and builds matrices
with R-GATES / R-SV.  Where an operator is not tabulated, falls back to ``qp.matrix(op)`` and reports
``independent=False`` so that callers can attribute errors correctly and count how much of a run was independent.
"""
from __future__ import annotations

import numpy as np

from . import gates as G
from . import sv


class NoReference(Exception):
    pass


def _scalar_params(op):
    out = []
    for d in op.data:
        a = np.asarray(d)
        if a.ndim != 0:
            raise NoReference("batched or non-scalar parameter")
        out.append(a.item() if not np.iscomplexobj(a) else complex(a))
    return out


def _hyper(op):
    h = {}
    try:
        hp = dict(op.hyperparameters)
    except Exception:  # noqa: BLE001
        hp = {}
    if "pauli_word" in hp:
        h["pauli_word"] = hp["pauli_word"]
    if "dim" in hp:
        h["dimension"] = hp["dim"]
    if "dimension" in hp:
        h["dimension"] = hp["dimension"]
    if "value" in hp:
        h["value"] = hp["value"]
        h["geq"] = hp.get("geq", True)
    return h


def op_matrix(op, fallback=True):
    """Returns (matrix on op.wires, independent: bool)."""
    import pennylane as qp

    name = type(op).__name__
    nw = len(op.wires)
    # ---- symbolic / arithmetic structure (recursive)
    base = getattr(op, "base", None)
    if name in ("Adjoint", "Adjoint2", "AdjointOperation", "AdjointOpObs", "AdjointObs") and base is not None:
        M, ind = op_matrix(base, fallback)
        return M.conj().T, ind
    if name in ("Pow", "Pow2", "PowOperation", "PowOpObs", "PowObs") and base is not None:
        z = op.z
        if float(z) == int(z):
            M, ind = op_matrix(base, fallback)
            z = int(z)
            return (np.linalg.matrix_power(M, z) if z >= 0 else np.linalg.matrix_power(M.conj().T, -z)), ind
    if name in ("Controlled", "ControlledOp", "ControlledOp2", "Controlled2") and base is not None:
        M, ind = op_matrix(base, fallback)
        cw = list(op.control_wires)
        cv = [int(bool(v)) for v in op.control_values]
        C = G.controlled(M, len(cw), cv)
        # C is on cw + base.wires ; op.wires should be the same order
        order = cw + list(base.wires)
        if list(op.wires) != order:
            C = sv.embed(C, order, list(op.wires))
        return C, ind
    if name == "MultiControlledX":
        cv = [int(bool(v)) for v in op.control_values]
        return G.controlled(G.X, nw - 1, cv), True
    if name == "Prod":
        ind = True
        U = np.eye(2**nw, dtype=complex)
        for o in op.operands:
            M, i = op_matrix(o, fallback)
            ind &= i
            U = U @ sv.embed(M, list(o.wires), list(op.wires))
        return U, ind
    if name in ("Sum",):
        ind = True
        U = np.zeros((2**nw, 2**nw), dtype=complex)
        for o in op.operands:
            M, i = op_matrix(o, fallback)
            ind &= i
            U = U + sv.embed(M, list(o.wires), list(op.wires))
        return U, ind
    if name == "SProd" and base is not None:
        M, ind = op_matrix(base, fallback)
        return complex(np.asarray(op.scalar)) * M, ind
    if name == "QubitUnitary":
        U = np.asarray(op.data[0])
        if U.ndim == 2:
            return U.astype(complex), True
    if name == "DiagonalQubitUnitary":
        D = np.asarray(op.data[0])
        if D.ndim == 1:
            return np.diag(D.astype(complex)), True
    if name in G.TABULATED:
        try:
            M = G.ref_matrix(name, _scalar_params(op), nw, _hyper(op))
        except NoReference:
            M = None
        if M is not None and M.shape == (2**nw, 2**nw):
            return M, True
    if not fallback:
        raise NoReference(name)
    M = qp.matrix(op)
    M = np.asarray(M)
    if M.ndim != 2:
        raise NoReference(f"{name}: batched matrix")
    return M.astype(complex), False


def tape_gates(ops, fallback=True):
    """[(matrix, wires)] for a list of operators; second value = fraction of gates with an independent reference."""
    out, nind = [], 0
    for o in ops:
        M, ind = op_matrix(o, fallback)
        nind += bool(ind)
        out.append((M, list(o.wires)))
    return out, (nind / len(out) if out else 1.0)


def tape_unitary(ops, wire_order, fallback=True):
    g, frac = tape_gates(ops, fallback)
    return sv.unitary(g, wire_order), frac


def tape_state(ops, wire_order, fallback=True, init=None):
    g, frac = tape_gates(ops, fallback)
    return sv.run(g, wire_order, init=init), frac
