"""R-PAULI — Pauli words/sentences as plain data with dense kron matrices (numpy only; never imports pennylane).

A *word* is a dict {wire: 'X'|'Y'|'Z'} (identity letters may be present as 'I' and are ignored); a *sentence* is a list of
(coefficient, word).  First wire of ``wire_order`` = most significant tensor factor.
"""
import numpy as np

P = {
    "I": np.eye(2, dtype=complex),
    "X": np.array([[0, 1], [1, 0]], dtype=complex),
    "Y": np.array([[0, -1j], [1j, 0]], dtype=complex),
    "Z": np.array([[1, 0], [0, -1]], dtype=complex),
}


def word_matrix(word, wire_order):
    M = np.ones((1, 1), dtype=complex)
    for w in wire_order:
        M = np.kron(M, P[word.get(w, "I")])
    return M


def sentence_matrix(terms, wire_order):
    d = 2 ** len(wire_order)
    M = np.zeros((d, d), dtype=complex)
    for c, word in terms:
        M = M + complex(c) * word_matrix(word, wire_order)
    return M


def strip(word):
    return {w: c for w, c in word.items() if c != "I"}


def commute(w1, w2):
    """Symplectic rule: words commute iff they carry different non-identity letters on an even number of shared wires."""
    a, b = strip(w1), strip(w2)
    return sum(1 for k in a if k in b and a[k] != b[k]) % 2 == 0


def qwc(w1, w2):
    """Qubit-wise commuting: on every shared wire the letters are equal (or one is the identity)."""
    a, b = strip(w1), strip(w2)
    return all(a[k] == b[k] for k in a if k in b)


def decompose(M, wire_order):
    """Pauli coefficients of a dense matrix by explicit Hilbert–Schmidt inner products: {tuple(letters): coefficient}."""
    import itertools

    n = len(wire_order)
    out = {}
    for letters in itertools.product("IXYZ", repeat=n):
        Wm = word_matrix(dict(zip(wire_order, letters)), wire_order)
        c = np.trace(Wm.conj().T @ M) / 2**n
        if abs(c) > 1e-12:
            out[letters] = c
    return out
