"""R-FOCK — second-quantisation reference matrices written from first principles (numpy only).

Fermions: occupation-number basis |f_0 f_1 … f_{n-1}>, f_0 is the most significant bit of the basis index (so that mode j
sits on "wire" j in the first-wire-most-significant convention).  The annihilation operator acts as

    a_j |f> = (-1)^{f_0 + … + f_{j-1}} f_j |f_0 … 0_j … f_{n-1}>

(the Jordan–Wigner sign is the *definition* of the ordered Fock basis, nothing is taken from PennyLane).

Encodings of an occupation string f as a qubit bit string b (all arithmetic mod 2):
    jw      b_j = f_j
    parity  b_j = f_0 + … + f_j
    bk      b = beta_n f, beta_n the top-left n x n block of the Bravyi–Kitaev matrix beta_{2^k},
            beta_1 = [1],  beta_{2x} = [[beta_x, 0], [A, beta_x]],  A = zeros except its last row = ones
            (Seeley, Richard, Love 2012, eq. 23, transposed to "index 0 first").

Bosons: truncated ladder matrix on d levels,  b|k> = sqrt(k)|k-1>,  b^dagger = b^T.
"""
from __future__ import annotations

import itertools

import numpy as np

PAULI = {
    "I": np.eye(2, dtype=complex),
    "X": np.array([[0, 1], [1, 0]], dtype=complex),
    "Y": np.array([[0, -1j], [1j, 0]], dtype=complex),
    "Z": np.array([[1, 0], [0, -1]], dtype=complex),
}


def scalar(c):
    """Coefficient -> python complex (accepts python/numpy scalars and size-1 arrays only)."""
    a = np.asarray(c)
    if a.size != 1:
        raise ValueError(f"coefficient is not a scalar: shape {a.shape}")
    return complex(a.reshape(-1)[0])


# ----------------------------------------------------------------------------------------------- fermions
def _bits(idx, n):
    return [(idx >> (n - 1 - k)) & 1 for k in range(n)]


def _index(bits):
    v = 0
    for b in bits:
        v = (v << 1) | int(b)
    return v


_LADDER = {}


def fermi_annihilators(n):
    """List [a_0 … a_{n-1}] of dense 2^n x 2^n matrices."""
    if n in _LADDER:
        return _LADDER[n]
    dim = 2**n
    out = []
    for j in range(n):
        A = np.zeros((dim, dim), dtype=complex)
        for idx in range(dim):
            f = _bits(idx, n)
            if f[j] == 1:
                sign = (-1) ** (sum(f[:j]) % 2)
                g = list(f)
                g[j] = 0
                A[_index(g), idx] = sign
        out.append(A)
    _LADDER[n] = out
    return out


def fermi_word_matrix(word, n):
    """word: sequence of (orbital, '+'|'-') in operator order (left-most first)."""
    a = fermi_annihilators(n)
    M = np.eye(2**n, dtype=complex)
    for orb, s in word:
        M = M @ (a[orb].conj().T if s == "+" else a[orb])
    return M


def fermi_sentence_matrix(sentence, n):
    """sentence: sequence of (coeff, word)."""
    M = np.zeros((2**n, 2**n), dtype=complex)
    for c, w in sentence:
        M = M + scalar(c) * fermi_word_matrix(w, n)
    return M


def bk_matrix(n):
    """n x n Bravyi–Kitaev encoding matrix over GF(2) (row j = set of occupations stored by qubit j)."""
    size = 1
    B = np.array([[1]], dtype=int)
    while size < max(1, n):
        A = np.zeros((size, size), dtype=int)
        A[-1, :] = 1
        B = np.block([[B, np.zeros((size, size), dtype=int)], [A, B]])
        size *= 2
    return B[:n, :n]


def parity_matrix(n):
    return np.tril(np.ones((n, n), dtype=int))


def encoding_matrix(kind, n):
    if kind == "jw":
        return np.eye(n, dtype=int)
    if kind == "parity":
        return parity_matrix(n)
    if kind == "bk":
        return bk_matrix(n)
    raise KeyError(kind)


def encoding_permutation(kind, n):
    """Permutation matrix P with P|f> = |enc(f)>, so that  map(op) = P · Fock(op) · P^T."""
    E = encoding_matrix(kind, n)
    dim = 2**n
    P = np.zeros((dim, dim), dtype=complex)
    for idx in range(dim):
        f = np.array(_bits(idx, n), dtype=int)
        b = (E @ f) % 2 if n else f
        P[_index(b), idx] = 1
    return P


# ----------------------------------------------------------------------------------------------- Pauli sentences
def pauli_word_dense(word, wire_order):
    """word: mapping wire -> 'X'|'Y'|'Z' (missing = identity); first wire most significant."""
    M = np.ones((1, 1), dtype=complex)
    for w in wire_order:
        M = np.kron(M, PAULI[word.get(w, "I")])
    return M


def pauli_sentence_dense(items, wire_order):
    """items: iterable of (mapping wire->letter, coeff)."""
    n = len(wire_order)
    M = np.zeros((2**n, 2**n), dtype=complex)
    for word, c in items:
        word = dict(word)
        for w in word:
            if w not in wire_order:
                raise KeyError(f"wire {w!r} of the image is not in the expected wire set {wire_order!r}")
        M = M + scalar(c) * pauli_word_dense(word, wire_order)
    return M


# ----------------------------------------------------------------------------------------------- bosons
def bose_annihilator(d):
    B = np.zeros((d, d), dtype=complex)
    for k in range(1, d):
        B[k - 1, k] = np.sqrt(k)
    return B


def bose_word_matrix(word, n_modes, d):
    """word: sequence of (mode, '+'|'-') in operator order; matrix on (C^d)^{⊗ n_modes}, mode 0 most significant.
    This is the *product of truncated ladder matrices in word order*."""
    b = bose_annihilator(d)
    I = np.eye(d, dtype=complex)
    M = np.eye(d**n_modes, dtype=complex)
    for mode, s in word:
        fac = [I] * n_modes
        fac[mode] = b.conj().T if s == "+" else b
        T = np.ones((1, 1), dtype=complex)
        for f in fac:
            T = np.kron(T, f)
        M = M @ T
    return M


def bose_sentence_matrix(sentence, n_modes, d):
    M = np.zeros((d**n_modes, d**n_modes), dtype=complex)
    for c, w in sentence:
        M = M + scalar(c) * bose_word_matrix(w, n_modes, d)
    return M


def bose_isometry(codes, n_modes, d, nq_per_mode):
    """Isometry V: (C^d)^{⊗ n_modes} -> qubits, |k_0 … k_{m-1}> ↦ ⊗_modes |codes[k_mode]>,
    codes[k] = tuple of nq_per_mode bits (first bit = first wire of the mode's block)."""
    nq = n_modes * nq_per_mode
    V = np.zeros((2**nq, d**n_modes), dtype=complex)
    for col, ks in enumerate(itertools.product(range(d), repeat=n_modes)):
        bits = []
        for k in ks:
            bits.extend(codes[k])
        V[_index(bits), col] = 1
    return V


def pauli_sentence_dense_fast(items, wire_order):
    """Same as pauli_sentence_dense but O(2^n) per term: a Pauli word is the signed permutation
    |b> -> i^{#Y} (-1)^{popcount(b & zmask)} |b xor xmask>  (Y = i·X·Z, Z acts first)."""
    wire_order = list(wire_order)
    n = len(wire_order)
    pos = {}
    for k, w in enumerate(wire_order):
        pos[w] = n - 1 - k  # bit position of that wire in the basis index (first wire most significant)
    dim = 2**n
    M = np.zeros((dim, dim), dtype=complex)
    cols = np.arange(dim)
    # parity lookup by repeated folding
    def parity(v):
        v = v.copy()
        sh = 1
        while sh < max(1, n):
            v ^= v >> sh
            sh <<= 1
        return v & 1
    for word, c in items:
        xm = zm = 0
        ny = 0
        for w, letter in dict(word).items():
            if w not in pos:
                raise KeyError(f"wire {w!r} of the image is not in the expected wire set {wire_order!r}")
            bit = 1 << pos[w]
            if letter == "X":
                xm |= bit
            elif letter == "Z":
                zm |= bit
            elif letter == "Y":
                xm |= bit
                zm |= bit
                ny += 1
            elif letter != "I":
                raise ValueError(f"not a Pauli letter: {letter!r}")
        sign = 1 - 2 * parity(cols & zm)
        M[cols ^ xm, cols] += scalar(c) * (1j**ny) * sign
    return M
