"""C26/C27/C33/C71 helper — independent reference for circuits *and measurements* on labelled wires (numpy only).

Reads operator / measurement-process *data* (class name, parameters, wires, hyper-parameters, expression structure) and
evaluates them with R-GATES / R-SV.  Extends pv.ref.bridge with

* broadcast (batched) parameters: one reference matrix per batch index,
* matrix-free references for wide gates (MultiControlledX as a conditional axis flip, GroverOperator as
  ``2·mean − id``), BasisState / StatePrep as state (re)initialisation,
* measurement functionals: state, density matrix, expval, var, probs (wires / Pauli-word basis), purity, von Neumann
  entropy, mutual information — all from dense linear algebra on the reference state (or density matrix).

Never calls PennyLane numerics except through ``bridge.op_matrix``'s explicit, reported fallback.
"""
from __future__ import annotations

import numpy as np

from . import bridge
from . import gates as G
from . import sv


class NoRef(Exception):
    pass


def _np(x):
    """numpy view of any interface tensor (torch / jax / autograd / python)."""
    try:
        if hasattr(x, "detach"):
            x = x.detach().cpu().numpy()
        elif hasattr(x, "_value"):  # autograd ArrayBox
            x = x._value
        return np.asarray(x)
    except Exception as e:  # noqa: BLE001
        raise NoRef(f"cannot convert parameter: {type(x).__name__}: {e}")


def batch_size_of(op):
    """Batch size derived from the *data* of a named gate (None when not batched); independent of op.batch_size."""
    name = type(op).__name__
    nd_expected = {"QubitUnitary": 2, "DiagonalQubitUnitary": 1, "StatePrep": 1, "ControlledQubitUnitary": 2, "BasisState": 1,
                   "Hermitian": 2, "StateVectorProjector": 1, "BasisStateProjector": 1, "SparseHamiltonian": 99, "QubitChannel": 2}
    base = getattr(op, "base", None)
    if base is not None and name not in nd_expected:
        return batch_size_of(base)
    operands = getattr(op, "operands", None)
    if operands is not None:
        bs = [batch_size_of(o) for o in operands]
        bs = [b for b in bs if b is not None]
        return bs[0] if bs else None
    if name == "ControlledQubitUnitary" and base is not None:
        return batch_size_of(base)
    exp = nd_expected.get(name, 0)
    out = None
    for d in getattr(op, "data", ()):
        try:
            a = _np(d)
        except NoRef:
            continue
        if a.ndim > exp:
            out = a.shape[0]
    return out


class _Slice:
    """Proxy of an operator with every batched parameter replaced by its slice ``b`` (read-only data view)."""

    def __init__(self, op, b):
        self._op, self._b = op, b

    def __getattr__(self, k):
        return getattr(self._op, k)


def _slice_data(op, b):
    name = type(op).__name__
    exp = {"QubitUnitary": 2, "DiagonalQubitUnitary": 1, "StatePrep": 1}.get(name, 0)
    out = []
    for d in op.data:
        a = _np(d)
        out.append(a[b] if (b is not None and a.ndim > exp) else a)
    return out


def op_matrix(op, b=None):
    """(matrix on op.wires for batch index b, independent?).  Raises NoRef for things that are not matrices here."""
    name = type(op).__name__
    nw = len(op.wires)
    base = getattr(op, "base", None)
    if name.startswith("Adjoint") and base is not None:
        M, ind = op_matrix(base, b)
        return M.conj().T, ind
    if name.startswith("Pow") and base is not None:
        z = _np(op.z)
        if z.ndim == 0 and float(z) == int(z):
            M, ind = op_matrix(base, b)
            z = int(z)
            return (np.linalg.matrix_power(M, z) if z >= 0 else np.linalg.matrix_power(M.conj().T, -z)), ind
        raise NoRef("fractional power")
    if name == "SProd" and base is not None:
        M, ind = op_matrix(base, b)
        s = _np(op.scalar)
        return complex(s if s.ndim == 0 else s[b]) * M, ind
    if name in ("Prod", "Sum"):
        ind = True
        U = np.eye(2**nw, dtype=complex) if name == "Prod" else np.zeros((2**nw, 2**nw), dtype=complex)
        for o in op.operands:
            M, i = op_matrix(o, b)
            ind &= i
            E = sv.embed(M, list(o.wires), list(op.wires)) if len(o.wires) else M.reshape(()) * np.eye(2**nw)
            U = U @ E if name == "Prod" else U + E
        return U, ind
    if name in ("LinearCombination", "Hamiltonian"):
        coeffs, terms = op.terms()
        ind = True
        U = np.zeros((2**nw, 2**nw), dtype=complex)
        for c, o in zip(coeffs, terms):
            M, i = op_matrix(o, b)
            ind &= i
            U = U + complex(_np(c)) * sv.embed(M, list(o.wires), list(op.wires))
        return U, ind
    if base is not None and hasattr(op, "control_wires") and hasattr(op, "control_values") and name not in G.TABULATED:
        M, ind = op_matrix(base, b)
        cw = list(op.control_wires)
        cv = [int(bool(v)) for v in op.control_values]
        C = G.controlled(M, len(cw), cv)
        order = cw + list(base.wires)
        if list(op.wires) != order:
            if set(op.wires) != set(order):  # work wires are part of op.wires for some classes
                extra = [w for w in op.wires if w not in order]
                C = np.kron(C, np.eye(2 ** len(extra)))
                order = order + extra
            C = sv.embed(C, order, list(op.wires))
        return C, ind
    if name == "MultiControlledX":
        cv = [int(bool(v)) for v in op.control_values]
        nc = len(op.control_wires)
        if nc > 9:
            raise NoRef("wide MultiControlledX: use gate()")
        C = G.controlled(G.X, nc, cv)
        order = list(op.control_wires) + [w for w in op.wires if w not in op.control_wires][:1]
        if list(op.wires) != order:
            extra = [w for w in op.wires if w not in order]
            C = np.kron(C, np.eye(2 ** len(extra)))
            C = sv.embed(C, order + extra, list(op.wires))
        return C, True
    if name == "GroverOperator":
        if nw > 9:
            raise NoRef("wide Grover: use gate()")
        s = np.full((2**nw, 1), 2 ** (-nw / 2), dtype=complex)
        return 2 * (s @ s.conj().T) - np.eye(2**nw), True
    if name == "QubitUnitary":
        U = _slice_data(op, b)[0]
        if U.ndim == 2:
            return U.astype(complex), True
    if name == "DiagonalQubitUnitary":
        D = _slice_data(op, b)[0]
        if D.ndim == 1:
            return np.diag(D.astype(complex)), True
    if name == "Hermitian":
        return _np(op.data[0]).astype(complex), True
    if name == "BasisStateProjector":
        bits = [int(x) for x in _np(op.data[0])]
        idx = int("".join(map(str, bits)), 2)
        P = np.zeros((2**nw, 2**nw), dtype=complex)
        P[idx, idx] = 1
        return P, True
    if name == "StateVectorProjector":
        v = _np(op.data[0]).astype(complex).reshape(-1, 1)
        return v @ v.conj().T, True
    if name == "SparseHamiltonian":
        H = op.data[0] if op.data else op.H
        return np.asarray(H.toarray(), dtype=complex), True
    if name in ("Snapshot", "Barrier", "WireCut"):
        return np.eye(2**nw, dtype=complex), True
    if name in G.TABULATED:
        ps = []
        for a in _slice_data(op, b):
            if a.ndim != 0:
                raise NoRef(f"{name}: non-scalar parameter after slicing")
            ps.append(a.item())
        hyper = bridge._hyper(op)
        M = G.ref_matrix(name, ps, nw, hyper)
        if M is not None and M.shape == (2**nw, 2**nw):
            return M, True
    if b is not None and batch_size_of(op) is not None:
        import pennylane as qp
        M = np.asarray(_np(qp.matrix(op)))
        if M.ndim == 3:
            return M[b].astype(complex), False
    M, ind = bridge.op_matrix(op, fallback=True)
    return M, ind


# ----------------------------------------------------------------------------- gates acting on state tensors
def apply_op(T, op, axes_of, b=None):
    """Apply ``op`` (batch slice b) to state tensor T (one axis per wire; extra trailing axes allowed).
    ``axes_of``: wire label -> axis.  Returns (new T, independent?)."""
    name = type(op).__name__
    wires = list(op.wires)
    if name in ("Identity", "Snapshot", "Barrier", "WireCut") or (name == "GlobalPhase" and False):
        return T, True
    if name == "GlobalPhase":
        ph = _slice_data(op, b)[0]
        return T * np.exp(-1j * complex(ph)), True
    if name == "MultiControlledX":
        cw = list(op.control_wires)
        tw = [w for w in wires if w not in cw][0]
        cv = [int(bool(v)) for v in op.control_values]
        out = T.copy()
        idx = [slice(None)] * T.ndim
        for w, v in zip(cw, cv):
            idx[axes_of[w]] = v
        ta = axes_of[tw]
        i0, i1 = list(idx), list(idx)
        i0[ta], i1[ta] = 0, 1
        out[tuple(i0)] = T[tuple(i1)]
        out[tuple(i1)] = T[tuple(i0)]
        return out, True
    if name == "GroverOperator":
        ax = tuple(axes_of[w] for w in wires)
        return 2 * T.mean(axis=ax, keepdims=True) - T, True
    if name == "BasisState":
        raise NoRef("BasisState handled by run()")
    M, ind = op_matrix(op, b)
    if not wires:
        return T * M.reshape(()), ind
    return sv.apply_tensor(T, M, [axes_of[w] for w in wires]), ind


def prep_vector(op, b=None):
    """State vector on op.wires prepared by BasisState / StatePrep, from the documented meaning."""
    name = type(op).__name__
    nw = len(op.wires)
    if name == "BasisState":
        bits = [int(x) for x in _np(op.data[0]).reshape(-1)]
        v = np.zeros(2**nw, dtype=complex)
        v[int("".join(map(str, bits)), 2) if bits else 0] = 1
        return v
    if name == "StatePrep":
        a = _np(op.data[0]).astype(complex)
        if a.ndim == 2:
            a = a[b if b is not None else 0]
        hp = op.hyperparameters
        if hp.get("pad_with") is not None and a.size < 2**nw:
            a = np.concatenate([a, np.full(2**nw - a.size, hp["pad_with"], dtype=complex)])
        if hp.get("normalize"):
            a = a / np.linalg.norm(a)
        return a
    raise NoRef(name)


def run(ops, wire_order, b=None):
    """Reference final state (flat, on wire_order) of an operator list; state preparations may appear first or later on
    wires nothing has touched yet.  Returns (state, independent fraction)."""
    wire_order = list(wire_order)
    n = len(wire_order)
    axes_of = {w: i for i, w in enumerate(wire_order)}
    T = sv.zero_state(n)
    touched = set()
    nind = tot = 0
    for op in ops:
        name = type(op).__name__
        if name in ("BasisState", "StatePrep"):
            ws = list(op.wires)
            if touched & set(ws):
                raise NoRef("state preparation on used wires")
            v = prep_vector(op, b).reshape([2] * len(ws))
            # wires are in |0>: T = T[..., 0 on ws] ⊗ v
            idx = [slice(None)] * n
            for w in ws:
                idx[axes_of[w]] = 0
            rest = T[tuple(idx)]  # axes: remaining wires in order
            full = np.multiply.outer(rest, v)  # rest axes then ws axes
            rest_axes = [a for a in range(n) if a not in [axes_of[w] for w in ws]]
            src = rest_axes + [axes_of[w] for w in ws]
            perm = [src.index(a) for a in range(n)]
            T = np.transpose(full, perm)
            touched |= set(ws)
            nind += 1
            tot += 1
            continue
        T, ind = apply_op(T, op, axes_of, b)
        touched |= set(op.wires)
        nind += bool(ind)
        tot += 1
    return T.reshape(-1), (nind / tot if tot else 1.0)


def tape_batch(ops):
    bs = [batch_size_of(o) for o in ops]
    bs = [x for x in bs if x is not None]
    return bs[0] if bs else None


# ----------------------------------------------------------------------------- measurements
def obs_matrix(obs):
    """Dense Hermitian matrix of an observable on obs.wires → (matrix, independent?)."""
    return op_matrix(obs, None)


def _entropy(rho, base):
    return sv.vn_entropy(rho, base=base)


def pauli_basis_change(obs):
    """For probs(op=obs) with obs a Pauli word on distinct wires: list of (2x2 V†, wire) mapping eigenbasis → computational
    basis with eigenvalue +1 ↔ |0>.  Returns None when obs is not such a word."""
    name = type(obs).__name__
    fac = list(obs.operands) if name == "Prod" else [obs]
    out, seen = [], set()
    for f in fac:
        n = type(f).__name__
        if n not in ("PauliX", "PauliY", "PauliZ", "X", "Y", "Z", "Hadamard") or f.wires[0] in seen:
            return None
        seen.add(f.wires[0])
        if n in ("PauliZ", "Z"):
            V = np.eye(2, dtype=complex)
        elif n in ("PauliX", "X"):
            V = G.H
        elif n in ("PauliY", "Y"):
            V = np.array([[1, 1], [1j, -1j]], dtype=complex) / np.sqrt(2)  # columns |+i>, |-i>
        else:  # Hadamard observable: eigenvectors of H with eigenvalues +1, -1
            c, s = np.cos(np.pi / 8), np.sin(np.pi / 8)
            V = np.array([[c, -s], [s, c]], dtype=complex)
        out.append((V.conj().T, f.wires[0]))
    return out


def measure(mp, rho_or_psi, wire_order, is_dm=False):
    """Reference value of measurement process ``mp`` on a pure state (flat vector) or a density matrix on wire_order.
    Returns (value, independent?)."""
    wire_order = list(wire_order)
    n = len(wire_order)
    t = type(mp).__name__
    psi = None if is_dm else np.asarray(rho_or_psi, dtype=complex).reshape(-1)
    rho = np.asarray(rho_or_psi, dtype=complex) if is_dm else None

    def get_rho():
        return rho if rho is not None else sv.density(psi)

    def reduced(keep):
        keep = list(keep)
        if psi is not None:
            # partial trace of a pure state without building the full density matrix
            T = psi.reshape([2] * n)
            idx = [wire_order.index(w) for w in keep]
            rest = [a for a in range(n) if a not in idx]
            A = np.transpose(T, idx + rest).reshape(2 ** len(idx), -1)
            return A @ A.conj().T
        return sv.reduced_dm(rho, wire_order, keep)

    def ev(M, wires):
        if not len(wires):
            return complex(M.reshape(()))
        if psi is not None:
            return sv.expval(psi, M, list(wires), wire_order)
        r = reduced(wires)
        return np.trace(M @ r)

    if t == "StateMP":
        return (psi if psi is not None else rho), True
    if t == "DensityMatrixMP":
        return reduced(mp.wires), True
    if t == "ExpectationMP":
        M, ind = obs_matrix(mp.obs)
        return float(np.real(ev(M, mp.obs.wires))), ind
    if t == "VarianceMP":
        M, ind = obs_matrix(mp.obs)
        e1 = np.real(ev(M, mp.obs.wires))
        e2 = np.real(ev(M @ M, mp.obs.wires))
        return float(e2 - e1**2), ind
    if t == "ProbabilityMP":
        if mp.obs is None:
            ws = list(mp.wires) if len(mp.wires) else wire_order
            if psi is not None:
                return sv.probs(psi, wire_order, ws), True
            return np.real(np.diag(reduced(ws))), True
        rot = pauli_basis_change(mp.obs)
        if rot is None:
            raise NoRef("probs(op) for a non-Pauli-word observable")
        ws = list(mp.obs.wires)
        r = reduced(ws)
        R = np.eye(1, dtype=complex)
        byw = {w: V for V, w in rot}
        for w in ws:
            R = np.kron(R, byw[w])
        return np.real(np.diag(R @ r @ R.conj().T)), True
    if t == "PurityMP":
        r = reduced(mp.wires)
        return float(np.real(np.trace(r @ r))), True
    if t == "VnEntropyMP":
        return _entropy(reduced(mp.wires), mp.log_base), True
    if t == "MutualInfoMP":
        w0, w1 = [list(w) for w in mp.raw_wires]
        return (_entropy(reduced(w0), mp.log_base) + _entropy(reduced(w1), mp.log_base)
                - _entropy(reduced(w0 + w1), mp.log_base)), True
    raise NoRef(t)
