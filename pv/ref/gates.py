"""R-GATES — documented unitaries of the named gates, written from the docstring formulas / literature.

Never calls PennyLane numerics.  Convention: first wire = most significant bit.
``ref_matrix(name, params, n_wires, hyper)`` returns the 2^n × 2^n matrix, or ``None`` when the gate is not
tabulated.  ``params`` are python/numpy scalars (no batches: callers slice batches themselves).
"""
from __future__ import annotations

import functools
import math

import numpy as np
from scipy.linalg import expm

I2 = np.eye(2, dtype=complex)
X = np.array([[0, 1], [1, 0]], dtype=complex)
Y = np.array([[0, -1j], [1j, 0]], dtype=complex)
Z = np.array([[1, 0], [0, -1]], dtype=complex)
H = np.array([[1, 1], [1, -1]], dtype=complex) / math.sqrt(2)
PAULI = {"I": I2, "X": X, "Y": Y, "Z": Z}
P0 = np.array([[1, 0], [0, 0]], dtype=complex)
P1 = np.array([[0, 0], [0, 1]], dtype=complex)


def kron(*ms):
    return functools.reduce(np.kron, ms, np.eye(1, dtype=complex))


def pauli_word_matrix(word):
    return kron(*[PAULI[c] for c in word])


def controlled(U, n_ctrl, control_values=None):
    """P_ctrl ⊗ U + (I − P_ctrl) ⊗ I with controls on the first n_ctrl wires."""
    if control_values is None:
        control_values = [1] * n_ctrl
    P = kron(*[(P1 if int(bool(v)) else P0) for v in control_values])
    dimc = 2**n_ctrl
    return np.kron(P, U) + np.kron(np.eye(dimc) - P, np.eye(U.shape[0]))


def rx(t):
    c, s = math.cos(t / 2), math.sin(t / 2)
    return np.array([[c, -1j * s], [-1j * s, c]], dtype=complex)


def ry(t):
    c, s = math.cos(t / 2), math.sin(t / 2)
    return np.array([[c, -s], [s, c]], dtype=complex)


def rz(t):
    return np.array([[np.exp(-0.5j * t), 0], [0, np.exp(0.5j * t)]], dtype=complex)


def phase(t):
    return np.array([[1, 0], [0, np.exp(1j * t)]], dtype=complex)


def rot(phi, theta, omega):
    return rz(omega) @ ry(theta) @ rz(phi)


def u2(phi, delta):
    return np.array([[1, -np.exp(1j * delta)], [np.exp(1j * phi), np.exp(1j * (phi + delta))]], dtype=complex) / math.sqrt(2)


def u3(theta, phi, delta):
    c, s = math.cos(theta / 2), math.sin(theta / 2)
    return np.array([[c, -np.exp(1j * delta) * s], [np.exp(1j * phi) * s, np.exp(1j * (phi + delta)) * c]], dtype=complex)


def perm_from_function(n, f):
    """Permutation matrix of a reversible classical function on n-bit tuples (first wire = MSB)."""
    dim = 2**n
    M = np.zeros((dim, dim), dtype=complex)
    for i in range(dim):
        bits = tuple((i >> (n - 1 - k)) & 1 for k in range(n))
        out = f(bits)
        j = 0
        for b in out:
            j = (j << 1) | int(b)
        M[j, i] = 1
    return M


# ---------------------------------------------------------------- fermionic helper (Jordan–Wigner from first principles)
def _jw_annihilation(p, n):
    """a_p on n modes: Z^{⊗p} ⊗ |0><1| ⊗ I."""
    lower = np.array([[0, 1], [0, 0]], dtype=complex)
    return kron(*([Z] * p + [lower] + [I2] * (n - p - 1)))


def orbital_rotation(phi):
    """exp(φ/2 Σ_σ (a†_{q}a_{p} − h.c.)) on interleaved spin orbitals (0,2) and (1,3); orientation fixed by the
    docstring example (|1100> → +sin(φ/2)cos(φ/2)|0110> − …|1001>)."""
    a = [_jw_annihilation(p, 4) for p in range(4)]
    k = np.zeros((16, 16), dtype=complex)
    for p, q in ((0, 2), (1, 3)):
        k += a[q].conj().T @ a[p] - a[p].conj().T @ a[q]
    return expm(-0.5 * phi * k)


def single_excitation(phi, variant=0):
    c, s = math.cos(phi / 2), math.sin(phi / 2)
    e = np.exp(variant * 0.5j * phi)
    return np.array([[e, 0, 0, 0], [0, c, -s, 0], [0, s, c, 0], [0, 0, 0, e]], dtype=complex)


def double_excitation(phi, variant=0):
    c, s = math.cos(phi / 2), math.sin(phi / 2)
    e = np.exp(variant * 0.5j * phi)
    M = np.eye(16, dtype=complex) * e
    M[3, 3] = c
    M[12, 12] = c
    M[12, 3] = s   # U|0011> = c|0011> + s|1100>
    M[3, 12] = -s  # U|1100> = c|1100> − s|0011>
    return M


def fermionic_swap(phi):
    c, s = math.cos(phi / 2), math.sin(phi / 2)
    e = np.exp(0.5j * phi)
    return np.array([[1, 0, 0, 0], [0, e * c, -1j * e * s, 0], [0, -1j * e * s, e * c, 0], [0, 0, 0, np.exp(1j * phi)]], dtype=complex)


SQ = 1 / math.sqrt(2)
FIXED = {
    "Identity": None,  # handled by size
    "PauliX": X, "X": X, "PauliY": Y, "Y": Y, "PauliZ": Z, "Z": Z, "Hadamard": H,
    "S": np.diag([1, 1j]).astype(complex),
    "T": np.diag([1, np.exp(1j * math.pi / 4)]).astype(complex),
    "SX": 0.5 * np.array([[1 + 1j, 1 - 1j], [1 - 1j, 1 + 1j]], dtype=complex),
    "CNOT": controlled(X, 1), "CZ": controlled(Z, 1), "CY": controlled(Y, 1), "CH": controlled(H, 1),
    "SWAP": np.array([[1, 0, 0, 0], [0, 0, 1, 0], [0, 1, 0, 0], [0, 0, 0, 1]], dtype=complex),
    "ISWAP": np.array([[1, 0, 0, 0], [0, 0, 1j, 0], [0, 1j, 0, 0], [0, 0, 0, 1]], dtype=complex),
    "SISWAP": np.array([[1, 0, 0, 0], [0, SQ, 1j * SQ, 0], [0, 1j * SQ, SQ, 0], [0, 0, 0, 1]], dtype=complex),
    "SQISW": np.array([[1, 0, 0, 0], [0, SQ, 1j * SQ, 0], [0, 1j * SQ, SQ, 0], [0, 0, 0, 1]], dtype=complex),
    "ECR": SQ * np.array([[0, 0, 1, 1j], [0, 0, 1j, 1], [1, -1j, 0, 0], [-1j, 1, 0, 0]], dtype=complex),
    "Toffoli": controlled(X, 2), "CCZ": controlled(Z, 2),
}
FIXED["CSWAP"] = controlled(FIXED["SWAP"], 1)


def ref_matrix(name, params=(), n_wires=None, hyper=None):
    hyper = hyper or {}
    p = [float(np.real(x)) for x in params] if name not in ("QubitUnitary", "DiagonalQubitUnitary") else list(params)
    if name == "Identity":
        return np.eye(2 ** (n_wires or 0), dtype=complex)
    if name in ("Barrier", "WireCut"):
        return np.eye(2 ** n_wires, dtype=complex)
    if name in FIXED:
        return FIXED[name].copy()
    if name == "RX":
        return rx(p[0])
    if name == "RY":
        return ry(p[0])
    if name == "RZ":
        return rz(p[0])
    if name in ("PhaseShift", "U1"):
        return phase(p[0])
    if name == "Rot":
        return rot(*p)
    if name == "U2":
        return u2(*p)
    if name == "U3":
        return u3(*p)
    if name == "CRX":
        return controlled(rx(p[0]), 1)
    if name == "CRY":
        return controlled(ry(p[0]), 1)
    if name == "CRZ":
        return controlled(rz(p[0]), 1)
    if name == "CRot":
        return controlled(rot(*p), 1)
    if name in ("ControlledPhaseShift", "CPhase"):
        return controlled(phase(p[0]), 1)
    if name == "CPhaseShift00":
        return np.diag([np.exp(1j * p[0]), 1, 1, 1]).astype(complex)
    if name == "CPhaseShift01":
        return np.diag([1, np.exp(1j * p[0]), 1, 1]).astype(complex)
    if name == "CPhaseShift10":
        return np.diag([1, 1, np.exp(1j * p[0]), 1]).astype(complex)
    if name == "IsingXX":
        return expm(-0.5j * p[0] * np.kron(X, X))
    if name == "IsingYY":
        return expm(-0.5j * p[0] * np.kron(Y, Y))
    if name == "IsingZZ":
        return expm(-0.5j * p[0] * np.kron(Z, Z))
    if name == "IsingXY":
        return expm(0.25j * p[0] * (np.kron(X, X) + np.kron(Y, Y)))
    if name == "PSWAP":
        e = np.exp(1j * p[0])
        return np.array([[1, 0, 0, 0], [0, 0, e, 0], [0, e, 0, 0], [0, 0, 0, 1]], dtype=complex)
    if name == "MultiRZ":
        return expm(-0.5j * p[0] * kron(*([Z] * n_wires)))
    if name == "PauliRot":
        word = hyper.get("pauli_word")
        if word is None:
            return None
        return expm(-0.5j * p[0] * pauli_word_matrix(word))
    if name == "PCPhase":
        dim = hyper.get("dimension")
        if dim is None:
            return None
        if isinstance(dim, (tuple, list)):
            dim = dim[0]
        N = 2**n_wires
        return np.diag([np.exp(1j * p[0])] * int(dim) + [np.exp(-1j * p[0])] * (N - int(dim))).astype(complex)
    if name == "SingleExcitation":
        return single_excitation(p[0], 0)
    if name == "SingleExcitationPlus":
        return single_excitation(p[0], +1)
    if name == "SingleExcitationMinus":
        return single_excitation(p[0], -1)
    if name == "DoubleExcitation":
        return double_excitation(p[0], 0)
    if name == "DoubleExcitationPlus":
        return double_excitation(p[0], +1)
    if name == "DoubleExcitationMinus":
        return double_excitation(p[0], -1)
    if name == "OrbitalRotation":
        return orbital_rotation(p[0])
    if name == "FermionicSWAP":
        return fermionic_swap(p[0])
    if name == "GlobalPhase":
        return np.exp(-1j * p[0]) * np.eye(2 ** (n_wires or 0), dtype=complex)
    if name == "MultiControlledX":
        cv = hyper.get("control_values")
        nc = n_wires - 1
        if cv is None:
            cv = [1] * nc
        if isinstance(cv, str):
            cv = [int(c) for c in cv]
        return controlled(X, nc, list(cv))
    if name == "QubitSum":
        return perm_from_function(3, lambda b: (b[0], b[1], b[0] ^ b[1] ^ b[2]))
    if name == "QubitCarry":
        return perm_from_function(4, lambda b: (b[0], b[1], b[1] ^ b[2], (b[1] & b[2]) ^ b[3] ^ ((b[1] ^ b[2]) & b[0])))
    if name == "IntegerComparator":
        value, geq = hyper.get("value"), hyper.get("geq", True)
        if value is None:
            return None
        nc = n_wires - 1

        def f(b):
            v = 0
            for x in b[:nc]:
                v = (v << 1) | x
            flip = (v >= value) if geq else (v < value)
            return tuple(b[:nc]) + ((b[nc] ^ 1) if flip else b[nc],)

        return perm_from_function(n_wires, f)
    if name == "QubitUnitary":
        return np.asarray(params[0], dtype=complex)
    if name == "DiagonalQubitUnitary":
        return np.diag(np.asarray(params[0], dtype=complex))
    return None


TABULATED = sorted(set(FIXED) | {
    "RX", "RY", "RZ", "PhaseShift", "U1", "Rot", "U2", "U3", "CRX", "CRY", "CRZ", "CRot", "ControlledPhaseShift",
    "CPhaseShift00", "CPhaseShift01", "CPhaseShift10", "IsingXX", "IsingYY", "IsingZZ", "IsingXY", "PSWAP", "MultiRZ",
    "PauliRot", "PCPhase", "SingleExcitation", "SingleExcitationPlus", "SingleExcitationMinus", "DoubleExcitation",
    "DoubleExcitationPlus", "DoubleExcitationMinus", "OrbitalRotation", "FermionicSWAP", "GlobalPhase",
    "MultiControlledX", "QubitSum", "QubitCarry", "IntegerComparator", "Identity",
})
