"""R-BR (C13 part) — branch-enumerating interpreter for circuits with mid-circuit measurements and classically
controlled operations (numpy only for the linear algebra).

* ``PauliMeasure(word, wires)``: projectors (1 +/- P)/2, outcome 0 <-> eigenvalue +1 (documented in ``pauli_measure``);
* ``MidMeasure(wire, reset, postselect)``: computational-basis projectors, optional reset (X after outcome 1) and
  postselection (only that branch is kept);
* ``Conditional(meas_val, base)``: ``meas_val.concretize({measurement op: outcome})`` evaluated on the branch's outcome
  record; the base operator is applied when truthy;
* everything else: its matrix (``pv.ref.c10_circuit.gate_of``).

``enumerate_branches`` returns every branch with its (unnormalised) Kraus operator applied to the given input columns.
"""
from __future__ import annotations

import numpy as np

from . import sv
from .c10_circuit import Unsupported, gate_of

_P = {"I": np.eye(2, dtype=complex), "X": np.array([[0, 1], [1, 0]], dtype=complex),
      "Y": np.array([[0, -1j], [1j, 0]], dtype=complex), "Z": np.diag([1, -1]).astype(complex)}


def pauli_word_matrix(word):
    M = np.ones((1, 1), dtype=complex)
    for c in word:
        M = np.kron(M, _P[c])
    return M


def _pauli_word_of(o):
    for getter in (lambda: o.pauli_word, lambda: o.arguments["pauli_word"], lambda: o.hyperparameters["pauli_word"]):
        try:
            w = getter()
            if isinstance(w, str):
                return w
        except Exception:  # noqa: BLE001
            continue
    raise Unsupported("PauliMeasure without a readable pauli_word")


def _attr(o, name, default=None):
    for getter in (lambda: getattr(o, name), lambda: o.hyperparameters[name], lambda: o.arguments[name]):
        try:
            return getter()
        except Exception:  # noqa: BLE001
            continue
    return default


class Branch:
    __slots__ = ("outcomes", "T", "record")

    def __init__(self, outcomes, T, record):
        self.outcomes, self.T, self.record = outcomes, T, record


def enumerate_branches(qp, ops, wire_order, V0, max_branches=1024, eps=1e-13):
    """-> (branches, n_measurements).  Branch.T has shape (2^n, ncols) = K_b . V0 (unnormalised);
    Branch.record is the outcome string in measurement order."""
    wire_order = list(wire_order)
    n = len(wire_order)
    ncol = V0.shape[1]
    idx = {w: i for i, w in enumerate(wire_order)}

    def axes(ws):
        try:
            return [idx[w] for w in ws]
        except KeyError as e:
            raise Unsupported(f"foreign wire {e}") from e

    def apply(T, M, ws):
        Tt = T.reshape([2] * n + [ncol])
        return sv.apply_tensor(Tt, M, axes(ws)).reshape(2**n, ncol)

    branches = [Branch({}, np.asarray(V0, dtype=complex).copy(), "")]
    nmeas = 0
    for o in ops:
        nm = type(o).__name__
        if nm == "PauliMeasure":
            nmeas += 1
            P = pauli_word_matrix(_pauli_word_of(o))
            ws = list(o.wires)
            proj = [(np.eye(P.shape[0]) + P) / 2, (np.eye(P.shape[0]) - P) / 2]
            post = _attr(o, "postselect")
            new = []
            for b in branches:
                for out in (0, 1):
                    if post is not None and out != post:
                        continue
                    T2 = apply(b.T, proj[out], ws)
                    if np.linalg.norm(T2) ** 2 / ncol > eps:
                        new.append(Branch({**b.outcomes, o: out}, T2, b.record + str(out)))
            branches = new
        elif nm in ("MidMeasure", "MidMeasureMP"):
            nmeas += 1
            ws = list(o.wires)
            reset = bool(_attr(o, "reset", False))
            post = _attr(o, "postselect")
            proj = [np.diag([1, 0]).astype(complex), np.diag([0, 1]).astype(complex)]
            new = []
            for b in branches:
                for out in (0, 1):
                    if post is not None and out != post:
                        continue
                    T2 = apply(b.T, proj[out], ws)
                    if np.linalg.norm(T2) ** 2 / ncol > eps:
                        if reset and out == 1:
                            T2 = apply(T2, _P["X"], ws)
                        new.append(Branch({**b.outcomes, o: out}, T2, b.record + str(out)))
            branches = new
        elif nm == "Conditional":
            base = o.base
            g = None
            for b in branches:
                try:
                    val = o.meas_val.concretize(b.outcomes)
                except Exception as e:  # noqa: BLE001
                    raise Unsupported(f"cannot evaluate condition: {type(e).__name__}: {e}") from e
                if bool(val):
                    if g is None:
                        g = gate_of(qp, base)
                    if g is not None:
                        b.T = apply(b.T, g[0], g[1]) if len(g[1]) else b.T * complex(np.asarray(g[0]).reshape(()))
        else:
            g = gate_of(qp, o)
            if g is None:
                continue
            for b in branches:
                b.T = apply(b.T, g[0], g[1]) if len(g[1]) else b.T * complex(np.asarray(g[0]).reshape(()))
        if len(branches) > max_branches:
            raise Unsupported(f"more than {max_branches} live branches")
    return branches, nmeas
