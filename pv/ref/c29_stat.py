"""R-STAT — statistical oracles with a very strict significance threshold (numpy/scipy only).

* ``gof(counts, probs)``         G-test (log-likelihood ratio) and Pearson chi-square of observed cell counts against exact cell
                                 probabilities, after merging cells whose expected count is < ``min_expected`` into one pooled cell.
                                 A test rejects when BOTH statistics have a chi-square tail probability < alpha (default 1e-9).
* ``support_violations``         observed outcomes whose exact probability is zero (deterministic refutation, no statistics)
* ``hoeffding_halfwidth``        distribution-free bound for the mean of n independent values in [lo, hi]
* ``two_stage``                  driver for the two-stage confirmation: a rejection is re-run with a fresh derived seed and 8x the shots; only
                                 two consecutive rejections count (total false-alarm probability per case < 1e-15 for exact tests)
"""
from __future__ import annotations

import math

import numpy as np
from scipy import stats

ALPHA = 1e-9
ZERO_P = 1e-14  # exact probabilities below this are "impossible outcomes" (n * 1e-14 is negligible for every n used)


def merge_cells(counts, probs, n, min_expected=5.0):
    """Returns (observed, expected) after pooling all cells with expected count < min_expected (cells with p < ZERO_P are dropped: they
    are judged by ``support_violations``)."""
    counts = np.asarray(counts, dtype=float)
    probs = np.asarray(probs, dtype=float)
    keep = probs >= ZERO_P
    counts, probs = counts[keep], probs[keep]
    probs = probs / probs.sum()
    exp = probs * n
    big = exp >= min_expected
    obs_c, exp_c = list(counts[big]), list(exp[big])
    if (~big).any():
        po, pe = float(counts[~big].sum()), float(exp[~big].sum())
        if pe >= min_expected or not obs_c:
            obs_c.append(po)
            exp_c.append(pe)
        else:  # pooled cell still too small: fold it into the smallest regular cell
            j = int(np.argmin(exp_c))
            obs_c[j] += po
            exp_c[j] += pe
    return np.asarray(obs_c), np.asarray(exp_c)


def gof(counts, probs, alpha=ALPHA, min_expected=5.0):
    """Goodness of fit of observed counts to exact probabilities.  Returns dict(reject, p_g, p_x2, g, x2, df, cells)."""
    counts = np.asarray(counts, dtype=float)
    n = float(counts.sum())
    obs, exp = merge_cells(counts, probs, n, min_expected)
    df = len(obs) - 1
    if df <= 0 or n <= 0:
        return {"reject": False, "p_g": 1.0, "p_x2": 1.0, "g": 0.0, "x2": 0.0, "df": max(df, 0), "cells": len(obs), "n": n}
    nz = obs > 0
    g = float(2.0 * np.sum(obs[nz] * np.log(obs[nz] / exp[nz])))
    x2 = float(np.sum((obs - exp) ** 2 / exp))
    p_g = float(stats.chi2.sf(max(g, 0.0), df))
    p_x2 = float(stats.chi2.sf(x2, df))
    return {"reject": bool(p_g < alpha and p_x2 < alpha), "p_g": p_g, "p_x2": p_x2, "g": g, "x2": x2, "df": df, "cells": len(obs), "n": n}


def support_violations(counts, probs):
    """Indices of cells that were observed although their exact probability is (numerically) zero."""
    counts = np.asarray(counts)
    probs = np.asarray(probs, dtype=float)
    return [int(i) for i in np.nonzero((counts > 0) & (probs < ZERO_P))[0]]


def hoeffding_halfwidth(n, lo, hi, alpha=ALPHA):
    """P(|mean − mu| >= t) <= alpha for n independent values in [lo, hi]."""
    return (hi - lo) * math.sqrt(math.log(2.0 / alpha) / (2.0 * n))


def two_stage(run, base_shots, seed, factor=8):
    """``run(shots, seed) -> (reject: bool, detail)``.  Returns (violated, details list).  Stage 2 uses a seed derived from ``seed``."""
    r1, d1 = run(base_shots, seed)
    if not r1:
        return False, [d1]
    seed2 = int(np.random.default_rng([int(seed) % (2**32), 2]).integers(1, 2**31 - 2))
    r2, d2 = run(base_shots * factor, seed2)
    return bool(r2), [d1, d2]
