"""R-STAT (used by C60 / C70) — statistical oracles with per-test alpha <= 1e-9 and two-stage confirmation.

* ``gof_pvalue(counts, probs)``: Pearson chi-square goodness of fit of observed cell counts against exact cell
  probabilities; cells with expected count < 5 are pooled into one cell; an observation in a cell of probability 0
  gives p = 0 (impossible outcome).
* ``z_pvalue(estimate, mean, var_single, n)``: two-sided normal test of a sample mean (CLT; used with n >= 2000 and bounded summands).
* ``two_stage(run, alpha)``: ``run(stage)`` -> p-value for stage 0 (base shots) and stage 1 (fresh derived seed, 8x shots);
  a rejection needs p < alpha in BOTH stages (alpha_total < 1e-15 for the default alpha).

numpy/scipy only.
"""
from __future__ import annotations

import math

import numpy as np
from scipy import stats

ALPHA = 1e-9


def gof_pvalue(counts, probs, min_expected=5.0, zero_tol=1e-13):
    counts = np.asarray(counts, dtype=float).reshape(-1)
    probs = np.asarray(probs, dtype=float).reshape(-1)
    assert counts.shape == probs.shape
    n = counts.sum()
    if n <= 0:
        return 1.0
    probs = np.where(probs < zero_tol, 0.0, probs)
    if np.any((probs == 0) & (counts > 0)):
        return 0.0
    probs = probs / probs.sum()
    exp = n * probs
    big = exp >= min_expected
    o = list(counts[big])
    e = list(exp[big])
    if np.any(~big):
        ps, cs = float(exp[~big].sum()), float(counts[~big].sum())
        if ps > 0:
            o.append(cs)
            e.append(ps)
    o, e = np.array(o), np.array(e)
    if len(o) < 2:
        return 1.0
    # if the pooled cell is still tiny, use an exact binomial tail for it separately and chi-square on the rest
    chi = float(((o - e) ** 2 / e).sum())
    return float(stats.chi2.sf(chi, len(o) - 1))


def z_pvalue(estimate, mean, var_single, n):
    if var_single <= 0:
        return 1.0 if abs(estimate - mean) <= 1e-9 * max(1.0, abs(mean)) else 0.0
    z = (estimate - mean) / math.sqrt(var_single / n)
    return float(2 * stats.norm.sf(abs(z)))


def two_stage(run, alpha=ALPHA):
    """Returns (rejected: bool, [p0] or [p0, p1])."""
    p0 = float(run(0))
    if not p0 < alpha:
        return False, [p0]
    p1 = float(run(1))
    return bool(p1 < alpha), [p0, p1]
