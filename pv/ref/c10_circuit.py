"""C10/C11/C13/C14 helper — invoke a decomposition rule the way the framework does, resolve its work wires with the
harness's own resolver and compare the emitted circuit with a target matrix on labelled wires (numpy only for the
linear algebra; PennyLane is used to *call the rule* and to obtain matrices of emitted gates that the reference table
does not know).

Work-wire semantics (documented in ``register_resources`` / ``WorkWireSpec``):

* zeroed   = allocate(state="zero", restored=True)   : starts in |0>, must end in |0>
* borrowed = allocate(state="any",  restored=True)   : arbitrary start, must end as it started (circuit = U (x) 1)
* burnable = allocate(state="zero", restored=False)  : starts in |0>, may end anywhere (but must not stay entangled
                                                        with the target register, or the target action is not U)
* garbage  = allocate(state="any",  restored=False)  : arbitrary start, may end anywhere

The emitted circuit ``D`` restricted to the admissible inputs must therefore factorise as

    D . (1_t (x) |0>_Z (x) 1_B (x) |s>_N)  =  U_t (x) |0>_Z (x) 1_B (x) W_N

with ``W`` unconstrained (a scalar that must be exactly 1 when there are no non-restored wires: global phase
included).  ``factor_check`` computes the best ``W`` by contraction with ``U`` and returns the residual.
"""
from __future__ import annotations

import numpy as np

from . import sv

SQ2 = 1 / np.sqrt(2)
_START = {
    "zero": np.array([1, 0], dtype=complex),
    "magic-T": np.array([SQ2, SQ2 * np.exp(1j * np.pi / 4)], dtype=complex),       # T H |0>
    "magic-T-adj": np.array([SQ2, SQ2 * np.exp(-1j * np.pi / 4)], dtype=complex),  # T^+ H |0>
}

NOOP_NAMES = {"Barrier", "WireCut", "Snapshot"}
MCM_NAMES = {"MidMeasure", "MidMeasureMP", "PauliMeasure", "Conditional"}
STATEPREP_NAMES = {"StatePrep", "BasisState", "AmplitudeEmbedding", "BasisEmbedding"}


class Unsupported(Exception):
    """The harness cannot interpret this emitted circuit (inconclusive case, never a verdict)."""


class WorkWire:
    __slots__ = ("wire", "start", "restored", "t0", "t1", "static")

    def __init__(self, wire, start, restored, t0=0, t1=None, static=False):
        self.wire, self.start, self.restored, self.t0, self.t1, self.static = wire, str(start), bool(restored), t0, t1, static

    @property
    def kind(self):
        if self.start == "any":
            return "borrowed" if self.restored else "garbage"
        if self.start == "zero":
            return "zeroed" if self.restored else "burnable"
        return "magic"


# --------------------------------------------------------------------------------------------- rule invocation
def decomp_args(op):
    from pennylane.decomposition.utils import _get_decomp_args

    return _get_decomp_args(op)


def emit(qp, rule, op):
    """Call ``rule`` exactly as the framework does and return the raw queue (incl. Allocate/Deallocate)."""
    _, args, kwargs = decomp_args(op)
    with qp.queuing.AnnotatedQueue() as q:
        rule(*args, **kwargs)
    return list(q.queue)


def split_queue(queue):
    """-> (ops, work: [WorkWire], info).  ops = emitted operators without Allocate/Deallocate, in order.  The harness's own
    resolver: every allocation is a fresh wire (the DynamicWire object itself is the label), live from its Allocate to its
    Deallocate (or the end of the circuit)."""
    ops, work, live = [], [], {}
    info = {"peak_live": 0, "n_alloc": 0, "use_after_free": [], "double_free": [], "has_mcm": False,
            "per_kind": {}, "peak_per_kind": {}}
    dead = set()
    cur_kind = {}
    for o in queue:
        nm = type(o).__name__
        if nm == "Allocate":
            for w in o.wires:
                ww = WorkWire(w, str(o.state.value if hasattr(o.state, "value") else o.state), o.restored, t0=len(ops))
                work.append(ww)
                live[w] = ww
                info["n_alloc"] += 1
                info["per_kind"][ww.kind] = info["per_kind"].get(ww.kind, 0) + 1
                cur_kind[ww.kind] = cur_kind.get(ww.kind, 0) + 1
                info["peak_per_kind"][ww.kind] = max(info["peak_per_kind"].get(ww.kind, 0), cur_kind[ww.kind])
            info["peak_live"] = max(info["peak_live"], len(live))
            continue
        if nm == "Deallocate":
            for w in o.wires:
                if w in live:
                    ww = live.pop(w)
                    ww.t1 = len(ops)
                    cur_kind[ww.kind] -= 1
                    dead.add(w)
                else:
                    info["double_free"].append(repr(w))
            continue
        if nm in MCM_NAMES:
            info["has_mcm"] = True
        for w in o.wires:
            if w in dead:
                info["use_after_free"].append(nm)
        ops.append(o)
    return ops, work, info


# --------------------------------------------------------------------------------------------- matrices of emitted ops
def gate_of(qp, o):
    """(matrix, wires, independent?) of one emitted unitary operator; None for documented no-ops."""
    from . import bridge

    nm = type(o).__name__
    if nm in NOOP_NAMES:
        return None
    if nm in MCM_NAMES:
        raise Unsupported(f"mid-circuit measurement op {nm}")
    if nm == "Identity":
        return None
    wires = list(o.wires)
    try:
        M, ind = bridge.op_matrix(o)
    except bridge.NoReference as e:
        raise Unsupported(f"no matrix for emitted {nm}: {e}") from e
    except Exception as e:  # noqa: BLE001
        raise Unsupported(f"matrix of emitted {nm} raised {type(e).__name__}: {e}") from e
    M = np.asarray(M, dtype=complex)
    if nm == "GlobalPhase":
        # GlobalPhase may carry wires; its action is the scalar either way
        ph = M.reshape(-1)[0]
        return np.array(ph).reshape(()), [], ind
    if M.shape != (2 ** len(wires), 2 ** len(wires)):
        raise Unsupported(f"emitted {nm} has matrix shape {M.shape} on {len(wires)} wires")
    return M, wires, ind


def gates_of(qp, ops, depth=0):
    """[(matrix, wires)] of a list of emitted operators.  An emitted operator whose matrix cannot be obtained directly
    (e.g. a template whose own ``wires`` omit its auxiliary wire) is expanded through its own ``decomposition()``."""
    out, nind, ntot = [], 0, 0
    for o in ops:
        try:
            g = gate_of(qp, o)
        except Unsupported:
            if depth < 6 and type(o).__name__ not in MCM_NAMES and getattr(o, "has_decomposition", False):
                try:
                    sub = o.decomposition()
                except Exception as e:  # noqa: BLE001
                    raise Unsupported(f"emitted {type(o).__name__} has neither matrix nor decomposition: {e}") from e
                sub_ops, sub_work, sub_info = split_queue(list(sub))
                if sub_work or sub_info["has_mcm"]:
                    raise Unsupported(f"emitted {type(o).__name__} decomposes into allocations/measurements")
                g2, f2 = gates_of(qp, sub_ops, depth + 1)
                out.extend(g2)
                nind += f2 * len(g2)
                ntot += len(g2)
                continue
            raise
        if g is None:
            continue
        out.append((g[0], g[1]))
        nind += bool(g[2])
        ntot += 1
    return out, (nind / ntot if ntot else 1.0)


# --------------------------------------------------------------------------------------------- simulation + factorisation
def _input_isometry(order):
    """(2^n, 2^#free) isometry: free wires carry the input, the others start in their fixed vector.
    ``order``: list of (wire, vec or None)."""
    M = np.ones((1, 1), dtype=complex)
    for _, vec in order:
        if vec is None:
            M = np.kron(M, np.eye(2, dtype=complex))
        else:
            M = np.kron(M, np.asarray(vec, dtype=complex).reshape(2, 1))
    return M


def run_columns(gates, wire_order, V0):
    n = len(wire_order)
    ncol = V0.shape[1]
    T = V0.reshape([2] * n + [ncol])
    idx = {w: i for i, w in enumerate(wire_order)}
    for M, w in gates:
        try:
            axes = [idx[x] for x in w]
        except KeyError as e:
            raise Unsupported(f"foreign wire {e}") from e
        T = sv.apply_tensor(T, M, axes)
    return T.reshape(2**n, ncol)


def factor_check(Uin, Vin, target_wires, gates, work):
    """Residual of  D.(V_in (x) work inputs) = U_in (x) |0>_Z (x) 1_B (x) W_N.

    Vin, Uin : (2^nt x k) -- for every admitted target input Vin[:, j] the target register must end in Uin[:, j]
               (Vin = identity, Uin = U for an operator specified on its whole register)
    work     : list[WorkWire]
    Returns dict(err, phase_dev, err_mod_phase, ...).
    """
    target_wires = list(target_wires)
    Z = [w for w in work if w.kind == "zeroed"]
    B = [w for w in work if w.kind == "borrowed"]
    N = [w for w in work if w.kind in ("burnable", "garbage", "magic")]
    order = [(w.wire, _START["zero"]) for w in Z]
    order += [(w.wire, None) for w in B]
    for w in N:
        order.append((w.wire, None if w.start == "any" else _START[w.start]))
    wire_order = target_wires + [w for w, _ in order]
    if len(set(wire_order)) != len(wire_order):
        raise Unsupported("duplicate wire in register")
    nt = len(target_wires)
    Dt = 2**nt
    Vin = np.asarray(Vin, dtype=complex)
    Uin = np.asarray(Uin, dtype=complex)
    if Vin.shape[0] != Dt or Uin.shape != Vin.shape:
        raise Unsupported(f"target shapes {Uin.shape} / {Vin.shape} for {nt} wires")
    Dti = Vin.shape[1]
    V0 = np.kron(Vin, _input_isometry(order))
    R = run_columns(gates, wire_order, V0)
    Dz, Db = 2 ** len(Z), 2 ** len(B)
    Dn = 2 ** len(N)
    Dm = 2 ** len([w for w in N if w.start == "any"])
    R7 = R.reshape(Dt, Dz, Db, Dn, Dti, Db, Dm)
    # best W: contraction with conj(U_in), z_out = 0, trace over the borrowed register
    W = np.einsum("ac,abncbm->nm", Uin.conj(), R7[:, 0]) / (Dti * Db)
    ez = np.eye(Dz)[0]
    E = np.einsum("ac,z,bd,nm->azbncdm", Uin, ez, np.eye(Db), W)
    err = float(np.max(np.abs(R7 - E))) if R7.size else 0.0
    out = {"err": err, "nN": len(N), "ncols": int(Dti * Db * Dm), "n_wires": len(wire_order)}
    w0 = W.reshape(-1)[0]
    if not N:
        out["phase_dev"] = float(abs(w0 - 1.0))
        out["W_abs"] = float(abs(w0))
        out["W_angle"] = float(np.angle(w0)) if abs(w0) > 1e-12 else None
        out["err_mod_phase"] = err
        # exact comparison (phase included)
        E1 = np.einsum("ac,z,bd->azbcd", Uin, ez, np.eye(Db))
        out["err_exact"] = float(np.max(np.abs(R7[:, :, :, 0, :, :, 0] - E1)))
    else:
        out["phase_dev"] = 0.0
        out["W_iso_dev"] = float(np.max(np.abs(W.conj().T @ W - np.eye(Dm))))
        out["err_mod_phase"] = err
        out["err_exact"] = err
    out["D_cols"] = R          # (2^n, ncols) for classifiers; removed before reporting
    out["wire_order"] = wire_order
    return out


def static_work_of(op):
    """Work wires that an operator carries *outside* ``op.wires`` (Controlled / MultiControlledX / ControlledQubitUnitary
    ``work_wires`` with ``work_wire_type``; a few templates keep ``work_wire(s)`` out of ``wires`` too): treated with the
    same semantics as dynamic ones (templates document their auxiliary wires as starting in |0>)."""
    ww = []
    hp = {}
    try:
        hp = dict(op.hyperparameters)
    except Exception:  # noqa: BLE001
        hp = {}
    for key in ("work_wires", "work_wire"):
        v = getattr(op, key, None)
        if v is None:
            v = hp.get(key)
        if v is not None:
            try:
                ww.extend(list(v))
            except TypeError:
                ww.append(v)
    if not ww:
        return []
    wt = getattr(op, "work_wire_type", None)
    if wt is None:
        wt = hp.get("work_wire_type")
    out, seen = [], set(op.wires)
    for w in ww:
        if w in seen:
            continue
        seen.add(w)
        if wt in ("borrowed", "dirty"):
            out.append(WorkWire(w, "any", True, static=True))
        else:
            out.append(WorkWire(w, "zero", True, static=True))
    return out


# --------------------------------------------------------------------------------------------- shared pipeline (C10/C11)
class Prepared:
    """One applicable (rule, instance) pair: the raw queue and its split."""
    __slots__ = ("params", "queue", "ops", "work", "info", "error")


def prepare(qp, rule, op):
    """Applicability (framework's predicate) + invocation.  Returns None when the rule is not applicable.
    ``error`` is set (and queue None) when the rule raised."""
    params, _, _ = decomp_args(op)
    if not rule.is_applicable(**params):
        return None
    P = Prepared()
    P.params, P.error = params, None
    try:
        P.queue = emit(qp, rule, op)
    except Exception as e:  # noqa: BLE001 - classified by the caller
        P.queue, P.ops, P.work, P.info = None, None, None, None
        P.error = e
        return P
    P.ops, P.work, P.info = split_queue(P.queue)
    return P


def _valid_mask(inst, free):
    if inst.valid is None:
        return None
    mask = np.zeros(2 ** len(free), dtype=bool)
    for i in range(2 ** len(free)):
        bits = {w: (i >> (len(free) - 1 - k)) & 1 for k, w in enumerate(free)}
        mask[i] = bool(inst.valid(bits))
    return mask


def principal_power(U, z):
    """R-MAT: principal fractional power of a unitary by eigendecomposition, branch cut on (-pi, pi].
    Returns None when an eigenphase sits on the cut (ambiguous)."""
    from scipy.linalg import schur

    T, Q = schur(np.asarray(U, dtype=complex), output="complex")   # normal matrix => T diagonal
    if np.max(np.abs(T - np.diag(np.diag(T)))) > 1e-8:
        return None
    ph = np.angle(np.diag(T))
    if np.any(np.abs(np.abs(ph) - np.pi) < 1e-6):
        return None
    return Q @ np.diag(np.exp(1j * ph * z)) @ Q.conj().T


def domain_isometry(reg, zero, mask):
    order = [(w, (_START["zero"] if w in zero else None)) for w in reg]
    V = _input_isometry(order)
    if mask is not None:
        V = V[:, np.asarray(mask, dtype=bool)]
    return V


def target_of(qp, inst):
    """-> dict(wires, Vin, Uin, how, work): for every admitted input ``Vin[:, j]`` of the register ``wires`` the operator
    maps to ``Uin[:, j]``.

    Base instances with a native matrix: ``qp.matrix(op)`` (the operator's matrix).  Templates without one: the harness's
    own simulation of the legacy ``op.decomposition()`` on the documented domain (agreement of two real paths).  State
    preparations: the documented state vector.  Symbolic variants: R-MAT (adjoint / integer / principal fractional power /
    projector-controlled) of the base's target.  ``work`` = static work wires (outside ``wires``) with WorkWire semantics."""
    if "target" in inst.cache:
        return inst.cache["target"]
    op = inst.op
    if inst.sym is None:
        wires = list(op.wires)
        native = bool(getattr(op, "has_matrix", False))
        static = static_work_of(op)
        work, hidden = [], []
        if native:
            work = static
        else:
            hidden = [w.wire for w in static]
        reg = wires + hidden
        zero = list(inst.zero) + hidden
        if len(reg) > 11:
            raise Unsupported("register too large")
        if inst.stateprep:
            Vin = domain_isometry(reg, reg, None)
            vec, how = None, None
            if hasattr(op, "state_vector") and not hidden:
                try:
                    vec = np.asarray(op.state_vector(wire_order=wires), dtype=complex).reshape(-1, 1)
                    how = "state_vector"
                except Exception:  # noqa: BLE001
                    vec = None
            if vec is None:
                vec, how = _legacy_columns(qp, op, reg, Vin), "legacy-decomposition"
            t = dict(wires=reg, Vin=Vin, Uin=vec, how=how, work=work, restricted=True)
        else:
            free = [w for w in reg if w not in zero]
            mask = _valid_mask(inst, free)
            Vin = domain_isometry(reg, zero, mask)
            if getattr(inst, "perm", None) is not None:
                Uin, how = _perm_columns(inst, reg, zero, mask), "documented-arithmetic"
            elif native:
                M = np.asarray(qp.matrix(op, wire_order=reg), dtype=complex)
                if M.ndim != 2:
                    raise Unsupported("batched target matrix")
                Uin, how = M @ Vin, "matrix"
            else:
                Uin, how = _legacy_columns(qp, op, reg, Vin), "legacy-decomposition"
            t = dict(wires=reg, Vin=Vin, Uin=Uin, how=how, work=work, restricted=bool(zero) or mask is not None)
            if how == "documented-arithmetic":
                # does the operator's own (legacy) decomposition agree with the documented arithmetic?  (diagnostic for the
                # mechanism tag: if not, every rule that emits the operator itself inherits the discrepancy)
                try:
                    t["legacy_agrees"] = bool(np.max(np.abs(_legacy_columns(qp, op, reg, Vin) - Uin)) < 1e-8)
                except Exception:  # noqa: BLE001
                    t["legacy_agrees"] = None
        inst.cache["target"] = t
        return t
    # ---- symbolic variant: R-MAT on the base target
    b = target_of(qp, inst.base)
    Vb, Ub = b["Vin"], b["Uin"]
    if Vb.shape[1] == 1 and inst.base.stateprep:
        raise Unsupported("symbolic variant of a state preparation")
    kind = inst.sym[0]
    reg = list(b["wires"])
    how = "rmat(" + b["how"] + ")"
    k = Vb.shape[1]
    M = Vb.conj().T @ Ub                                             # action inside the domain, if invariant
    invariant = np.max(np.abs(Ub - Vb @ M)) < 1e-9
    if kind == "adjoint":
        Vin, Uin = Ub, Vb                                            # specified on the image of the base's domain
    elif kind == "pow":
        if not invariant:
            raise Unsupported("power of an operator whose documented input domain is not invariant")
        z = inst.sym[1]
        if float(z) == int(z):
            z = int(z)
            Mz = np.linalg.matrix_power(M, z) if z >= 0 else np.linalg.matrix_power(M.conj().T, -z)
        else:
            Mz = principal_power(M, float(z))
            if Mz is None:
                # eigenphase on the branch cut: the operator's own matrix is the only definition
                if len(reg) > 6 or b["how"] != "matrix" or b["restricted"]:
                    raise Unsupported("fractional power with an eigenphase on the branch cut")
                Mz = np.asarray(qp.matrix(op, wire_order=reg), dtype=complex)
                how = "qp.matrix(on-branch-cut)"
        Vin, Uin = Vb, Vb @ Mz
    elif kind == "ctrl":
        cw, cv = inst.sym[1], inst.sym[2]
        nc = len(cw)
        sel = int("".join(str(int(bool(v))) for v in cv), 2)
        Vin = np.kron(np.eye(2**nc), Vb)
        Uin = Vin.copy()
        Dt = Vb.shape[0]
        Uin[sel * Dt:(sel + 1) * Dt, sel * k:(sel + 1) * k] = Ub
        reg = list(cw) + reg
    else:
        raise Unsupported(f"unknown symbolic kind {kind}")
    have = set(reg) | {x.wire for x in b["work"]}
    work = list(b["work"]) + [w for w in static_work_of(op) if w.wire not in have]
    t = dict(wires=reg, Vin=Vin, Uin=Uin, how=how, work=work, restricted=b["restricted"])
    inst.cache["target"] = t
    return t


def _perm_columns(inst, reg, zero, mask):
    """Independent oracle for arithmetic templates: the documented classical action on computational basis states
    (auxiliary wires in |0> and restored).  Columns ordered like ``domain_isometry``."""
    free = [w for w in reg if w not in zero]
    n = len(reg)
    cols = []
    for i in range(2 ** len(free)):
        if mask is not None and not mask[i]:
            continue
        bits = {w: 0 for w in reg}
        for k, w in enumerate(free):
            bits[w] = (i >> (len(free) - 1 - k)) & 1
        out = inst.perm(dict(bits))
        idx = 0
        for w in reg:
            idx = 2 * idx + int(out[w])
        v = np.zeros(2**n, dtype=complex)
        v[idx] = 1
        cols.append(v)
    return np.array(cols).T


def _legacy_columns(qp, op, reg, Vin):
    """Second real path: the operator's legacy ``decomposition()`` simulated by the harness on the admitted inputs."""
    try:
        dec = op.decomposition()
    except Exception as e:  # noqa: BLE001
        raise Unsupported(f"no native matrix and decomposition() raised {type(e).__name__}: {e}") from e
    ops, work, info = split_queue(list(dec))
    if work or info["has_mcm"]:
        raise Unsupported("legacy decomposition allocates wires or measures")
    gates, _ = gates_of(qp, ops)
    return run_columns(gates, reg, Vin)
