"""R-DM — independent density-matrix simulator with Kraus sums (numpy only).

* ``kraus(name, params, hyper)``: Kraus operators of the built-in channels written from the documented formulas
  (``ThermalRelaxationError`` with T2 > T1 is documented through its Choi matrix: see ``thermal_choi``).
* ``choi(K_list)``: Choi matrix Σ_k vec(K_k) vec(K_k)† with the column-major vec used in the ThermalRelaxationError
  docstring — a representation-independent description of a channel (Kraus lists are only unique up to an isometry).
* ``run(ops, wire_order)``: evolves |0..0><0..0| through unitaries (ρ → UρU†), channels (ρ → Σ KρK†) and state
  preparations by explicit embedding of every operator into the full 2^n space (plain matrix products; nothing shared
  with PennyLane's einsum kernels).
"""
from __future__ import annotations

import numpy as np

from . import c26_ref as R
from . import gates as G
from . import sv

E00 = np.array([[1, 0], [0, 0]], dtype=complex)
E01 = np.array([[0, 1], [0, 0]], dtype=complex)
E10 = np.array([[0, 0], [1, 0]], dtype=complex)
E11 = np.array([[0, 0], [0, 1]], dtype=complex)


def _sq(x):
    return np.sqrt(max(float(x), 0.0))


def thermal_params(pe, t1, t2, tg):
    eT1 = np.exp(-tg / t1)
    eT2 = np.exp(-tg / t2)
    return eT1, eT2, 1 - eT1


def thermal_choi(pe, t1, t2, tg):
    """Documented Choi matrix of ThermalRelaxationError for T2 > T1 (column-major vec: index = row + 2*col)."""
    eT1, eT2, pr = thermal_params(pe, t1, t2, tg)
    return np.array([[1 - pe * pr, 0, 0, eT2],
                     [0, pe * pr, 0, 0],
                     [0, 0, (1 - pe) * pr, 0],
                     [eT2, 0, 0, 1 - (1 - pe) * pr]], dtype=complex)


def kraus(name, params, hyper=None):
    """Documented Kraus operators; None when the documentation gives no Kraus list (Thermal T2 > T1)."""
    hyper = hyper or {}
    p = [float(np.real(x)) for x in params]
    I2 = np.eye(2, dtype=complex)
    if name == "AmplitudeDamping":
        g = p[0]
        return [np.diag([1, _sq(1 - g)]).astype(complex), _sq(g) * E01]
    if name == "GeneralizedAmplitudeDamping":
        g, q = p
        return [_sq(1 - q) * np.diag([1, _sq(1 - g)]).astype(complex), _sq(1 - q) * _sq(g) * E01,
                _sq(q) * np.diag([_sq(1 - g), 1]).astype(complex), _sq(q) * _sq(g) * E10]
    if name == "PhaseDamping":
        g = p[0]
        return [np.diag([1, _sq(1 - g)]).astype(complex), np.diag([0, _sq(g)]).astype(complex)]
    if name == "DepolarizingChannel":
        q = p[0]
        return [_sq(1 - q) * I2, _sq(q / 3) * G.X, _sq(q / 3) * G.Y, _sq(q / 3) * G.Z]
    if name == "BitFlip":
        q = p[0]
        return [_sq(1 - q) * I2, _sq(q) * G.X]
    if name == "PhaseFlip":
        q = p[0]
        return [_sq(1 - q) * I2, _sq(q) * G.Z]
    if name == "ResetError":
        p0, p1 = p
        return [_sq(1 - p0 - p1) * I2, _sq(p0) * E00, _sq(p0) * E01, _sq(p1) * E10, _sq(p1) * E11]
    if name == "PauliError":
        q = p[0]
        word = hyper["operators"]
        return [_sq(1 - q) * np.eye(2 ** len(word), dtype=complex), _sq(q) * G.pauli_word_matrix(word)]
    if name == "ThermalRelaxationError":
        pe, t1, t2, tg = p
        if t2 > t1:
            return None
        eT1, eT2, pr = thermal_params(pe, t1, t2, tg)
        pz = (1 - pr) * (1 - eT2 / eT1) / 2
        pr0 = (1 - pe) * pr
        pr1 = pe * pr
        return [_sq(1 - pz - pr0 - pr1) * I2, _sq(pz) * G.Z, _sq(pr0) * E00, _sq(pr0) * E01, _sq(pr1) * E10, _sq(pr1) * E11]
    raise KeyError(name)


def choi(K_list):
    d = np.asarray(K_list[0]).shape[0]
    C = np.zeros((d * d, d * d), dtype=complex)
    for K in K_list:
        v = np.asarray(K, dtype=complex).reshape(-1, order="F")  # column-major vec
        C += np.outer(v, v.conj())
    return C


def completeness_defect(K_list):
    K_list = [np.asarray(K, dtype=complex) for K in K_list]
    S = sum(K.conj().T @ K for K in K_list)
    return float(np.max(np.abs(S - np.eye(S.shape[0]))))


def random_cptp(rng, k, n_kraus):
    """Random CPTP map on k qubits with n_kraus Kraus operators from the Stinespring dilation of a Haar unitary."""
    d = 2**k
    U = sv.haar_unitary(rng, d * n_kraus)
    V = U[:, :d]  # isometry C^d -> C^(d*n)
    return [V[i * d:(i + 1) * d, :].copy() for i in range(n_kraus)]


def op_kraus(op, b=None):
    """Kraus list of a PennyLane operator read from its data: documented formulas for channels (the operator's own
    matrices only for QubitChannel, whose data *are* the Kraus operators), [U] for unitaries.  → (list, independent?)"""
    name = type(op).__name__
    if name == "QubitChannel":
        return [R._np(d).astype(complex) for d in op.data], True
    if name in ("AmplitudeDamping", "GeneralizedAmplitudeDamping", "PhaseDamping", "DepolarizingChannel", "BitFlip", "PhaseFlip",
                "ResetError", "PauliError", "ThermalRelaxationError"):
        ps = [R._np(d).item() for d in op.data]
        hyper = {"operators": op.hyperparameters.get("operators")} if name == "PauliError" else {}
        K = kraus(name, ps, hyper)
        if K is None:  # Thermal T2 > T1: Kraus from the documented Choi matrix (eigendecomposition, column-major unvec)
            C = thermal_choi(*ps)
            w, V = np.linalg.eigh(C)
            K = [np.sqrt(max(w[i], 0.0)) * V[:, i].reshape(2, 2, order="F") for i in range(4)]
        return K, True
    M, ind = R.op_matrix(op, b)
    return [M], ind


def run(ops, wire_order, b=None, init=None):
    """Reference final density matrix (2^n × 2^n on wire_order).  Returns (rho, independent fraction)."""
    wire_order = list(wire_order)
    n = len(wire_order)
    if init is None:
        rho = np.zeros((2**n, 2**n), dtype=complex)
        rho[0, 0] = 1
    else:
        rho = np.asarray(init, dtype=complex)
    nind = tot = 0
    touched = set()
    for op in ops:
        name = type(op).__name__
        ws = list(op.wires)
        tot += 1
        if name in ("BasisState", "StatePrep"):
            if touched & set(ws):
                raise R.NoRef("state preparation on used wires")
            v = R.prep_vector(op, b)
            # wires ws are in |0>: apply the rank-one map |v><0| on them
            A = np.zeros((2 ** len(ws), 2 ** len(ws)), dtype=complex)
            A[:, 0] = v
            F = sv.embed(A, ws, wire_order)
            rho = F @ rho @ F.conj().T
            touched |= set(ws)
            nind += 1
            continue
        if name == "QubitDensityMatrix":
            raise R.NoRef("QubitDensityMatrix")
        if name in ("Identity", "Snapshot", "Barrier", "GlobalPhase") or not ws:
            nind += 1
            continue
        if name in ("MultiControlledX", "GroverOperator") and len(ws) > 8:
            raise R.NoRef("wide gate in density-matrix reference")
        K_list, ind = op_kraus(op, b)
        nind += bool(ind)
        new = np.zeros_like(rho)
        for K in K_list:
            F = sv.embed(K, ws, wire_order)
            new += F @ rho @ F.conj().T
        rho = new
        touched |= set(ws)
    return rho, (nind / tot if tot else 1.0)


def physical_defects(rho, tol=1e-10):
    """List of physicality violations of a density matrix (empty when fine)."""
    rho = np.asarray(rho, dtype=complex)
    out = []
    if rho.ndim != 2 or rho.shape[0] != rho.shape[1]:
        return [f"not a square matrix: shape {rho.shape}"]
    h = float(np.max(np.abs(rho - rho.conj().T)))
    if not h <= tol:
        out.append(f"not Hermitian (max |rho - rho^dagger| = {h:.2e})")
    t = complex(np.trace(rho))
    if not abs(t - 1) <= tol * max(1, rho.shape[0]):
        out.append(f"trace {t.real:.12f}{t.imag:+.1e}j != 1")
    ev = np.linalg.eigvalsh((rho + rho.conj().T) / 2)
    if not ev.min() >= -tol:
        out.append(f"negative eigenvalue {ev.min():.2e}")
    return out
