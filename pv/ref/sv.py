"""R-SV / R-EMBED — independent dense linear algebra on labelled wires (numpy only).

State tensors have one axis per wire in ``wire_order`` (first wire = most significant).
"""
from __future__ import annotations

import numpy as np


def embed(M, wires, wire_order):
    """Matrix of ``M`` (acting on ``wires`` in that order) on the full ``wire_order`` register, by explicit tensor
    re-indexing (no kron/permutation tricks shared with PennyLane's expand_matrix)."""
    wires = list(wires)
    wire_order = list(wire_order)
    n, k = len(wire_order), len(wires)
    M = np.asarray(M, dtype=complex)
    assert M.shape == (2**k, 2**k), (M.shape, wires)
    U = np.eye(2**n, dtype=complex).reshape([2] * n + [2**n])  # columns = basis states
    U = apply_tensor(U, M, [wire_order.index(w) for w in wires])
    return U.reshape(2**n, 2**n)


def apply_tensor(T, M, axes):
    """Apply k-qubit matrix ``M`` on tensor axes ``axes`` of T (extra trailing axes allowed)."""
    k = len(axes)
    if k == 0:
        return T * M.reshape(())
    Mt = np.asarray(M, dtype=complex).reshape([2] * (2 * k))
    T2 = np.tensordot(Mt, T, axes=(list(range(k, 2 * k)), list(axes)))
    # result axes: k output axes first, then remaining axes of T in order
    rest = [a for a in range(T.ndim) if a not in axes]
    perm = [0] * T.ndim
    for i, a in enumerate(axes):
        perm[a] = i
    for j, a in enumerate(rest):
        perm[a] = k + j
    return np.transpose(T2, perm)


def zero_state(n):
    s = np.zeros([2] * n, dtype=complex)
    s[(0,) * n] = 1
    return s


def run(gates, wire_order, init=None):
    """gates: iterable of (matrix, wires). Returns flat state vector on wire_order."""
    wire_order = list(wire_order)
    n = len(wire_order)
    T = zero_state(n) if init is None else np.asarray(init, dtype=complex).reshape([2] * n)
    for M, w in gates:
        T = apply_tensor(T, M, [wire_order.index(x) for x in w])
    return T.reshape(-1)


def unitary(gates, wire_order):
    wire_order = list(wire_order)
    n = len(wire_order)
    U = np.eye(2**n, dtype=complex).reshape([2] * n + [2**n])
    for M, w in gates:
        U = apply_tensor(U, M, [wire_order.index(x) for x in w])
    return U.reshape(2**n, 2**n)


def probs(state, wire_order, wires=None):
    wire_order = list(wire_order)
    n = len(wire_order)
    p = np.abs(np.asarray(state).reshape([2] * n)) ** 2
    if wires is None:
        return p.reshape(-1)
    idx = [wire_order.index(w) for w in wires]
    others = tuple(a for a in range(n) if a not in idx)
    p = p.sum(axis=others) if others else p
    # p axes are now the kept axes in increasing index order; reorder to `wires` order
    kept = [a for a in range(n) if a in idx]
    perm = [kept.index(a) for a in idx]
    return np.transpose(p, perm).reshape(-1)


def expval(state, O, wires, wire_order):
    """<psi| O_wires |psi> for dense O."""
    wire_order = list(wire_order)
    n = len(wire_order)
    T = np.asarray(state, dtype=complex).reshape([2] * n)
    OT = apply_tensor(T, O, [wire_order.index(w) for w in wires])
    return np.vdot(T.reshape(-1), OT.reshape(-1))


def density(state):
    s = np.asarray(state, dtype=complex).reshape(-1)
    return np.outer(s, s.conj())


def reduced_dm(rho, wire_order, keep):
    """Partial trace of a density matrix on wire_order down to wires ``keep`` (in that order)."""
    wire_order = list(wire_order)
    n = len(wire_order)
    R = np.asarray(rho, dtype=complex).reshape([2] * (2 * n))
    idx = [wire_order.index(w) for w in keep]
    tr = [a for a in range(n) if a not in idx]
    letters = "abcdefghijklmnopqrstuvwxyzABCDEFGHIJKLMNOPQRSTUVWXYZ"
    row = [letters[a] for a in range(n)]
    col = [letters[n + a] for a in range(n)]
    for a in tr:
        col[a] = row[a]
    out = "".join(row[a] for a in idx) + "".join(col[a] for a in idx)
    R = np.einsum("".join(row) + "".join(col) + "->" + out, R)
    k = len(idx)
    return R.reshape(2**k, 2**k)


def vn_entropy(rho, base=None):
    ev = np.linalg.eigvalsh((rho + rho.conj().T) / 2)
    ev = ev[ev > 1e-14]
    s = float(-(ev * np.log(ev)).sum())
    return s / np.log(base) if base else s


def phase_dist(A, B):
    """min_phi || A − e^{i phi} B ||_F, normalised by max(1, ||B||_F / sqrt(dim))."""
    A = np.asarray(A, dtype=complex)
    B = np.asarray(B, dtype=complex)
    if A.shape != B.shape:
        return float("inf")
    t = np.vdot(B.reshape(-1), A.reshape(-1))
    ph = t / abs(t) if abs(t) > 1e-14 else 1.0
    return float(np.linalg.norm(A - ph * B))


def dist(A, B):
    A = np.asarray(A, dtype=complex)
    B = np.asarray(B, dtype=complex)
    if A.shape != B.shape:
        return float("inf")
    return float(np.linalg.norm(A - B))


def is_unitary(M, tol=1e-9):
    M = np.asarray(M, dtype=complex)
    return M.ndim == 2 and M.shape[0] == M.shape[1] and np.linalg.norm(M.conj().T @ M - np.eye(M.shape[0])) < tol * max(1, M.shape[0])


def haar_unitary(rng, dim):
    G = rng.normal(size=(dim, dim)) + 1j * rng.normal(size=(dim, dim))
    Q, R = np.linalg.qr(G)
    d = np.diag(R)
    return Q * (d / np.abs(d))


def random_state(rng, n):
    v = rng.normal(size=2**n) + 1j * rng.normal(size=2**n)
    return v / np.linalg.norm(v)
