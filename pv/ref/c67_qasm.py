"""R-QASM — a small OpenQASM 2.0 interpreter (numpy only), independent of PennyLane.

Supports: version header, ``include "qelib1.inc"`` (the gate library below is parsed by the same code), qreg/creg, gate definitions,
gate applications with parameter expressions (numbers, pi, + - * / ^, unary minus, parentheses, sin cos tan exp ln sqrt), the built-ins
``U(theta,phi,lambda)`` and ``CX``, register broadcast, ``barrier``, ``measure q[i] -> c[j]`` (and whole registers), ``reset`` (rejected),
``if(creg==n)`` (recorded, not executed).  Everything else raises ``QasmError`` (= the text is not OpenQASM 2.0).

Unitary convention: qubit 0 of the first qreg is the MOST significant bit (callers map PennyLane wire i -> q[i]).
``U(theta,phi,lambda) = [[cos(t/2), -e^{i lambda} sin(t/2)], [e^{i phi} sin(t/2), e^{i(phi+lambda)} cos(t/2)]]`` (the convention of the
current specification / Qiskit; the 2017 paper's U differs from it by the global phase e^{-i(phi+lambda)/2}).
"""
from __future__ import annotations

import cmath
import math
import re

import numpy as np

QELIB1 = r"""
gate u3(theta,phi,lambda) q { U(theta,phi,lambda) q; }
gate u2(phi,lambda) q { U(pi/2,phi,lambda) q; }
gate u1(lambda) q { U(0,0,lambda) q; }
gate cx c,t { CX c,t; }
gate id a { U(0,0,0) a; }
gate u0(gamma) q { U(0,0,0) q; }
gate u(theta,phi,lambda) q { U(theta,phi,lambda) q; }
gate p(lambda) q { U(0,0,lambda) q; }
gate x a { u3(pi,0,pi) a; }
gate y a { u3(pi,pi/2,pi/2) a; }
gate z a { u1(pi) a; }
gate h a { u2(0,pi) a; }
gate s a { u1(pi/2) a; }
gate sdg a { u1(-pi/2) a; }
gate t a { u1(pi/4) a; }
gate tdg a { u1(-pi/4) a; }
gate sx a { sdg a; h a; sdg a; }
gate sxdg a { s a; h a; s a; }
gate rx(theta) a { u3(theta, -pi/2,pi/2) a; }
gate ry(theta) a { u3(theta,0,0) a; }
gate rz(phi) a { u1(phi) a; }
gate cz a,b { h b; cx a,b; h b; }
gate cy a,b { sdg b; cx a,b; s b; }
gate swap a,b { cx a,b; cx b,a; cx a,b; }
gate ch a,b { h b; sdg b; cx a,b; h b; t b; cx a,b; t b; h b; s b; x b; s a; }
gate ccx a,b,c { h c; cx b,c; tdg c; cx a,c; t c; cx b,c; tdg c; cx a,c; t b; t c; h c; cx a,b; t a; tdg b; cx a,b; }
gate cswap a,b,c { cx c,b; ccx a,b,c; cx c,b; }
gate crx(lambda) a,b { u1(pi/2) b; cx a,b; u3(-lambda/2,0,0) b; cx a,b; u3(lambda/2,-pi/2,0) b; }
gate cry(lambda) a,b { u3(lambda/2,0,0) b; cx a,b; u3(-lambda/2,0,0) b; cx a,b; }
gate crz(lambda) a,b { u1(lambda/2) b; cx a,b; u1(-lambda/2) b; cx a,b; }
gate cu1(lambda) a,b { u1(lambda/2) a; cx a,b; u1(-lambda/2) b; cx a,b; u1(lambda/2) b; }
gate cp(lambda) a,b { u1(lambda/2) a; cx a,b; u1(-lambda/2) b; cx a,b; u1(lambda/2) b; }
gate cu3(theta,phi,lambda) c,t { u1((lambda+phi)/2) c; u1((lambda-phi)/2) t; cx c,t; u3(-theta/2,0,-(phi+lambda)/2) t; cx c,t; u3(theta/2,phi,0) t; }
gate rxx(theta) a,b { u3(pi/2, theta, 0) a; h b; cx a,b; u1(-theta) b; cx a,b; h b; u2(-pi, pi-theta) a; }
gate rzz(theta) a,b { cx a,b; u1(theta) b; cx a,b; }
"""


class QasmError(Exception):
    pass


# ----------------------------------------------------------------------------------------------- expressions
_TOK = re.compile(r"\s*(?:(\d+\.\d*(?:[eE][-+]?\d+)?|\.\d+(?:[eE][-+]?\d+)?|\d+(?:[eE][-+]?\d+)?)|([A-Za-z_][A-Za-z_0-9]*)|(.))")
_FUNCS = {"sin": math.sin, "cos": math.cos, "tan": math.tan, "exp": math.exp, "ln": math.log, "sqrt": math.sqrt}


def _tokens(text):
    out = []
    pos = 0
    text = text.strip()
    while pos < len(text):
        m = _TOK.match(text, pos)
        if not m:
            raise QasmError(f"bad expression {text!r}")
        pos = m.end()
        if m.group(1) is not None:
            out.append(("num", float(m.group(1))))
        elif m.group(2) is not None:
            out.append(("id", m.group(2)))
        elif m.group(3).strip():
            out.append(("op", m.group(3)))
    return out


def evaluate(text, env=None):
    """Evaluate an OpenQASM 2 parameter expression."""
    env = env or {}
    toks = _tokens(text)
    pos = [0]

    def peek():
        return toks[pos[0]] if pos[0] < len(toks) else (None, None)

    def take():
        t = peek()
        pos[0] += 1
        return t

    def expr():
        v = term()
        while peek() in (("op", "+"), ("op", "-")):
            op = take()[1]
            r = term()
            v = v + r if op == "+" else v - r
        return v

    def term():
        v = unary()
        while peek() in (("op", "*"), ("op", "/")):
            op = take()[1]
            r = unary()
            v = v * r if op == "*" else v / r
        return v

    def unary():
        if peek() == ("op", "-"):
            take()
            return -unary()
        if peek() == ("op", "+"):
            take()
            return unary()
        return power()

    def power():
        b = atom()
        if peek() == ("op", "^"):
            take()
            return b ** unary()
        return b

    def atom():
        k, v = take()
        if k == "num":
            return v
        if k == "id":
            if v == "pi":
                return math.pi
            if v in _FUNCS:
                if take() != ("op", "("):
                    raise QasmError("function call without (")
                a = expr()
                if take() != ("op", ")"):
                    raise QasmError("missing )")
                return _FUNCS[v](a)
            if v in env:
                return env[v]
            raise QasmError(f"unknown identifier {v!r} in expression {text!r}")
        if (k, v) == ("op", "("):
            a = expr()
            if take() != ("op", ")"):
                raise QasmError("missing )")
            return a
        raise QasmError(f"bad expression {text!r}")

    val = expr()
    if pos[0] != len(toks):
        raise QasmError(f"trailing tokens in expression {text!r}")
    return float(val)


def split_args(s):
    """Split on commas that are not inside parentheses."""
    out, depth, cur = [], 0, ""
    for ch in s:
        if ch == "(":
            depth += 1
        elif ch == ")":
            depth -= 1
        if ch == "," and depth == 0:
            out.append(cur.strip())
            cur = ""
        else:
            cur += ch
    if cur.strip():
        out.append(cur.strip())
    return out


# ----------------------------------------------------------------------------------------------- matrices
def U_matrix(theta, phi, lam):
    c, s = math.cos(theta / 2), math.sin(theta / 2)
    return np.array([[c, -cmath.exp(1j * lam) * s], [cmath.exp(1j * phi) * s, cmath.exp(1j * (phi + lam)) * c]], dtype=complex)


CX_MATRIX = np.array([[1, 0, 0, 0], [0, 1, 0, 0], [0, 0, 0, 1], [0, 0, 1, 0]], dtype=complex)


def _apply(T, M, axes):
    k = len(axes)
    Mt = M.reshape([2] * (2 * k))
    T2 = np.tensordot(Mt, T, axes=(list(range(k, 2 * k)), list(axes)))
    rest = [a for a in range(T.ndim) if a not in axes]
    perm = [0] * T.ndim
    for i, a in enumerate(axes):
        perm[a] = i
    for j, a in enumerate(rest):
        perm[a] = k + j
    return np.transpose(T2, perm)


_CALL = re.compile(r"^([A-Za-z_][A-Za-z_0-9]*)\s*(?:\((.*)\))?\s*(.*)$", re.S)
_GATEDEF = re.compile(r"gate\s+([A-Za-z_][A-Za-z_0-9]*)\s*(?:\(([^)]*)\))?\s*([^{]*)\{([^}]*)\}", re.S)


def parse_gate_defs(text, table):
    for m in _GATEDEF.finditer(text):
        name, params, qargs, body = m.group(1), m.group(2), m.group(3), m.group(4)
        params = [p.strip() for p in params.split(",")] if params and params.strip() else []
        qargs = [q.strip() for q in qargs.split(",") if q.strip()]
        stmts = []
        for st in body.split(";"):
            st = st.strip()
            if not st:
                continue
            if st.startswith("barrier"):
                continue
            cm = _CALL.match(st)
            if not cm:
                raise QasmError(f"bad statement in gate body: {st!r}")
            stmts.append((cm.group(1), split_args(cm.group(2)) if cm.group(2) is not None else [], [a.strip() for a in cm.group(3).split(",") if a.strip()]))
        table[name] = (params, qargs, stmts)
    return _GATEDEF.sub("", text)


_LIB = {}
parse_gate_defs(QELIB1, _LIB)


class Program:
    def __init__(self):
        self.qregs = {}      # name -> (offset, size)
        self.cregs = {}      # name -> size
        self.nq = 0
        self.gates = dict()  # user + library definitions
        self.T = None
        self.measures = []   # (qubit index, creg name, bit index)
        self.applied = []    # (gate name, params, qubits)  top-level applications
        self.conditionals = 0
        self.included = False

    # ---- execution
    def _ensure(self):
        if self.T is None:
            n = self.nq
            self.T = np.eye(2**n, dtype=complex).reshape([2] * n + [2**n])

    def _run(self, name, params, qubits, depth=0):
        if depth > 50:
            raise QasmError("gate recursion")
        self._ensure()
        if name == "U":
            if len(params) != 3 or len(qubits) != 1:
                raise QasmError("U takes 3 parameters and 1 qubit")
            self.T = _apply(self.T, U_matrix(*params), qubits)
            return
        if name == "CX":
            if params or len(qubits) != 2 or qubits[0] == qubits[1]:
                raise QasmError("CX takes 2 distinct qubits")
            self.T = _apply(self.T, CX_MATRIX, qubits)
            return
        if name not in self.gates:
            raise QasmError(f"gate {name!r} is not defined (not in qelib1.inc and not declared)")
        gp, gq, body = self.gates[name]
        if len(gp) != len(params) or len(gq) != len(qubits):
            raise QasmError(f"gate {name}: expected {len(gp)} parameters / {len(gq)} qubits, got {len(params)} / {len(qubits)}")
        if len(set(qubits)) != len(qubits):
            raise QasmError(f"gate {name}: duplicate qubit arguments")
        env = dict(zip(gp, params))
        qmap = dict(zip(gq, qubits))
        for sn, sp, sq in body:
            self._run(sn, [evaluate(e, env) for e in sp], [qmap[a] for a in sq], depth + 1)

    def unitary(self):
        self._ensure()
        return self.T.reshape(2**self.nq, 2**self.nq)

    def _qarg(self, a):
        m = re.match(r"^([A-Za-z_][A-Za-z_0-9]*)\s*(?:\[\s*(\d+)\s*\])?$", a)
        if not m or m.group(1) not in self.qregs:
            raise QasmError(f"unknown quantum argument {a!r}")
        off, size = self.qregs[m.group(1)]
        if m.group(2) is None:
            return [off + i for i in range(size)]
        i = int(m.group(2))
        if i >= size:
            raise QasmError(f"index out of range: {a}")
        return [off + i]

    def _carg(self, a):
        m = re.match(r"^([A-Za-z_][A-Za-z_0-9]*)\s*(?:\[\s*(\d+)\s*\])?$", a)
        if not m or m.group(1) not in self.cregs:
            raise QasmError(f"unknown classical argument {a!r}")
        size = self.cregs[m.group(1)]
        if m.group(2) is None:
            return [(m.group(1), i) for i in range(size)]
        i = int(m.group(2))
        if i >= size:
            raise QasmError(f"classical index out of range: {a}")
        return [(m.group(1), i)]


def parse(text):
    """Parse and execute an OpenQASM 2.0 program; returns a Program."""
    text = re.sub(r"//[^\n]*", "", text)
    P = Program()
    m = re.match(r"\s*OPENQASM\s+(\d+)\.(\d+)\s*;", text)
    if not m:
        raise QasmError("missing OPENQASM version header")
    if (m.group(1), m.group(2)) != ("2", "0"):
        raise QasmError(f"not an OpenQASM 2.0 program: version {m.group(1)}.{m.group(2)}")
    text = text[m.end():]
    P.gates = {}
    text = parse_gate_defs(text, P.gates)
    for st in text.split(";"):
        st = st.strip()
        if not st:
            continue
        im = re.match(r'^include\s+"([^"]+)"$', st)
        if im:
            if im.group(1) != "qelib1.inc":
                raise QasmError(f"unknown include {im.group(1)!r}")
            for k, v in _LIB.items():
                P.gates.setdefault(k, v)
            P.included = True
            continue
        rm = re.match(r"^(qreg|creg)\s+([A-Za-z_][A-Za-z_0-9]*)\s*\[\s*(\d+)\s*\]$", st)
        if rm:
            if P.T is not None:
                raise QasmError("register declared after the first operation")
            kind, name, size = rm.group(1), rm.group(2), int(rm.group(3))
            if name in P.qregs or name in P.cregs:
                raise QasmError(f"register {name} redeclared")
            if kind == "qreg":
                P.qregs[name] = (P.nq, size)
                P.nq += size
            else:
                P.cregs[name] = size
            continue
        mm = re.match(r"^measure\s+(.+?)\s*->\s*(.+)$", st)
        if mm:
            qs, cs = P._qarg(mm.group(1).strip()), P._carg(mm.group(2).strip())
            if len(qs) != len(cs):
                raise QasmError("measure: register sizes differ")
            for q, (cn, ci) in zip(qs, cs):
                P.measures.append((q, cn, ci))
            continue
        if st.startswith("barrier"):
            for a in split_args(st[len("barrier"):]):
                P._qarg(a)
            continue
        if st.startswith("reset"):
            raise QasmError("reset is not unitary (unsupported by this evaluator)")
        cm_if = re.match(r"^if\s*\(\s*([A-Za-z_][A-Za-z_0-9]*)\s*==\s*(\d+)\s*\)\s*(.+)$", st, re.S)
        if cm_if:
            if cm_if.group(1) not in P.cregs:
                raise QasmError(f"if on unknown creg {cm_if.group(1)!r}")
            P.conditionals += 1
            continue
        if st.startswith("if"):
            raise QasmError(f"malformed if statement (OpenQASM 2.0 compares a whole creg with an integer): {st!r}")
        if st.startswith("opaque"):
            continue
        cm = _CALL.match(st)
        if not cm:
            raise QasmError(f"cannot parse statement {st!r}")
        name = cm.group(1)
        params = [evaluate(e) for e in split_args(cm.group(2))] if cm.group(2) is not None else []
        qargs = [a for a in split_args(cm.group(3))]
        if not qargs:
            raise QasmError(f"gate application without qubit arguments: {st!r}")
        expanded = [P._qarg(a) for a in qargs]
        width = max(len(e) for e in expanded)
        for e in expanded:
            if len(e) not in (1, width):
                raise QasmError("register broadcast with different sizes")
        for k in range(width):
            qubits = [e[k] if len(e) > 1 else e[0] for e in expanded]
            P._run(name, params, qubits)
            P.applied.append((name, params, qubits))
    return P


def lib_matrix(name, params, n):
    """Matrix of a qelib1.inc gate on n qubits (first argument most significant)."""
    P = Program()
    P.nq = n
    P.gates = dict(_LIB)
    P._run(name, list(params), list(range(n)))
    return P.unitary()
