"""R-BR — branch-enumerating interpreter for dynamic circuits (numpy only).

A *program* is a flat list of instructions acting on a register of labelled wires (``wire_order``; first wire = most
significant).  Instructions (plain tuples built with the helpers below):

* ``gate(M, wires)``                       – k-qubit matrix on ``wires``
* ``measure(key, wire, basis=None, reset=False, postselect=None, post="computational")``
  – two-outcome projective measurement of ONE wire.  ``basis`` is ``None`` (computational basis) or a 2×2 unitary whose
  columns are the outcome-0 and outcome-1 basis vectors (documented formulas of
  ``pennylane/ftqc/parametric_midmeasure.py``: see :func:`plane_basis`).  After outcome ``b`` the wire is left in
  ``|0>`` when ``reset`` else in ``|b>`` (``post="computational"``: what "diagonalise, then measure in Z" leaves) or in the
  basis vector ``|v_b>`` (``post="basis"``: the textbook projective measurement).  ``postselect`` keeps only that outcome.
* ``cond(pred, body)``                     – classically controlled block: ``pred(outcomes) -> truthy`` is evaluated on
  the branch's outcome dict *when the block is reached*; ``body`` is a list of instructions (gates, measurements, nested
  conds).  A measurement inside a block that is not executed leaves its key absent (``Outcomes`` reads it as 0).

The interpreter is a sum over measurement histories:

* :func:`enumerate_branches` → ``Result`` with all branches ``(p, outcomes, state)`` (``p`` = joint probability of the
  history *including* the success probability of postselections; ``Result.Z`` = total surviving probability, i.e. the
  normaliser of postselection).
* :func:`follow` → one branch for a prescribed outcome list / dict / chooser callable (or sampled with an rng).
* branch averages of terminal measurements: :meth:`Result.expval`, ``var``, ``probs``, ``obs_distribution``,
  ``mv_distribution`` (distribution of any function of the outcome dict – single MCM values, lists, arithmetic),
  ``mv_expval``, ``mv_var``, ``density``.

Bridging from PennyLane objects (reads operator *data* only; gate matrices through ``pv.ref.bridge``):
:func:`program_from_ops` understands ``MidMeasure``, ``ParametricMidMeasure``/``XMidMeasure``/``YMidMeasure``,
``Conditional`` (predicate = ``meas_val.concretize(outcomes)``; conditional measurements as produced by
``ftqc.cond_measure``) and ``GraphStatePrep`` (H on every wire, CZ on every edge, nodes sorted ↔ wires in order, as
documented).  No PennyLane numerics are used for measurements / branching / averaging.
"""
from __future__ import annotations

import math

import numpy as np

from . import sv

TOL_P = 1e-14


# --------------------------------------------------------------------------------------------- instructions
def gate(M, wires):
    return ("gate", np.asarray(M, dtype=complex), tuple(wires))


def measure(key, wire, basis=None, reset=False, postselect=None, post="computational"):
    if basis is not None:
        basis = np.asarray(basis, dtype=complex)
        assert basis.shape == (2, 2)
    assert post in ("computational", "basis")
    return ("measure", key, wire, basis, bool(reset), (None if postselect is None else int(postselect)), post)


def cond(pred, body):
    return ("cond", pred, list(body))


def plane_basis(plane, angle):
    """Documented measurement bases (docstring of ``measure_arbitrary_basis``): outcome 0 ↔ the stated vector,
    outcome 1 ↔ its orthogonal complement.
        M_XY(φ) = (|0> + e^{iφ}|1>)/√2 ;  M_YZ(θ) = cos(θ/2)|0> + i sin(θ/2)|1> ;  M_ZX(θ) = cos(θ/2)|0> + sin(θ/2)|1>
    """
    a = float(angle)
    c, s = math.cos(a / 2), math.sin(a / 2)
    if plane == "XY":
        e = np.exp(1j * a)
        v0 = np.array([1, e]) / math.sqrt(2)
        v1 = np.array([1, -e]) / math.sqrt(2)
    elif plane == "YZ":
        v0 = np.array([c, 1j * s])
        v1 = np.array([1j * s, c])
    elif plane == "ZX":
        v0 = np.array([c, s])
        v1 = np.array([-s, c])
    else:
        raise ValueError(plane)
    return np.stack([v0, v1], axis=1).astype(complex)


class Outcomes(dict):
    """Outcome dict of one branch; a measurement that was not performed reads as 0."""

    def __missing__(self, key):
        return 0


class Branch:
    __slots__ = ("p", "outcomes", "state", "order", "path")

    def __init__(self, p, outcomes, state, order, path=()):
        self.p = p  # joint probability of this history (incl. postselection success)
        self.outcomes = outcomes  # Outcomes: key -> 0/1
        self.state = state  # tensor [2]*n (normalised) on wire_order
        self.order = order  # keys in the order they were measured on this branch
        self.path = path  # ((key, outcome, conditional probability, postselected?), ...)

    def bits(self):
        return tuple(int(self.outcomes[k]) for k in self.order)


# --------------------------------------------------------------------------------------------- core stepping
def _flatten(program, guards=()):
    """cond blocks → per-instruction guard tuples (conjunction), evaluated when the instruction is reached."""
    out = []
    for ins in program:
        if ins[0] == "cond":
            out.extend(_flatten(ins[2], guards + (ins[1],)))
        else:
            out.append((guards, ins))
    return out


def _project(T, axis, basis, b, reset, post):
    """Unnormalised post-measurement tensor for outcome b of a measurement of ``axis``; returns (tensor, prob)."""
    if basis is not None:
        T = sv.apply_tensor(T, basis.conj().T, [axis])
    sl = [slice(None)] * T.ndim
    sl[axis] = b
    part = T[tuple(sl)]
    p = float(np.vdot(part.reshape(-1), part.reshape(-1)).real)
    new = np.zeros_like(T)
    sl2 = list(sl)
    sl2[axis] = 0 if reset else b
    new[tuple(sl2)] = part
    if basis is not None and not reset and post == "basis":
        new = sv.apply_tensor(new, basis, [axis])
    return new, p


def _init(wire_order, init):
    n = len(wire_order)
    if init is None:
        return sv.zero_state(n)
    T = np.asarray(init, dtype=complex).reshape([2] * n).copy()
    return T


def _guards_ok(guards, outcomes):
    for g in guards:
        if not g(outcomes):
            return False
    return True


class Result:
    """All surviving branches of a program + branch averages."""

    def __init__(self, branches, wire_order, n_measure_sites):
        self.branches = branches
        self.wire_order = list(wire_order)
        self.Z = float(sum(b.p for b in branches))
        self.n_sites = n_measure_sites
        self.dead_ps = 0  # histories that ended because a postselected outcome had probability ~0 there

    def reweighted(self, weight_fn):
        """Same branches with other weights (used by mechanism classifiers to test a *wrong-semantics hypothesis*, e.g.
        "postselection renormalised per subtree" = product of the conditional probabilities of the non-postselected
        measurements only)."""
        new = [Branch(float(weight_fn(b)), b.outcomes, b.state, b.order, b.path) for b in self.branches]
        return Result(new, self.wire_order, self.n_sites)

    # -- helpers
    @property
    def defined(self):
        return self.Z > 1e-12

    def weights(self):
        return [b.p / self.Z for b in self.branches]

    def density(self):
        n = len(self.wire_order)
        rho = np.zeros((2**n, 2**n), dtype=complex)
        for b, w in zip(self.branches, self.weights()):
            v = b.state.reshape(-1)
            rho += w * np.outer(v, v.conj())
        return rho

    # -- terminal measurements on wires
    def expval(self, O, wires):
        return float(sum(w * sv.expval(b.state, O, list(wires), self.wire_order).real for b, w in zip(self.branches, self.weights())))

    def var(self, O, wires):
        O = np.asarray(O, dtype=complex)
        return self.expval(O @ O, wires) - self.expval(O, wires) ** 2

    def probs(self, wires=None):
        wires = self.wire_order if wires is None else list(wires)
        out = np.zeros(2 ** len(wires))
        for b, w in zip(self.branches, self.weights()):
            out += w * sv.probs(b.state, self.wire_order, wires)
        return out

    def obs_distribution(self, O, wires, decimals=9):
        """{eigenvalue: probability} of a projective measurement of Hermitian O on ``wires`` (branch average)."""
        O = np.asarray(O, dtype=complex)
        ev, V = np.linalg.eigh((O + O.conj().T) / 2)
        dist = {}
        for lam in sorted(set(np.round(ev, decimals).tolist())):
            idx = [i for i, e in enumerate(ev) if round(float(e), decimals) == lam]
            P = V[:, idx] @ V[:, idx].conj().T
            dist[float(lam)] = self.expval(P, wires)
        return dist

    # -- statistics of measurement values
    def mv_distribution(self, fn):
        """{value: probability} of ``fn(outcomes)`` over the (postselection-normalised) branch ensemble.  Values are made
        hashable (numpy scalars → python, sequences → tuples)."""
        dist = {}
        for b, w in zip(self.branches, self.weights()):
            v = _hashable(fn(b.outcomes))
            dist[v] = dist.get(v, 0.0) + w
        return dist

    def mv_expval(self, fn):
        return float(sum(w * float(fn(b.outcomes)) for b, w in zip(self.branches, self.weights())))

    def mv_var(self, fn):
        m1 = self.mv_expval(fn)
        m2 = float(sum(w * float(fn(b.outcomes)) ** 2 for b, w in zip(self.branches, self.weights())))
        return m2 - m1**2

    def mv_probs_list(self, keys_or_fns):
        """Joint distribution of a list of 0/1-valued measurement values, as a vector in binary order (first = MSB)."""
        k = len(keys_or_fns)
        out = np.zeros(2**k)
        for b, w in zip(self.branches, self.weights()):
            idx = 0
            for f in keys_or_fns:
                v = f(b.outcomes) if callable(f) else b.outcomes[f]
                idx = (idx << 1) | int(bool(v))
            out[idx] += w
        return out


def _hashable(v):
    if isinstance(v, (list, tuple, np.ndarray)):
        return tuple(_hashable(x) for x in (v.tolist() if isinstance(v, np.ndarray) else v))
    if isinstance(v, (bool, np.bool_)):
        return int(v)
    if isinstance(v, (np.integer,)):
        return int(v)
    if isinstance(v, (np.floating, float)):
        f = float(v)
        return int(f) if f == int(f) else f
    return v


def enumerate_branches(program, wire_order, init=None, max_branches=1 << 16, prune=TOL_P):
    """Depth-first enumeration of every measurement history with probability > ``prune``."""
    wire_order = list(wire_order)
    flat = _flatten(program)
    nsites = sum(1 for _, ins in flat if ins[0] == "measure")
    done = []
    dead_ps = 0
    stack = [(0, _init(wire_order, init), 1.0, Outcomes(), (), ())]
    while stack:
        ip, T, p, oc, order, path = stack.pop()
        while ip < len(flat):
            guards, ins = flat[ip]
            ip += 1
            if guards and not _guards_ok(guards, oc):
                continue
            if ins[0] == "gate":
                _, M, wires = ins
                T = sv.apply_tensor(T, M, [wire_order.index(w) for w in wires])
                continue
            _, key, wire, basis, reset, postselect, post = ins
            axis = wire_order.index(wire)
            kids = []
            for b in (1, 0):
                if postselect is not None and b != postselect:
                    continue
                newT, pb = _project(T, axis, basis, b, reset, post)
                if p * pb <= prune:
                    if postselect is not None:
                        dead_ps += 1
                    continue
                newT = newT / math.sqrt(pb)
                oc2 = Outcomes(oc)
                oc2[key] = b
                kids.append((ip, newT, p * pb, oc2, order + (key,), path + ((key, b, pb, postselect is not None),)))
            stack.extend(kids)  # outcome 0 is popped first
            T = None
            break
        else:
            done.append(Branch(p, oc, T, order, path))
        if len(done) + len(stack) > max_branches:
            raise RuntimeError("R-BR: too many branches")
    res = Result(done, wire_order, nsites)
    res.dead_ps = dead_ps
    return res


def follow(program, wire_order, choose, init=None):
    """Follow ONE history.  ``choose`` is

    * a numpy Generator → outcomes sampled with the Born probabilities (postselection respected),
    * a dict key → bit, or a sequence of bits consumed in execution order, or a callable
      ``choose(key, p0, p1) -> bit``.

    Returns a Branch whose ``p`` is the joint probability of that history (0.0 and ``state=None`` if it is impossible)."""
    wire_order = list(wire_order)
    flat = _flatten(program)
    T = _init(wire_order, init)
    p, oc, order, path = 1.0, Outcomes(), (), ()
    seq = None
    if isinstance(choose, (list, tuple)):
        seq = list(choose)
    for guards, ins in flat:
        if guards and not _guards_ok(guards, oc):
            continue
        if ins[0] == "gate":
            _, M, wires = ins
            T = sv.apply_tensor(T, M, [wire_order.index(w) for w in wires])
            continue
        _, key, wire, basis, reset, postselect, post = ins
        axis = wire_order.index(wire)
        T0, p0 = _project(T, axis, basis, 0, reset, post)
        T1, p1 = _project(T, axis, basis, 1, reset, post)
        if postselect is not None:
            b = postselect
        elif seq is not None:
            b = int(seq.pop(0))
        elif isinstance(choose, dict):
            b = int(choose[key])
        elif isinstance(choose, np.random.Generator):
            b = int(choose.random() < p1 / (p0 + p1))
        else:
            b = int(choose(key, p0, p1))
        newT, pb = (T1, p1) if b else (T0, p0)
        if pb <= TOL_P:
            return Branch(0.0, oc, None, order + (key,), path)
        T = newT / math.sqrt(pb)
        p *= pb
        oc[key] = b
        order = order + (key,)
        path = path + ((key, b, pb, postselect is not None),)
    return Branch(p, oc, T, order, path)


# --------------------------------------------------------------------------------------------- PennyLane bridge
def _mcm_basis(op):
    """Basis of a (parametric) mid-circuit measurement operator, from its *data* (plane, angle)."""
    name = type(op).__name__
    if name == "MidMeasure":
        return None
    plane = op.hyperparameters.get("plane", None)
    angle = op.hyperparameters.get("angle", None)
    if name == "XMidMeasure":
        plane, angle = "XY", 0.0
    elif name == "YMidMeasure":
        plane, angle = "XY", math.pi / 2
    if plane is None:
        raise ValueError(f"R-BR: unknown measurement operator {name}")
    return plane_basis(plane, float(np.asarray(angle)))


def graph_state_gates(op):
    """GraphStatePrep → [(matrix, wires)]: one-qubit op on every wire, two-qubit op on every edge; sorted node labels are
    mapped to the wires in order (documented).  Only the default H / CZ pair is interpreted independently."""
    from . import gates as G

    hp = op.hyperparameters
    graph = hp["graph"]
    one, two = hp.get("one_qubit_ops"), hp.get("two_qubit_ops")
    if getattr(one, "__name__", "") not in ("Hadamard", "H") or getattr(two, "__name__", "") != "CZ":
        raise ValueError("R-BR: only H/CZ graph states are interpreted")
    nodes = sorted(graph.node_labels if hasattr(graph, "node_labels") else graph.nodes)
    wires = list(op.wires)
    wm = dict(zip(nodes, wires))
    edges = graph.edge_labels if hasattr(graph, "edge_labels") else graph.edges
    CZ = np.diag([1, 1, 1, -1]).astype(complex)
    out = [(G.H, (w,)) for w in wires]
    out += [(CZ, (wm[a], wm[b])) for a, b in edges]
    return out


def program_from_ops(ops, post="computational", fallback=True, stats=None, basis_override=None):
    """List of PennyLane operators (tape.operations of a dynamic circuit) → R-BR program.  Measurement keys are the
    ``MidMeasure`` operator objects themselves, so ``MeasurementValue.concretize(outcomes)`` works on branch dicts."""
    from . import bridge

    prog = []
    for op in ops:
        name = type(op).__name__
        if name == "Conditional":
            mv = op.meas_val
            base = op.base
            pred = (lambda oc, mv=mv: bool(mv.concretize(oc)))
            prog.append(cond(pred, program_from_ops([base], post=post, fallback=fallback, stats=stats, basis_override=basis_override)))
        elif name in ("MidMeasure", "ParametricMidMeasure", "XMidMeasure", "YMidMeasure"):
            basis = _mcm_basis(op)
            if basis_override is not None:
                alt = basis_override(op)
                basis = basis if alt is None else alt
            prog.append(measure(op, op.wires[0], basis=basis, reset=op.reset, postselect=op.postselect, post=post))
        elif name == "GraphStatePrep":
            prog.extend(gate(M, w) for M, w in graph_state_gates(op))
        elif name in ("Barrier", "Snapshot", "WireCut"):
            continue
        elif name == "GlobalPhase":
            prog.append(gate(np.array([[np.exp(-1j * float(np.asarray(op.data[0])))]]), ()))
        elif name in ("Identity", "I"):
            continue
        elif name == "RotXZX":
            from . import gates as G

            phi, theta, omega = [float(np.asarray(d)) for d in op.data]
            prog.append(gate(G.rx(omega) @ G.rz(theta) @ G.rx(phi), list(op.wires)))  # documented: RX(ω)·RZ(θ)·RX(φ)
        else:
            M, ind = bridge.op_matrix(op, fallback=fallback)
            if stats is not None:
                stats["gates"] = stats.get("gates", 0) + 1
                stats["independent"] = stats.get("independent", 0) + int(bool(ind))
            prog.append(gate(M, list(op.wires)))
    return prog


def measurement_keys(ops):
    """MidMeasure operators of a tape in execution order (descending into Conditionals)."""
    out = []
    for op in ops:
        name = type(op).__name__
        if name == "Conditional":
            out.extend(measurement_keys([op.base]))
        elif name in ("MidMeasure", "ParametricMidMeasure", "XMidMeasure", "YMidMeasure"):
            out.append(op)
    return out
