"""Witness limiter used by the C60/C67/C69/C70/C72 checks: the bus keeps at most 40 violation records per shard, so a frequent
(already known) mechanism must not crowd out the witnesses of a rarer one.  At most ``per_mech`` witnesses per mechanism tag are
recorded per shard; every further one is only counted (counter ``witnesses:<mech>``)."""


def violation(ctx, monitor, message, case=None, mech=None, observed=None, expected=None, per_mech=3):
    key = f"witnesses:{mech}"
    n = ctx.counters.get(key, 0)
    ctx.count(key)
    if n >= per_mech:
        return
    ctx.violation(monitor, message, case=case, mech=mech, observed=observed, expected=expected)
