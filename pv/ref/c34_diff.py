"""R-DIFF — derivative references by high-order central finite differences (numpy only).

The functions differentiated here are the *reference* cost functions built on pv/ref/sv.py + pv/ref/gates.py; they are
smooth (compositions of trigonometric polynomials with elementary classical pre-processing), evaluated in float64 with an
absolute rounding error of ~1e-15.  An 8th-order central stencil with step h has truncation error
h^8 |f^(9)| / 630 and rounding error ~ 3e-16/h, so h = 1e-2 gives ~1e-13 for effective frequencies <= 4.  Every result
comes with a *self-check*: the same derivative is computed with two different steps and the difference is returned as
an error estimate; callers treat a case whose estimate exceeds their budget as inconclusive (never as a verdict).

Never imports PennyLane.
"""
from __future__ import annotations

import functools
import math

import numpy as np


@functools.lru_cache(maxsize=None)
def fd_coeffs(k, offsets):
    """Weights c_j with sum_j c_j g(t0 + o_j h) = h^k g^(k)(t0) + O(h^(len-k+...)).  Solves the moment (Vandermonde)
    system exactly in rational arithmetic."""
    from fractions import Fraction

    offs = [Fraction(o) for o in offsets]
    n = len(offs)
    A = [[o**r for o in offs] for r in range(n)]
    b = [Fraction(math.factorial(k)) if r == k else Fraction(0) for r in range(n)]
    # Gaussian elimination over the rationals
    M = [row[:] + [bb] for row, bb in zip(A, b)]
    for c in range(n):
        p = next(r for r in range(c, n) if M[r][c] != 0)
        M[c], M[p] = M[p], M[c]
        piv = M[c][c]
        M[c] = [v / piv for v in M[c]]
        for r in range(n):
            if r != c and M[r][c] != 0:
                f = M[r][c]
                M[r] = [a - f * bb for a, bb in zip(M[r], M[c])]
    return tuple(float(M[r][n]) for r in range(n))


CENTRAL9 = tuple(range(-4, 5))


def dk_dir(f, x, d, k=1, h=1e-2, offsets=CENTRAL9):
    """k-th derivative of t -> f(x + t d) at t = 0 (f may return an array)."""
    x = np.asarray(x, dtype=float)
    d = np.asarray(d, dtype=float)
    c = fd_coeffs(k, tuple(offsets))
    acc = None
    for cj, o in zip(c, offsets):
        if cj == 0.0:
            continue
        v = cj * np.asarray(f(x + o * h * d), dtype=float)
        acc = v if acc is None else acc + v
    return acc / h**k


def jacobian(f, x, h=1e-2):
    """(J, err): J[..., i] = d f / d x_i by 8th-order central differences; err = max |J_h - J_{0.6h}| (self-check)."""
    x = np.asarray(x, dtype=float)
    n = x.size
    cols, cols2 = [], []
    for i in range(n):
        e = np.zeros(n)
        e[i] = 1.0
        cols.append(dk_dir(f, x, e, 1, h))
        cols2.append(dk_dir(f, x, e, 1, 0.6 * h))
    J = np.stack(cols, axis=-1)
    J2 = np.stack(cols2, axis=-1)
    err = float(np.max(np.abs(J - J2))) if J.size else 0.0
    return J2, err


def hessian(f, x, h=2e-2):
    """(H, err): H[..., i, j] = d^2 f / dx_i dx_j.  Diagonal: 8th-order central second-derivative stencil; off-diagonal:
    nested 8th-order first derivatives.  err = max difference between steps h and 0.7 h."""
    x = np.asarray(x, dtype=float)
    n = x.size

    def one(hh):
        out = {}
        for i in range(n):
            ei = np.zeros(n)
            ei[i] = 1.0
            out[(i, i)] = dk_dir(f, x, ei, 2, hh)
            for j in range(i + 1, n):
                ej = np.zeros(n)
                ej[j] = 1.0
                g = lambda y, ej=ej: dk_dir(f, y, ej, 1, hh)  # noqa: E731
                out[(i, j)] = dk_dir(g, x, ei, 1, hh)
        shape = np.shape(out[(0, 0)])
        H = np.zeros(shape + (n, n))
        for (i, j), v in out.items():
            H[..., i, j] = v
            H[..., j, i] = v
        return H

    H1, H2 = one(h), one(0.7 * h)
    return H2, float(np.max(np.abs(H1 - H2))) if H1.size else 0.0


def sup_dk(f, x, d, k, lo, hi, h=2e-2, samples=3):
    """Estimate of sup_{t in [lo, hi]} |d^k/dt^k f(x + t d)| (elementwise), from `samples` points (the functions
    are smooth and the intervals tiny compared with their scale of variation)."""
    x = np.asarray(x, dtype=float)
    d = np.asarray(d, dtype=float)
    ts = np.linspace(lo, hi, samples) if hi > lo else [lo]
    best = None
    offs = tuple(range(-4, 5)) if k <= 4 else tuple(range(-5, 6))
    for t in ts:
        v = np.abs(dk_dir(f, x + t * d, d, k, h, offs))
        best = v if best is None else np.maximum(best, v)
    return best


# ---------------------------------------------------------------------------------------------------------------
# Documented finite-difference estimators: leading truncation constants C with |err| <= C h^p sup|f^(p+1)|
# (Taylor's theorem with Lagrange/Peano remainder for the standard stencils of the documented strategies).
#   forward/backward order 1: [f(x+h) - f(x)]/h                     -> (1/2) h   sup|f''|   on [x, x+h]
#   forward/backward order 2: [-3f(x) + 4f(x+h) - f(x+2h)]/(2h)     -> (1/3) h^2 sup|f'''|  on [x, x+2h]
#   center order 2:           [f(x+h) - f(x-h)]/(2h)                -> (1/6) h^2 sup|f'''|  on [x-h, x+h]
#   center order 4:           [-f(x+2h)+8f(x+h)-8f(x-h)+f(x-2h)]/(12h) -> (1/30) h^4 sup|f^(5)| on [x-2h, x+2h]
# The constants are upper bounds (sum of the absolute Taylor remainders), the stencil weight sums give the rounding term.
FD_RULES = {
    ("forward", 1): {"C": 0.5, "p": 1, "lo": 0, "hi": 1, "wsum": 2.0},
    ("backward", 1): {"C": 0.5, "p": 1, "lo": -1, "hi": 0, "wsum": 2.0},
    ("forward", 2): {"C": 1.0, "p": 2, "lo": 0, "hi": 2, "wsum": 4.0},
    ("backward", 2): {"C": 1.0, "p": 2, "lo": -2, "hi": 0, "wsum": 4.0},
    ("center", 2): {"C": 1.0 / 6.0, "p": 2, "lo": -1, "hi": 1, "wsum": 1.0},
    ("center", 4): {"C": 0.2, "p": 4, "lo": -2, "hi": 2, "wsum": 1.5},
}
# Peano-remainder sums (upper bounds, deliberately not tight):
#   forward-2: (4*h^3/6 + 8h^3/6)/(2h) = h^2  -> C = 1 ;  center-4: (2*32 + 2*8) h^5/120 /(12 h) = h^4/18 -> C = 0.2 covers it


def fd_error_bound(f, x, d, hstep, strategy, order, delta):
    """Elementwise bound on |FD estimate - true directional derivative| for the documented estimator with step
    ``hstep`` along direction d: C h^p sup|f^(p+1)| (x1.5 safety on the sampled sup) + rounding wsum*delta/h."""
    r = FD_RULES[(strategy, order)]
    sup = sup_dk(f, x, d, r["p"] + 1, r["lo"] * hstep, r["hi"] * hstep)
    return 1.5 * r["C"] * hstep ** r["p"] * sup + r["wsum"] * delta / hstep


# ---------------------------------------------------------------------------------------------------------------
# Fubini-Study metric of a state-valued function (C38)
def state_jacobian(psi, x, h=1e-2):
    """(dpsi, err): dpsi[:, i] = d psi / d x_i (complex) by 8th-order central differences at two steps."""
    x = np.asarray(x, dtype=float)

    def f(y):
        s = np.asarray(psi(y), dtype=complex).reshape(-1)
        return np.concatenate([s.real, s.imag])

    J, err = jacobian(f, x, h)
    d = J.shape[0] // 2
    return J[:d] + 1j * J[d:], err


def fubini_study(psi, x, h=1e-2):
    """(g, err): g_ij = Re[<d_i psi|d_j psi> - <d_i psi|psi><psi|d_j psi>] at x (documented convention of qp.metric_tensor)."""
    x = np.asarray(x, dtype=float)
    s = np.asarray(psi(x), dtype=complex).reshape(-1)
    dpsi, err = state_jacobian(psi, x, h)
    A = dpsi.conj().T @ dpsi
    b = dpsi.conj().T @ s          # <d_i psi | psi>
    g = np.real(A - np.outer(b, b.conj()))
    return g, err
