"""Keep the bounded violation list of a shard from being filled by one mechanism: after ``k`` witnesses of the same mechanism tag the
remaining ones are only counted (``repeat_suppressed:<mech>``), so that other mechanisms still get their witnesses recorded."""


def limit_repeats(ctx, k=3):
    orig = ctx.violation
    seen = {}

    def violation(monitor, message, case=None, mech=None, observed=None, expected=None):
        key = str(mech) if mech else str(message)[:80]
        seen[key] = seen.get(key, 0) + 1
        if seen[key] > k:
            ctx.count("repeat_suppressed:" + key)
            return
        orig(monitor, message, case=case, mech=mech, observed=observed, expected=expected)

    ctx.violation = violation
    return ctx
