"""C34 — Every accepted differentiation configuration gives the true derivative.

Deciding monitors (post-conditions at the differentiation boundary of the REAL code):

* ``jac.exact``   — qp.jacobian / jax.jacobian (with and without jit) / torch.autograd.functional.jacobian of a QNode
  built with diff_method in {parameter-shift (also broadcast=True), backprop, adjoint (grad_on_execution / device_vjp
  variants), device, hadamard (standard, reversed, direct, reversed-direct, auto), best}: must equal the reference
  Jacobian within 1e-8·max(1,|J|).
* ``jac.tape``    — the gradient transforms applied to tapes (param_shift, param_shift(broadcast=True), custom shifts,
  hadamard_grad modes, adjoint_jacobian, device.compute_derivatives / compute_vjp): Jacobian w.r.t. the trainable *gate*
  parameters vs the reference Jacobian of the gate-parameter cost function.
* ``jac.fd``      — finite-diff (QNode and tape level, several (h, strategy, approx_order)): |J - J_ref| must be within the
  *derived* truncation bound C·h^p·sup|f^(p+1)| (Taylor remainder, sup taken from the reference) + stencil rounding.
* ``jac.spsa``    — spsa "in expectation": the documented ``sampler`` extension point is given an enumerator of all 2^n
  Rademacher directions (num_directions = 2^n), which makes the average equal the expectation exactly, so the result
  must equal the true gradient within the central-difference truncation bound; a recording wrapper of the default
  sampler additionally checks the documented per-direction estimator mean_k d^k (d^k·grad f).

Reference (R-DIFF on R-SV, independent of PennyLane's differentiation AND simulation code): cost function = measurement
values of the independent einsum simulator with the documented gate table; differentiated with 8th-order central
differences at two step sizes (self-check <= 1e-9, otherwise the case is inconclusive).
"""
import numpy as np

from pv.ctx import fingerprint

META = {
    "id": "C34",
    "level": "exploration",
    "technique": "post-condition at the differentiation boundary: Jacobians returned by every accepted (interface, diff_method, options) "
                 "configuration vs high-order finite differences of an independent reference simulator",
    "level_text": "Random parametrized circuits (multi-frequency gates, shared parameters, classical pre-processing, broadcast batches, "
                  "expval/var/probs lists, trainable subsets) are differentiated by the real code in every configuration of the sweep; each "
                  "accepted configuration's Jacobian is compared with an independent derivative reference. Held on the configurations observed.",
    "level_note": "Trusts numpy/scipy and pv/ref gate table (validated against the real gates by C02). Finite shots are not swept "
                  "(shots=None only); spsa is decided through its documented sampler hook by exact enumeration of Rademacher "
                  "directions instead of a statistical test; jax-jit is swept on fewer circuits than the other interfaces (compile time); "
                  "tensorflow is not installed.",
    "shards": {"quick": 3, "thorough": 16},
    "budget_s": {"quick": 55, "thorough": 400},
    "min_evals": {"quick": 250, "thorough": 5000},
    "min_nontrivial": {"quick": 150, "thorough": 3000},
    "deciding": ["jac.exact", "jac.tape", "jac.fd", "jac.spsa"],
    "allow_rejections": True,
    "rule": "case = (circuit spec, parameter point, configuration); distinct = distinct (spec, point, config name); non-trivial = the "
            "configuration accepted the circuit and the reference Jacobian has an entry of magnitude > 1e-3",
    "assumptions": ["reference gate table transcribes the documented unitaries (C02)", "8th-order central differences at two steps agree to 1e-9 (self-checked per case)"],
}

TOL = 1e-8
REJECT_TYPES = ("QuantumFunctionError", "DeviceError", "NotImplementedError", "DecompositionUndefinedError", "DecompositionError",
                "OperatorPropertyUndefined", "GeneratorUndefinedError", "ParameterFrequenciesUndefinedError", "TermsUndefinedError",
                "Incomparable")


class Incomparable(Exception):
    """harness-side: the observed quantity is not the one the reference describes (e.g. a tape-level transform expanded the
    tape, so its Jacobian is w.r.t. other parameters) -- counted as a rejection, never as a verdict"""
# ValueError is a documented rejection type of the gradient transforms, but numpy/internal shape errors are ValueErrors too:
INTERNAL_VALUEERROR = ("broadcast", "shape", "array element", "dimension", "axes", "inhomogeneous", "size", "unpack", "einsum",
                       "operands", "reshape", "concatenate")


def classify_exc(e):
    """'reject' for documented rejection errors, 'crash' for internal errors on admitted input."""
    n = type(e).__name__
    msg = str(e)
    if n in REJECT_TYPES:
        return "reject"
    if n == "XlaRuntimeError" and any(f"exceptions.{t}" in msg or f"{t}:" in msg for t in REJECT_TYPES):
        return "reject"     # documented rejection raised inside a jax callback
    if n == "ValueError" and "batch sizes of the quantum script operations do not match" in msg:
        return "reject"     # explicit refusal: broadcast=True shifts on a tape that is already batched with another size
    if n == "TypeError" and "forward-mode autodiff (jvp) to a custom_vjp" in msg:   # jax's own documented limitation (device_vjp + jacfwd)
        return "reject"
    if n == "ValueError":
        low = msg.lower()
        if any(k in low for k in INTERNAL_VALUEERROR) and "gradient" not in low and "differentiat" not in low and "support" not in low:
            return "crash"
        return "reject"
    return "crash"


# ------------------------------------------------------------------------------------------------- configurations
def autograd_configs(quick):
    H = lambda mode, aux=True: {"diff_method": "hadamard", "gradient_kwargs": {"mode": mode, **({"aux_wire": "aux"} if aux else {})}}  # noqa: E731
    cfgs = [
        ("ps", {"diff_method": "parameter-shift"}),
        ("ps-bc", {"diff_method": "parameter-shift", "gradient_kwargs": {"broadcast": True}}),
        ("backprop", {"diff_method": "backprop"}),
        ("adjoint", {"diff_method": "adjoint"}),
        ("adjoint-goe", {"diff_method": "adjoint", "grad_on_execution": True}),
        ("adjoint-nogoe", {"diff_method": "adjoint", "grad_on_execution": False}),
        ("adjoint-vjp", {"diff_method": "adjoint", "device_vjp": True}),
        ("device", {"diff_method": "device"}),
        ("best", {"diff_method": "best"}),
        ("had-standard", H("standard")),
        ("had-reversed", H("reversed")),
        ("had-direct", H("direct", False)),
        ("had-revdirect", H("reversed-direct", False)),
        ("had-auto", H("auto", False)),
        ("had-auto-aux", H("auto")),
        ("ps-maxdiff2", {"diff_method": "parameter-shift", "max_diff": 2}),
    ]
    return cfgs


FD_VARIANTS = [
    ("fd-default", {}, ("forward", 1, 1e-7)),
    ("fd-c2", {"h": 1e-3, "strategy": "center", "approx_order": 2}, ("center", 2, 1e-3)),
    ("fd-f2", {"h": 1e-4, "strategy": "forward", "approx_order": 2}, ("forward", 2, 1e-4)),
    ("fd-b1", {"h": 1e-5, "strategy": "backward", "approx_order": 1}, ("backward", 1, 1e-5)),
    ("fd-c4", {"h": 1e-2, "strategy": "center", "approx_order": 4}, ("center", 4, 1e-2)),
    ("fd-b2", {"h": 2e-4, "strategy": "backward", "approx_order": 2}, ("backward", 2, 2e-4)),
]

JAX_CONFIGS = [
    ("ps", {"diff_method": "parameter-shift"}),
    ("backprop", {"diff_method": "backprop"}),
    ("adjoint", {"diff_method": "adjoint"}),
    ("adjoint-vjp", {"diff_method": "adjoint", "device_vjp": True}),
    ("had-standard", {"diff_method": "hadamard", "gradient_kwargs": {"mode": "standard", "aux_wire": "aux"}}),
    ("had-auto", {"diff_method": "hadamard", "gradient_kwargs": {"mode": "auto"}}),
    ("ps-bc", {"diff_method": "parameter-shift", "gradient_kwargs": {"broadcast": True}}),
    ("best", {"diff_method": "best"}),
]
JIT_CONFIGS = [
    ("ps", {"diff_method": "parameter-shift"}),
    ("backprop", {"diff_method": "backprop"}),
    ("adjoint", {"diff_method": "adjoint"}),
    ("adjoint-vjp", {"diff_method": "adjoint", "device_vjp": True}),
    ("had-direct", {"diff_method": "hadamard", "gradient_kwargs": {"mode": "direct"}}),
]
TORCH_CONFIGS = [
    ("ps", {"diff_method": "parameter-shift"}),
    ("backprop", {"diff_method": "backprop"}),
    ("adjoint", {"diff_method": "adjoint"}),
    ("adjoint-vjp", {"diff_method": "adjoint", "device_vjp": True}),
    ("had-standard", {"diff_method": "hadamard", "gradient_kwargs": {"mode": "standard", "aux_wire": "aux"}}),
    ("ps-bc", {"diff_method": "parameter-shift", "gradient_kwargs": {"broadcast": True}}),
]


# ------------------------------------------------------------------------------------------------- normalisation
def _flat_results(res):
    if not isinstance(res, (tuple, list)):
        res = (res,)
    return res


LEAKS = [0]


def jac_autograd(qp, qnode, x, mode, subset, nmeas):
    pnp = qp.numpy

    def F(*a):
        r = qnode(*a)
        if isinstance(r, (tuple, list)):
            return qp.math.hstack([qp.math.reshape(v, (-1,)) for v in r])
        return qp.math.reshape(r, (-1,))

    if mode == "array":
        J, nb = unbox(qp.jacobian(F)(pnp.array(x, requires_grad=True)))
        LEAKS[0] += nb
        return np.asarray(J, dtype=float).reshape(-1, len(x))
    args = [pnp.array(v, requires_grad=(i in subset)) for i, v in enumerate(x)]
    J = qp.jacobian(F, argnums=list(subset))(*args)
    if not isinstance(J, tuple):
        J = (J,)
    cols = []
    for j in J:
        j, nb = unbox(j)
        LEAKS[0] += nb
        cols.append(np.asarray(j, dtype=float).reshape(-1))
    return np.stack(cols, axis=-1)


def jac_jax(qp, qnode, x, mode, subset, nmeas, jit=False, fwd=False):
    import jax
    import jax.numpy as jnp

    jf = jax.jacfwd if fwd else jax.jacobian
    if mode == "array":
        fn = jf(qnode)
        if jit:
            fn = jax.jit(fn)
        J = fn(jnp.array(x))
        J = _flat_results(J) if nmeas > 1 else (J,)
        return np.concatenate([np.asarray(j, dtype=float).reshape(-1, len(x)) for j in J], axis=0)
    fn = jf(qnode, argnums=tuple(subset))
    if jit:
        fn = jax.jit(fn)
    J = fn(*[jnp.array(v) for v in x])
    if nmeas == 1:
        J = (J,)
    rows = []
    for jm in J:  # per measurement: tuple over args
        rows.append(np.stack([np.asarray(j, dtype=float).reshape(-1) for j in jm], axis=-1))
    return np.concatenate(rows, axis=0)


def jac_torch(qp, qnode, x, mode, subset, nmeas):
    import torch

    def F(*a):
        r = qnode(*a)
        if isinstance(r, (tuple, list)):
            return torch.cat([v.reshape(-1) for v in r])
        return r.reshape(-1)

    if mode == "array":
        xt = torch.tensor(np.asarray(x), dtype=torch.float64, requires_grad=True)
        J = torch.autograd.functional.jacobian(F, xt)
        return J.detach().numpy().astype(float).reshape(-1, len(x))
    consts = {i: torch.tensor(float(v), dtype=torch.float64) for i, v in enumerate(x) if i not in subset}

    def G(*tr):
        it = iter(tr)
        a = [next(it) if i in subset else consts[i] for i in range(len(x))]
        return F(*a)

    tr = tuple(torch.tensor(float(x[i]), dtype=torch.float64, requires_grad=True) for i in subset)
    J = torch.autograd.functional.jacobian(G, tr)
    return np.stack([j.detach().numpy().astype(float).reshape(-1) for j in J], axis=-1)


def tape_jac_to_matrix(jac, nmeas, ntrain):
    """Gradient-transform result (nested tuples: measurements x parameters) -> (m_total, ntrain) matrix."""
    if nmeas == 1:
        jac = (jac,)
    rows = []
    for jm in jac:
        if ntrain == 1:
            jm = (jm,)
        cols = [np.asarray(j, dtype=float).reshape(-1) for j in jm]
        rows.append(np.stack(cols, axis=-1))
    return np.concatenate(rows, axis=0)


# ------------------------------------------------------------------------------------------------- the check
class Judge:
    def __init__(self, ctx, spec, x, desc, flags=None, probe=None):
        self.ctx, self.spec, self.x, self.desc, self.flags, self.probe = ctx, spec, x, desc, flags, probe

    def mech(self, kind, iface, cfgname, default, exc=None):
        m = mech_for(kind, iface, cfgname, self.spec, self.flags, exc, self.probe) if self.flags is not None else None
        return m or default

    def compare(self, monitor, cfgname, J, Jref, bound, iface, extra=None):
        ctx = self.ctx
        case = {"spec": self.desc, "x": [float(v) for v in self.x], "config": cfgname, "interface": iface, **(extra or {})}
        nontriv = bool(np.max(np.abs(Jref)) > 1e-3) if Jref.size else False
        ctx.case(fingerprint(repr(self.desc), [float(v) for v in self.x], iface, cfgname), nontrivial=nontriv,
                 cls=f"{iface}:{cfgname}", sample=case)
        ctx.ev(monitor)
        J = np.asarray(J, dtype=float)
        if J.shape != Jref.shape:
            ctx.violation(monitor, f"{iface}/{cfgname}: Jacobian shape {J.shape} != reference {Jref.shape}", case=case,
                          mech=self.mech("shape", iface, cfgname, f"shape:{iface.split('-')[0]}:{cfgname.split('@')[0]}"), observed=J, expected=Jref)
            return False
        err = np.abs(J - Jref)
        bad = ~(err <= bound)  # catches NaN too
        if np.any(bad):
            k = np.unravel_index(int(np.argmax(np.where(bad, np.nan_to_num(err, nan=np.inf) - bound, -np.inf))), err.shape)
            kinds = sorted({m["kind"] for m in self.spec["meas"]})
            ctx.violation(monitor, f"{iface}/{cfgname}: Jacobian entry {k} = {J[k]:.10g}, true derivative {Jref[k]:.10g} "
                                   f"(|diff| {err[k]:.3e} > allowed {np.broadcast_to(bound, err.shape)[k]:.3e}); measurements {kinds}",
                          case=case, mech=self.mech("wrong", iface, cfgname, f"wrong-derivative:{iface.split('-')[0]}:{cfgname.split('@')[0]}"),
                          observed=J, expected=Jref)
            return False
        return True


def unbox(v):
    """autograd ArrayBox leaked by the real code (seen with max_diff=2): values are still comparable"""
    n = 0
    while type(v).__name__ == "ArrayBox" and n < 5:
        v = v._value
        n += 1
    return v, n


def gate_flags_from_inputs(C, spec, subset):
    tr = set(subset)
    return [[bool(C.expr_inputs(e) & tr) for e in g["args"]] for g in spec["gates"]]


def gate_flags_from_indices(spec, train):
    out, k = [], 0
    for g in spec["gates"]:
        out.append([(k + j) in train for j in range(len(g["args"]))])
        k += len(g["args"])
    return out


def nonstandard_wires(spec):
    """True when tape.wires (order of first appearance in operations, then measurements) is not 0..n-1"""
    seen = []
    for g in spec["gates"]:
        for w in g["wires"]:
            if w not in seen:
                seen.append(w)
    for m in spec["meas"]:
        ws = m["wires"] if m["kind"] == "probs" else (m["obs"][2] if m["obs"][0] != "sum" else [w for t in m["obs"][1] for w in t[2]])
        for w in ws:
            if w not in seen:
                seen.append(w)
    return seen != list(range(len(seen)))


ADJOINT_FAMILY = ("adjoint", "device", "compute_derivatives", "compute_vjp", "adjoint_jacobian")
PS_FAMILY = ("ps", "param_shift", "best-ps")


def mech_for(kind, iface, cfgname, spec, flags, exc=None, probe=None):
    """Mechanism tag for a failure (wrong value / crash) of configuration cfgname, computed from the circuit content:
    * adjoint family
      - a multi-parameter operation without trainable parameters reaches the adjoint kernel (all-constant Rot/CRot/U3, or the
        Rot(d, pi/2, -d) left by U2 with constant delta / U3 with constant theta, delta)
                                              -> 'adjoint:multiparam-op-shifts-param-index'
        (devices/qubit/adjoint_jacobian.py advances its parameter counter only for one-parameter operations)
      - the circuit needs a wire map (tape.wires != 0..n-1) and has a non-trainable parameter (constant gate parameter, or a
        parametrised observable: Hermitian matrix / Sum coefficients)
                                              -> 'adjoint:map_to_standard_wires-resets-trainable'
        (QuantumScript.map_to_standard_wires copies without trainable_params, so every parameter becomes trainable)
    * parameter-shift family
      - variance of a Sum observable          -> 'ps-var:sum-observable-treated-as-involutory'
      - broadcast=True with Adjoint(...)/C(...) symbolic gates -> 'ps-broadcast:symbolic-op-batch_size-none'
      - max_diff=2 under autograd, NonDifferentiableError in the backward pass -> 'autograd-maxdiff2:arraybox-in-backward'
    * torch backprop TypeError numpy*Tensor in compute_matrix -> 'torch-backprop:numpy-const-times-tensor'
    """
    base = cfgname.split("@")[0]
    fam = iface.split("-")[0]
    msg = str(exc) if exc is not None else ""
    ename = type(exc).__name__ if exc is not None else ""
    try:
        if base.startswith(ADJOINT_FAMILY) and kind == "wrong" and any(m["kind"] != "expval" for m in spec["meas"]):
            # adjoint differentiation of a non-expectation measurement goes through the state Jacobian (adjoint_state_measurements casts every
            # parameter to complex and post-processes the differentiated state); its derivatives are wrong whenever that path does not raise
            return "adjoint:state-based-measurement:wrong-derivative"
        if base.startswith(ADJOINT_FAMILY):
            # structural fallback when the probe cannot run (e.g. broadcast case): a gate with >= 2 controls is decomposed by the
            # adjoint preprocessing into MultiControlledX (data holds the control values, num_params is 0)
            if any(g["name"].startswith("C(") and int((g.get("hyper") or g.get("kw") or {}).get("n_ctrl", 0) or 0) >= 2 for g in spec["gates"] if isinstance(g, dict)):
                return "adjoint:op-data-vs-num_params-mismatch:MultiControlledX"
            nontr = False
            for g, t in zip(spec["gates"], flags):
                if t and not all(t):
                    nontr = True
                if len(t) >= 2:
                    if not any(t) or (g["name"] == "U2" and not t[1]) or (g["name"] == "U3" and not t[0] and not t[2]):
                        return "adjoint:multiparam-op-shifts-param-index"
            if probe is not None and probe("mcx"):
                return "adjoint:op-data-vs-num_params-mismatch:MultiControlledX"
            if probe is not None and probe():
                return "adjoint:multiparam-op-shifts-param-index"
            if ename == "IndexError" and ("vjp" in base or "jvp" in base) and nonstandard_wires(spec):
                # default.qubit's compute_vjp / compute_jvp (device_vjp=True) hand the tape to adjoint_vjp/jvp without mapping its wires
                # to 0..n-1 first (compute_derivatives does): IndexError in the tensordot kernels on non-standard wire orders
                return "adjoint-vjp-jvp:IndexError:nonstandard-wires"
            obs_params = any(m["kind"] != "probs" and m["obs"][0] in ("herm", "sum", "proj") for m in spec["meas"])
            if nonstandard_wires(spec) and (nontr or obs_params):
                return "adjoint:map_to_standard_wires-resets-trainable"
        if base.startswith(("had", "hadamard_grad")) and spec.get("batch") and kind == "crash":
            # hadamard_grad admits a broadcast (non-trainable) parameter (it only refuses trainable ones: assert_no_trainable_tape_batching)
            # but its post-processing stacks/reshapes results without the broadcast axis; the exception type and frame depend on the
            # interface, the mode and the measurement, the cause does not
            return "hadamard-grad:broadcast-tape:postprocessing-crash"
        if base.startswith(PS_FAMILY) or base == "best":
            if kind == "wrong" and any(m["kind"] == "var" and m["obs"][0] == "sum" for m in spec["meas"]):
                return "ps-var:sum-observable-treated-as-involutory"
            if "-bc" in base and any(g["name"].startswith(("Adj(", "C(")) for g in spec["gates"]) and (kind != "crash" or "shape-mismatch" in msg):
                return "ps-broadcast:symbolic-op-batch_size-none"
            if base == "ps-maxdiff2" and ename == "NonDifferentiableError":
                return "autograd-maxdiff2:arraybox-in-backward"
            if base == "ps-maxdiff2" and kind == "wrong" and probe is not None and probe("nocache"):
                return "c05-cache-collision:2pi-shifted-tape-served-from-cache"
        if fam == "torch" and base == "backprop" and "'numpy.ndarray' and 'Tensor'" in msg:
            return "torch-backprop:numpy-const-times-tensor"
    except Exception:  # noqa: BLE001
        pass
    return None


def crash_mech(e, iface):
    """Mechanism tag of an unexpected exception: exception type + innermost PennyLane frame (qualified function name)."""
    import traceback
    where = "?"
    for fr, _ in traceback.walk_tb(e.__traceback__):
        fn = fr.f_code.co_filename
        if "/pennylane/" in fn:
            where = getattr(fr.f_code, "co_qualname", fr.f_code.co_name)
    return f"crash:{iface.split('-')[0]}:{type(e).__name__}@{where}"


TRANSFORM_CFG_PREFIXES = ("ps", "had", "fd", "spsa", "param_shift", "hadamard_grad", "finite_diff", "best-ps")


def documented_unsupported(spec, cfgname):
    """Configurations the documentation excludes for an already-broadcast circuit (they are not 'admitted inputs'):
    * param_shift(broadcast=True): "it is not compatible with circuits that are already broadcasted" (parameter_shift.py, warning box);
      only the case of differing batch sizes is refused explicitly, equal sizes run into shape errors or mixed-up axes;
    * gradient transforms on a broadcast tape with several measurements: "Parameter broadcasting doesn't yet support multiple
      measurements, hence such cases are not dealt with" (gradients/gradient_transform.py, axis-ordering note [2])."""
    if not spec.get("batch"):
        return None
    base = cfgname.split("@")[0]
    if "-bc" in base:
        return "documented: broadcast=True is not compatible with an already broadcast circuit"
    if len(spec["meas"]) > 1 and base.startswith(TRANSFORM_CFG_PREFIXES):
        return "documented: gradient transforms do not handle broadcasting with several measurements"
    return None


def run_config(ctx, judge, monitor, iface, cfgname, fn, Jref, bound, extra=None):
    """fn() -> Jacobian matrix; exceptions are classified into documented rejections and crashes."""
    why = documented_unsupported(judge.spec, cfgname)
    if why is not None:
        ctx.reject(f"{cfgname.split('@')[0]}: {why}")
        ctx.count("rejected_configs")
        return None
    try:
        J = fn()
    except Exception as e:  # noqa: BLE001
        kind = classify_exc(e)
        if kind == "reject":
            ctx.reject(f"{iface}:{cfgname}:{type(e).__name__}:{str(e)[:60]}")
            ctx.count("rejected_configs")
            return None
        import traceback
        tb = traceback.format_exc()[-900:]
        kinds = sorted({m["kind"] for m in judge.spec["meas"]})
        ctx.ev(monitor)
        ctx.violation(monitor, f"{iface}/{cfgname}: {type(e).__name__}: {str(e)[:300]} on an admitted circuit (measurements {kinds})",
                      case={"spec": judge.desc, "x": [float(v) for v in judge.x], "config": cfgname, "interface": iface, "tb": tb, **(extra or {})},
                      mech=judge.mech("crash", iface, cfgname, crash_mech(e, iface), e))
        return None
    return judge.compare(monitor, cfgname, J, Jref, bound, iface, extra)


def enum_sampler(indices, num_params, idx_rep, rng=None):
    d = np.zeros(num_params)
    for b, i in enumerate(indices):
        d[i] = 1.0 if (idx_rep >> b) & 1 else -1.0
    return d


class RecordingSampler:
    def __init__(self):
        self.dirs = []

    def __call__(self, indices, num_params, idx_rep, rng=None):
        d = np.zeros(num_params)
        d[list(indices)] = rng.choice([-1, 1], size=len(indices))
        self.dirs.append(d.copy())
        return d


def make_spec(C, rng, ci):
    profile = ["expval", "mixed", "expval", "batch", "mixed", "expval-pauli", "mixed"][ci % 7]
    labels = ["range", "perm", "str"][int(rng.integers(3))]
    if profile in ("expval", "expval-pauli"):
        return C.random_spec(rng, meas_kinds=("expval",), labels=labels,
                             obs_kinds=("pauli", "pauli", "sum") if profile == "expval-pauli" else ("pauli", "pauli", "sum", "herm", "proj"),
                             n_meas=int(rng.integers(1, 3)))
    if profile == "batch":
        return C.random_spec(rng, batch=True, n_in=int(rng.integers(1, 3)), labels=labels)
    return C.random_spec(rng, labels=labels)


ROLES = ("autograd", "jax", "torch")


def run(ctx):
    import warnings

    import pennylane as qp

    from pv.gen import c34_circ as C
    from pv.ref import c34_diff as D

    warnings.filterwarnings("ignore")
    role = ROLES[ctx.shard % 3]
    if role == "jax":
        import jax
        jax.config.update("jax_enable_x64", True)
    if role == "torch":
        import torch  # noqa: F401

    dev = qp.device("default.qubit")
    G = qp.gradients
    ncirc = ctx.n(150, 4800)
    base = ctx.shard * 100000
    min_circ = 4 if ctx.quick else 8   # progress guarantee when imports ate the soft budget (loaded machine)
    for ci in range(ncirc):
        if ci >= min_circ and not ctx.more():
            break
        idx = base + ci
        ctx.case_index = idx
        if ctx.only_case is not None and idx != ctx.only_case:
            continue
        rng = ctx.case_rng(idx)
        spec = make_spec(C, rng, ci)
        x = C.random_point(rng, spec["n_in"])
        desc = C.describe(spec)
        R = C.Ref(spec)
        nmeas = len(spec["meas"])
        n_in = spec["n_in"]
        Jx = None
        with ctx.guard("reference"):
            Jx, ex = D.jacobian(R.f, x)
        if Jx is None:
            continue
        if ex > 1e-9:
            ctx.inconclusive_case(f"reference self-check {ex:.2e}")
            continue
        judge = None
        tol = TOL * max(1.0, float(np.max(np.abs(Jx))))
        mode = "array" if rng.random() < 0.55 else "scalars"
        if mode == "scalars":
            k = int(rng.integers(1, n_in + 1))
            subset = sorted(int(v) for v in rng.choice(n_in, size=k, replace=False))
        else:
            subset = list(range(n_in))
        Jref = Jx[:, subset]
        flags_x = gate_flags_from_inputs(C, spec, subset)

        def probe(what="multiparam", flags_x=flags_x):
            """differential / structural probes used only to NAME the mechanism of an already detected failure"""
            if spec.get("batch") and what == "nocache":
                return False
            th = R.flat_gate_params(x)
            tr = [k for k, f in enumerate([f for fl in flags_x for f in fl]) if f]
            if what == "multiparam":
                tape = C.make_tape(qp, spec, th, trainable=tr)
                cfg = qp.devices.ExecutionConfig(gradient_method="adjoint", use_device_gradient=True)
                (t2,), _ = dev.preprocess_transforms(cfg)((tape,))
                return any(op.num_params > 1 for op in t2.operations)
            if what == "mcx":
                tape = C.make_tape(qp, spec, th, trainable=tr)
                cfg = qp.devices.ExecutionConfig(gradient_method="adjoint", use_device_gradient=True)
                (t2,), _ = dev.preprocess_transforms(cfg)((tape,))
                return any(len(op.data) != op.num_params for op in t2.operations)
            if what == "nocache":
                qn = qp.QNode(qf, dev, interface="autograd", diff_method="parameter-shift", max_diff=2, cache=False)
                J = jac_autograd(qp, qn, x, mode, subset, nmeas)
                return J.shape == Jref.shape and bool(np.all(np.abs(J - Jref) <= tol))
            return False

        judge = Judge(ctx, spec, x, desc, flags_x, probe)
        qf = C.make_qfunc(qp, spec, mode)
        extra = {"mode": mode, "subset": subset}
        f0 = R.f(x)
        fscale = max(1.0, float(np.max(np.abs(f0))))
        for m, o in zip(spec["meas"], R.obs):
            if o is not None:
                nrm = float(np.linalg.norm(o[0], 2))
                fscale = max(fscale, nrm * nrm if m["kind"] == "var" else nrm)
        delta = 5e-14 * fscale
        theta = None if spec.get("batch") else R.flat_gate_params(x)
        nth = 0 if theta is None else len(theta)

        # ================================================================ role autograd
        if role == "autograd":
            for name, kw in autograd_configs(ctx.quick):
                iface = "autograd" if rng.random() < 0.8 else "auto"
                def fn(kw=kw, iface=iface):
                    qn = qp.QNode(qf, dev, interface=iface, **kw)
                    return jac_autograd(qp, qn, x, mode, subset, nmeas)
                run_config(ctx, judge, "jac.exact", "autograd", name, fn, Jref, tol, extra)
            # finite-diff & spsa through the QNode; error bounds are propagated through the classical Jacobian
            if nth:
                with ctx.guard("reference.cjac"):
                    cj, _ = D.jacobian(R.flat_gate_params, x)   # (nth, n_in)
                    cjs = np.abs(cj[:, subset])
                    variants = FD_VARIANTS if not ctx.quick else [FD_VARIANTS[0], FD_VARIANTS[1 + (ci % 5)]]
                    for name, gk, (strategy, order, h) in variants:
                        bth = np.stack([D.fd_error_bound(R.f_theta, theta, np.eye(nth)[k], h, strategy, order, delta) for k in range(nth)], axis=-1)
                        def fn(gk=gk):
                            qn = qp.QNode(qf, dev, interface="autograd", diff_method="finite-diff", gradient_kwargs=dict(gk))
                            return jac_autograd(qp, qn, x, mode, subset, nmeas)
                        run_config(ctx, judge, "jac.fd", "autograd", name, fn, Jref, bth @ cjs + 1e-9, extra)
                    if nth <= 5:
                        hs = 1e-4
                        bdir = np.zeros((len(f0), nth))
                        for rep in range(2 ** nth):
                            d = enum_sampler(range(nth), nth, rep)
                            bdir += D.fd_error_bound(R.f_theta, theta, d, hs, "center", 2, delta)[:, None] / 2 ** nth
                        def fn():
                            qn = qp.QNode(qf, dev, interface="autograd", diff_method="spsa",
                                          gradient_kwargs={"h": hs, "num_directions": 2 ** nth, "sampler": enum_sampler})
                            return jac_autograd(qp, qn, x, mode, subset, nmeas)
                        run_config(ctx, judge, "jac.spsa", "autograd", "spsa-enum", fn, Jref, bdir @ cjs + 1e-9, extra)

        # ================================================================ role jax
        if role == "jax":
            for name, kw in JAX_CONFIGS:
                if rng.random() < 0.4:
                    continue
                fwd = rng.random() < 0.25
                def fn(kw=kw, fwd=fwd):
                    qn = qp.QNode(qf, dev, interface="jax", **kw)
                    return jac_jax(qp, qn, x, mode, subset, nmeas, jit=False, fwd=fwd)
                run_config(ctx, judge, "jac.exact", "jax" + ("-fwd" if fwd else ""), name, fn, Jref, tol, extra)
            if ci % 3 == 0 and ctx.more():
                name, kw = JIT_CONFIGS[(ci // 3 + ctx.shard // 3) % len(JIT_CONFIGS)]
                def fn(kw=kw):
                    qn = qp.QNode(qf, dev, interface="jax", **kw)
                    return jac_jax(qp, qn, x, mode, subset, nmeas, jit=True)
                run_config(ctx, judge, "jac.exact", "jax-jit", name, fn, Jref, tol, extra)

        # ================================================================ role torch
        if role == "torch":
            for name, kw in TORCH_CONFIGS:
                def fn(kw=kw):
                    qn = qp.QNode(qf, dev, interface="torch", **kw)
                    return jac_torch(qp, qn, x, mode, subset, nmeas)
                run_config(ctx, judge, "jac.exact", "torch", name, fn, Jref, tol, extra)

        # ================================================================ tape level (roles jax: exact transforms; torch: fd/spsa)
        if role == "autograd" or not nth or not ctx.more():
            continue
        Jth = None
        with ctx.guard("reference.theta"):
            Jth, eth = D.jacobian(R.f_theta, theta)
        if Jth is None:
            continue
        if eth > 1e-9:
            ctx.inconclusive_case(f"theta reference self-check {eth:.2e}")
            continue
        k = int(rng.integers(1, nth + 1))
        train = sorted(int(v) for v in rng.choice(nth, size=k, replace=False)) if rng.random() < 0.5 else list(range(nth))
        Jt = Jth[:, train]
        ttol = TOL * max(1.0, float(np.max(np.abs(Jt))))
        tj = Judge(ctx, spec, theta, desc, gate_flags_from_indices(spec, set(train)))
        textra = {"trainable": train}

        def via(transform, **kws):
            def fn():
                tape = C.make_tape(qp, spec, theta, trainable=train)
                et = transform.expand_transform
                if et is not None:   # the transform differentiates the *expanded* tape: comparable only if nothing was expanded
                    ekw = {k: v for k, v in kws.items() if k not in ("sampler",)}
                    (xt,), _ = et(tape, **ekw)
                    if [o.name for o in xt.operations] != [o.name for o in tape.operations] or len(xt.trainable_params) != len(train):
                        raise Incomparable("transform expands the tape: Jacobian is w.r.t. the expanded tape's parameters")
                tapes, post = transform(tape, **kws)
                res = qp.execute(tapes, dev, diff_method=None) if len(tapes) else ()
                return tape_jac_to_matrix(post(res), nmeas, len(train))
            return fn

        if role == "jax":
            tcfgs = [
                ("param_shift", via(G.param_shift)),
                ("param_shift-bc", via(G.param_shift, broadcast=True)),
                ("hadamard_grad-standard", via(G.hadamard_grad, mode="standard", aux_wire="aux")),
                ("hadamard_grad-reversed", via(G.hadamard_grad, mode="reversed", aux_wire="aux")),
                ("hadamard_grad-direct", via(G.hadamard_grad, mode="direct")),
                ("hadamard_grad-revdirect", via(G.hadamard_grad, mode="reversed-direct")),
                ("hadamard_grad-auto", via(G.hadamard_grad, mode="auto")),
                ("hadamard_grad-auto-aux", via(G.hadamard_grad, mode="auto", aux_wire="aux")),
            ]
            for name, fn in tcfgs:
                run_config(ctx, tj, "jac.tape", "tape", name, fn, Jt, ttol, textra)
            if len(train) > 1:   # argnum subset of the trainable parameters: the other columns must be zero
                an = sorted(int(v) for v in rng.choice(len(train), size=int(rng.integers(1, len(train))), replace=False))
                Jan = np.zeros_like(Jt)
                Jan[:, an] = Jt[:, an]
                run_config(ctx, tj, "jac.tape", "tape", "param_shift-argnum", via(G.param_shift, argnum=an), Jan, ttol, {**textra, "argnum": an})
                run_config(ctx, tj, "jac.tape", "tape", "hadamard_grad-argnum", via(G.hadamard_grad, argnum=an, mode="standard", aux_wire="aux"),
                           Jan, ttol, {**textra, "argnum": an})
            # device-level adjoint entry points, driven inside their documented domain (expectation values), after the
            # device's own preprocessing for the adjoint method
            if all(m["kind"] == "expval" for m in spec["meas"]):
                cfg = qp.devices.ExecutionConfig(gradient_method="adjoint", use_device_gradient=True)

                def prep():
                    tape = C.make_tape(qp, spec, theta, trainable=train)
                    (t2,), _ = dev.preprocess_transforms(cfg)((tape,))
                    if len(t2.trainable_params) != len(train):  # preprocessing decomposed a gate: parameters no longer correspond
                        raise NotImplementedError("adjoint preprocessing changed the number of trainable parameters")
                    return t2

                def adj():
                    from pennylane.devices.qubit import adjoint_jacobian
                    return tape_jac_to_matrix(adjoint_jacobian(prep()), nmeas, len(train))

                def devder():
                    return tape_jac_to_matrix(dev.compute_derivatives(prep(), cfg), nmeas, len(train))

                def devvjp():
                    t2 = prep()
                    rows = []
                    m = Jt.shape[0]
                    for r in range(m):
                        cot = [0.0] * m
                        cot[r] = 1.0
                        cot = tuple(cot) if nmeas > 1 else cot[0]
                        rows.append(np.asarray(dev.compute_vjp(t2, cot, cfg), dtype=float).reshape(-1))
                    return np.stack(rows, axis=0)

                run_config(ctx, tj, "jac.tape", "tape", "adjoint_jacobian", adj, Jt, ttol, textra)
                run_config(ctx, tj, "jac.tape", "tape", "compute_derivatives", devder, Jt, ttol, textra)
                run_config(ctx, tj, "jac.tape", "tape", "compute_vjp", devvjp, Jt, ttol, textra)

        if role == "torch":
            variants = FD_VARIANTS if not ctx.quick else [FD_VARIANTS[(ci + 2) % 6], FD_VARIANTS[(ci + 5) % 6]]
            for name, gk, (strategy, order, h) in variants:
                bth = np.stack([D.fd_error_bound(R.f_theta, theta, np.eye(nth)[k], h, strategy, order, delta) for k in train], axis=-1)
                run_config(ctx, tj, "jac.fd", "tape", "finite_diff-" + name[3:], via(G.finite_diff, **gk), Jt, bth + 1e-9, textra)
            if len(train) <= 5:
                nt = len(train)
                hs = 1e-3
                bd_acc = np.zeros((len(f0), nt))
                for rep in range(2 ** nt):
                    d = np.zeros(nth)
                    d[train] = enum_sampler(range(nt), nt, rep)
                    bd_acc += D.fd_error_bound(R.f_theta, theta, d, hs, "center", 2, delta)[:, None] / 2 ** nt
                run_config(ctx, tj, "jac.spsa", "tape", "spsa_grad-enum",
                           via(G.spsa_grad, h=hs, num_directions=2 ** nt, sampler=enum_sampler), Jt, bd_acc + 1e-9, textra)
                # documented per-direction estimator with the default (Rademacher) distribution, directions recorded
                rec = RecordingSampler()
                K = 3
                sseed = int(rng.integers(1 << 30))

                def fn():
                    rec.dirs.clear()
                    tape = C.make_tape(qp, spec, theta, trainable=train)
                    tapes, post = G.spsa_grad(tape, h=hs, num_directions=K, sampler=rec, sampler_rng=sseed)
                    J = tape_jac_to_matrix(post(qp.execute(tapes, dev, diff_method=None)), nmeas, nt)
                    if len(rec.dirs) != K:
                        raise NotImplementedError("sampler not called once per direction")
                    return J

                def recorded():
                    J = fn()
                    exp = np.zeros_like(Jt)
                    bnd = np.zeros_like(Jt)
                    for dsub in rec.dirs:
                        d = np.zeros(nth)
                        d[train] = dsub
                        exp += np.outer(Jth @ d, dsub) / K
                        bnd += D.fd_error_bound(R.f_theta, theta, d, hs, "center", 2, delta)[:, None] / K
                    # return the deviation from the documented estimator so that the generic comparison applies
                    recorded.bound = bnd
                    return J - exp
                try:
                    dev_from_doc = recorded()
                    tj.compare("jac.spsa", "spsa_grad-recorded", dev_from_doc + Jt * 0, np.zeros_like(Jt), recorded.bound + 1e-9, "tape", textra)
                except Exception as e:  # noqa: BLE001
                    if classify_exc(e) == "reject":
                        ctx.reject(f"tape:spsa_grad-recorded:{type(e).__name__}:{str(e)[:60]}")
                    else:
                        ctx.violation("jac.spsa", f"tape/spsa_grad-recorded: {type(e).__name__}: {str(e)[:300]}",
                                      case={"spec": desc, "theta": theta.tolist()}, mech=crash_mech(e, "tape"))
    ctx.note("autograd_arraybox_leaks_unboxed", LEAKS[0])
