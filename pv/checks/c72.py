"""C72 — QAOA cost Hamiltonians encode their objectives.

Deciding monitors (post-conditions on the real ``qp.qaoa`` builders, exhaustive over ALL bitstrings of every graph):

* ``cost.diag``      diagonal of the returned cost Hamiltonian (read from its Pauli words, evaluated by the harness on every
                     bitstring) vs. the documented objective written in plain Python on bits (cut edges, violated edges,
                     selected vertices, flow sums, log-weights).  Exact where the docstring gives the value, "equal up to a
                     constant shift" where the docstring formula only fixes the objective (unconstrained MIS / MVC / clique,
                     1- and 2-colouring edge drivers).
* ``cost.optimum``   the set of minimum-energy bitstrings equals the brute-force set of optimal solutions (maximum independent
                     sets, minimum vertex covers, maximum cliques, maximum cuts); constrained forms: among feasible bitstrings.
* ``mixer.matrix``   every mixer (x / xy / bit-flip / cycle, stand-alone and as returned by the cost functions) equals the
                     documented operator, built by the harness from bit semantics (flip / swap / projector-guarded flip) or,
                     for the cycle mixer, from the documented Pauli sum with the harness' own Pauli action.
* ``mixer.preserve`` constrained mixers map feasible bitstrings to feasible bitstrings (independent sets, covers, cliques,
                     zero-net-flow edge sets).
* ``cycle.mapping``  ``edges_to_wires`` / ``wires_to_edges`` / the mapping returned by ``max_weight_cycle`` are mutually
                     inverse and name the graph's edges.
"""
import itertools

import numpy as np

from pv.ctx import fingerprint
from pv.ref.c60_limit import violation as _violation

META = {
    "id": "C72",
    "level": "exploration",
    "technique": "runtime post-conditions on qp.qaoa builders: Hamiltonian diagonal enumerated over all bitstrings vs. the documented "
                 "objective evaluated in plain Python; mixers vs. bit-semantics matrices; brute-force optimal solution sets",
    "level_text": "Random small graphs (empty/complete/path/cycle/star/random/disconnected, weighted, odd node labels, networkx and "
                  "rustworkx, directed graphs for the cycle problem) are pushed through every qaoa cost/mixer builder; for each graph "
                  "ALL 2^n bitstrings are compared with the objective written from the docstring; held on the graphs observed "
                  "(exhaustive per graph, sampling over graphs).",
    "level_note": "The Hamiltonian is read through its pauli_rep (PennyLane's Pauli bookkeeping, not qaoa code) and evaluated by the "
                  "harness; on small cases this reading is cross-checked against qp.matrix. The literal coefficient '3' in the "
                  "unconstrained MIS/MVC/clique docstring formulas is NOT demanded (the implementation uses 3/4 per Pauli bracket = "
                  "penalty 3 per violated edge on bits; recorded as note 'doc_formula_scale'); what is demanded there is the objective "
                  "3*violations -/+ 2*|x| up to a constant and the optimal-solution sets.",
    "shards": {"quick": 2, "thorough": 16},
    "budget_s": {"quick": 150, "thorough": 600},
    "min_evals": {"quick": 1500, "thorough": 40000},
    "deciding": ["cost.diag", "cost.optimum", "mixer.matrix", "mixer.preserve", "cycle.mapping"],
    "rule": "case = (graph backend, node labels, edge set, weights, builder, options); one evaluation = one builder output compared on all "
            "2^n bitstrings; distinct = distinct (backend, labels, edges, builder, option); non-trivial = graph with >= 2 nodes and >= 1 edge",
    "assumptions": ["objective functions transcribed from the qaoa docstrings are the intended ones",
                    "pauli_rep of a LinearCombination of Pauli products is faithful (cross-checked against qp.matrix on small cases)"],
}

TOL = 1e-9


# ----------------------------------------------------------------------------------------------- harness-side Pauli evaluation
def bits_table(n):
    """(2^n, n) array of bits, first column = most significant."""
    k = np.arange(2**n)
    return ((k[:, None] >> (n - 1 - np.arange(n))[None, :]) & 1).astype(np.int64)


def sentence_terms(H, order):
    """[(coeff, {pos: letter})] read from the operator's Pauli representation; None if it has none."""
    ps = H.pauli_rep
    if ps is None:
        return None
    pos = {w: i for i, w in enumerate(order)}
    out = []
    for pw, c in ps.items():
        word = {}
        for w, letter in pw.items():
            if letter == "I":
                continue
            if w not in pos:
                raise KeyError(w)
            word[pos[w]] = letter
        out.append((complex(c), word))
    return out


def diag_of(terms, n):
    """Diagonal over all bitstrings; returns (diag, offdiag_letters_seen)."""
    B = bits_table(n)
    d = np.zeros(2**n, dtype=complex)
    bad = False
    for c, word in terms:
        if any(l != "Z" for l in word.values()):
            bad = True
            continue
        v = np.ones(2**n)
        for p in word:
            v = v * (1 - 2 * B[:, p])
        d = d + c * v
    return d, bad


def dense_of(terms, n):
    """Dense matrix from Pauli terms through the action on basis states (no kron)."""
    dim = 2**n
    B = bits_table(n)
    M = np.zeros((dim, dim), dtype=complex)
    k = np.arange(dim)
    for c, word in terms:
        flip = 0
        ph = np.ones(dim, dtype=complex)
        for p, l in word.items():
            bit = B[:, p]
            if l == "X":
                flip |= 1 << (n - 1 - p)
            elif l == "Y":
                flip |= 1 << (n - 1 - p)
                ph = ph * (1j * (1 - 2 * bit))  # Y|0> = i|1>, Y|1> = -i|0>
            elif l == "Z":
                ph = ph * (1 - 2 * bit)
        np.add.at(M, (k ^ flip, k), c * ph)
    return M


# ----------------------------------------------------------------------------------------------- graph generation
LABEL_POOL_STR = ["a", "b", "c", "q0", "q1", "aux", "x", "y", "z", "w", "anc", "t"]


def gen_labels(rng, n):
    mode = ["range", "range", "perm", "noncontig", "str", "mixed"][int(rng.integers(6))]
    if mode == "range":
        return list(range(n)), mode
    if mode == "perm":
        return [int(x) for x in rng.permutation(n)], mode
    if mode == "noncontig":
        return [int(x) for x in rng.choice(np.arange(0, 4 * n + 3), size=n, replace=False)], mode
    if mode == "str":
        return [str(x) for x in rng.choice(LABEL_POOL_STR, size=n, replace=False)], mode
    pool = [0, 1, 2, 3, 5, 7, "a", "b", "q", "aux", "t", "w"]
    idx = rng.choice(len(pool), size=n, replace=False)
    return [pool[int(i)] for i in idx], mode


def gen_edges(rng, n):
    """Undirected simple edge set on positions 0..n-1; returns (edges, shape tag)."""
    allp = list(itertools.combinations(range(n), 2))
    shape = ["empty", "complete", "path", "cycle", "star", "random", "random", "random", "disconnected", "sparse"][int(rng.integers(10))]
    if n < 2 or shape == "empty":
        return [], "empty"
    if shape == "complete":
        e = allp
    elif shape == "path":
        e = [(i, i + 1) for i in range(n - 1)]
    elif shape == "cycle":
        e = [(i, i + 1) for i in range(n - 1)] + ([(0, n - 1)] if n > 2 else [])
    elif shape == "star":
        c = int(rng.integers(n))
        e = [tuple(sorted((c, j))) for j in range(n) if j != c]
    elif shape == "disconnected":
        h = max(1, n // 2)
        e = [p for p in allp if (p[0] < h) == (p[1] < h) and rng.random() < 0.7]
    elif shape == "sparse":
        e = [p for p in allp if rng.random() < 0.25]
    else:
        pr = rng.uniform(0.3, 0.8)
        e = [p for p in allp if rng.random() < pr]
    e = sorted(set(e))
    # random presentation order and orientation (the builders must not care)
    e = [e[int(i)] for i in rng.permutation(len(e))] if e else e
    e = [(a, b) if rng.random() < 0.5 else (b, a) for a, b in e]
    return e, shape


def build_undirected(rng, labels, edges, backend, weighted, holes):
    """Returns (graph, labels_kept, edges_kept_as_positions_in_labels_kept)."""
    import networkx as nx
    import rustworkx as rx

    n = len(labels)
    if backend == "nx":
        g = nx.Graph()
        g.add_nodes_from(labels)
        for a, b in edges:
            if weighted:
                g.add_edge(labels[a], labels[b], weight=float(rng.uniform(0.2, 3.0)))
            else:
                g.add_edge(labels[a], labels[b])
        return g, list(labels), list(edges)
    g = rx.PyGraph()
    if holes:
        # add an extra node in a random position and remove it again: node indices become non-contiguous
        hpos = int(rng.integers(0, n))  # never the last position, so that silent mislabelling is possible
        payloads = list(labels[:hpos]) + ["__hole__"] + list(labels[hpos:])
        idxs = g.add_nodes_from(payloads)
        keep = [i for i in idxs if payloads[i] != "__hole__"]
        for a, b in edges:
            g.add_edge(keep[a], keep[b], float(rng.uniform(0.2, 3.0)) if weighted else "")
        g.remove_node(hpos)
        return g, list(labels), list(edges)
    g.add_nodes_from(list(labels))
    for a, b in edges:
        g.add_edge(a, b, float(rng.uniform(0.2, 3.0)) if weighted else "")
    return g, list(labels), list(edges)


# ----------------------------------------------------------------------------------------------- objectives on bits
def adj_sets(n, edges):
    nb = [set() for _ in range(n)]
    for a, b in edges:
        nb[a].add(b)
        nb[b].add(a)
    return nb


def both_one(B, edges):
    return sum((B[:, a] * B[:, b] for a, b in edges), np.zeros(len(B), dtype=np.int64))


def both_zero(B, edges):
    return sum(((1 - B[:, a]) * (1 - B[:, b]) for a, b in edges), np.zeros(len(B), dtype=np.int64))


def cut_count(B, edges):
    return sum(((B[:, a] ^ B[:, b]) for a, b in edges), np.zeros(len(B), dtype=np.int64))


def complement_edges(n, edges):
    s = {tuple(sorted(e)) for e in edges}
    return [p for p in itertools.combinations(range(n), 2) if p not in s]


# ----------------------------------------------------------------------------------------------- comparison helpers
class Case:
    def __init__(self, ctx, info):
        self.ctx = ctx
        self.info = info

    def viol(self, mon, fn, msg, mech=None, observed=None, expected=None):
        c = dict(self.info)
        c["builder"] = fn
        hostile = self.info.get("hostile")
        if hostile == "rx-holes":      # rustworkx graph whose node indices are not 0..n-1 (a node was removed)
            mon, mech = "rx.indexing", "rx-index-holes"
        elif hostile == "rx-payload":  # rustworkx digraph whose node payloads differ from the node indices
            mon, mech = "rx.indexing", "rx-payload-index:cycle"
        _violation(self.ctx, mon, f"{fn}: {msg}", case=c, mech=mech or f"{mon}:{fn}", observed=observed, expected=expected)


def get_terms(cs, fn, H, order, mon):
    try:
        t = sentence_terms(H, order)
    except KeyError as e:
        cs.viol(mon, fn, f"Hamiltonian acts on wire {e} which is not a node/edge wire of the graph {order}", mech=f"wires:{fn}")
        return None
    if t is None:
        cs.ctx.inconclusive_case(f"{fn}: no pauli_rep on returned operator {type(H).__name__}")
        return None
    return t


def check_diag(cs, fn, H, order, expected, mode="exact", mon="cost.diag"):
    """mode 'exact' | 'shift' (equal up to a constant) | 'constant' (diag is constant)."""
    ctx = cs.ctx
    n = len(order)
    t = get_terms(cs, fn, H, order, mon)
    if t is None:
        return None
    d, bad = diag_of(t, n)
    ctx.ev(mon)
    ctx.count("bitstrings", 2**n)
    if bad:
        cs.viol(mon, fn, "cost Hamiltonian has non-diagonal (X/Y) terms", mech=f"offdiag:{fn}")
        return None
    if np.max(np.abs(d.imag)) > TOL:
        cs.viol(mon, fn, "cost Hamiltonian has complex diagonal", mech=f"complex:{fn}")
        return None
    d = d.real
    exp = np.asarray(expected, dtype=float)
    diff = d - exp
    if mode in ("shift", "constant"):
        diff = diff - diff[0]
        if mode == "constant":
            diff = d - d[0]
    scale = max(1.0, float(np.max(np.abs(exp))))
    if np.max(np.abs(diff)) > TOL * scale:
        k = int(np.argmax(np.abs(diff)))
        bitstr = format(k, f"0{n}b") if n else ""
        cs.viol(mon, fn, f"diagonal differs from documented objective ({mode}) at bitstring {bitstr} (wires {order}): "
                         f"H={d[k]:.10g} objective={exp[k]:.10g}" + (f" offset(000..)={d[0] - exp[0]:.10g}" if mode == "shift" else ""),
                observed=d[:64], expected=exp[:64])
        return None
    return d


def check_optimum(cs, fn, d, feasible_mask, optimal_mask):
    """argmin of d over feasible == optimal set."""
    ctx = cs.ctx
    ctx.ev("cost.optimum")
    idx = np.nonzero(feasible_mask)[0]
    if len(idx) == 0:
        return
    m = d[idx].min()
    amin = set(int(i) for i in idx[np.abs(d[idx] - m) <= 1e-9 * max(1.0, abs(m))])
    opt = set(int(i) for i in np.nonzero(optimal_mask)[0])
    if amin != opt:
        n = int(np.log2(len(d)))
        cs.viol("cost.optimum", fn, f"minimum-energy bitstrings {sorted(format(i, f'0{n}b') for i in amin)[:6]} != optimal solutions "
                                   f"{sorted(format(i, f'0{n}b') for i in opt)[:6]}", mech=f"optimum:{fn}")


def check_matrix(cs, fn, H, order, Mref, mon="mixer.matrix"):
    ctx = cs.ctx
    n = len(order)
    t = get_terms(cs, fn, H, order, mon)
    if t is None:
        return None
    M = dense_of(t, n)
    ctx.ev(mon)
    err = float(np.max(np.abs(M - Mref))) if M.size else 0.0
    if err > TOL:
        k = np.unravel_index(int(np.argmax(np.abs(M - Mref))), M.shape)
        cs.viol(mon, fn, f"operator differs from documented mixer: entry <{format(k[0], f'0{n}b')}|M|{format(k[1], f'0{n}b')}> = "
                         f"{M[k]:.6g} expected {Mref[k]:.6g} (wires {order})", observed=M[:8, :8], expected=Mref[:8, :8])
        return None
    return M


def check_preserve(cs, fn, M, feasible_mask):
    ctx = cs.ctx
    ctx.ev("mixer.preserve")
    f = np.asarray(feasible_mask, dtype=bool)
    leak = np.abs(M[np.ix_(~f, f)])
    if leak.size and leak.max() > TOL:
        cs.viol("mixer.preserve", fn, "mixer maps a feasible bitstring outside the feasible set", mech=f"preserve:{fn}")


def flip_mixer_ref(n, nb=None, b=None):
    dim = 2**n
    B = bits_table(n)
    M = np.zeros((dim, dim), dtype=complex)
    k = np.arange(dim)
    for v in range(n):
        ok = np.ones(dim, dtype=bool)
        if nb is not None:
            for w in nb[v]:
                ok &= B[:, w] == b
        src = k[ok]
        np.add.at(M, (src ^ (1 << (n - 1 - v)), src), 1.0)
    return M


def xy_mixer_ref(n, edges):
    dim = 2**n
    B = bits_table(n)
    M = np.zeros((dim, dim), dtype=complex)
    k = np.arange(dim)
    for a, b in edges:
        ok = B[:, a] != B[:, b]
        src = k[ok]
        np.add.at(M, (src ^ ((1 << (n - 1 - a)) | (1 << (n - 1 - b))), src), 1.0)
    return M


def selfcheck(cs, qp, fn, H, order):
    """pauli_rep reading vs qp.matrix on small registers (harness self-test; disagreement = inconclusive case)."""
    n = len(order)
    if n == 0 or n > 6 or not len(H.wires):
        return
    t = sentence_terms(H, order)
    if t is None:
        return
    M = dense_of(t, n)
    try:
        Q = np.asarray(qp.matrix(H, wire_order=order))
    except Exception as e:  # noqa: BLE001
        cs.ctx.inconclusive_case(f"selfcheck {fn}: qp.matrix raised {type(e).__name__}: {e}")
        return
    cs.ctx.ev("selfcheck.pauli_eval")
    if Q.shape != M.shape or np.max(np.abs(Q - M)) > 1e-9:
        cs.ctx.inconclusive_case(f"selfcheck {fn}: pauli_rep evaluation and qp.matrix disagree")


def call(cs, fn, f, *a, mon="cost.diag", **k):
    """Run a builder; exceptions on admitted inputs are violation candidates."""
    try:
        return f(*a, **k)
    except Exception as e:  # noqa: BLE001
        cs.ctx.ev(mon)
        cs.viol(mon, fn, f"raised {type(e).__name__}: {e} on a valid graph", mech=f"raises:{fn}:{type(e).__name__}")
        return None


# ----------------------------------------------------------------------------------------------- undirected problems
REWARD_SETS = [[], ["00"], ["11"], ["01", "10"], ["00", "11"], ["00", "01", "10"], ["11", "01", "10"], ["00", "01", "10", "11"]]


def undirected_case(ctx, qp, rng, gi):
    qaoa = qp.qaoa
    nmax = 6 if ctx.quick else 7
    n = int(rng.integers(1, nmax + 1))
    labels, lmode = gen_labels(rng, n)
    edges, shape = gen_edges(rng, n)
    backend = "nx" if rng.random() < 0.5 else "rx"
    weighted = rng.random() < 0.3
    holes = backend == "rx" and rng.random() < 0.08
    g, labels, edges = build_undirected(rng, labels, edges, backend, weighted, holes)
    E = [tuple(sorted(e)) for e in edges]
    info = {"backend": backend, "labels": labels, "edges": [[labels[a], labels[b]] for a, b in edges], "shape": shape,
            "label_mode": lmode, "weighted": weighted}
    if holes:
        info["hostile"] = "rx-holes"
    cs = Case(ctx, info)
    nontriv = n >= 2 and len(E) >= 1
    base_fp = (backend, tuple(map(repr, labels)), tuple(sorted(E)), holes)
    B = bits_table(n)
    ones = B.sum(axis=1)
    nb = adj_sets(n, E)
    Ebar = complement_edges(n, E)
    nbbar = adj_sets(n, Ebar)
    order = list(labels)

    def reg(fn, opt=None):
        ctx.case(fingerprint(base_fp, fn, opt), nontrivial=nontriv, cls=fn,
                 sample={**info, "builder": fn, "option": opt} if rng.random() < 0.05 else None)

    do_self = rng.random() < 0.25

    # ---- bit_driver
    for b in (0, 1):
        fn = "bit_driver"
        reg(fn, b)
        H = call(cs, fn, qaoa.bit_driver, labels, b)
        if H is not None:
            check_diag(cs, fn, H, order, ((-1) ** (b + 1)) * (n - 2 * ones), "exact")
    # ---- edge_driver, all admissible reward sets
    for rw in REWARD_SETS:
        fn = "edge_driver"
        rws = [rw[int(i)] for i in rng.permutation(len(rw))] if rw else []
        reg(fn, tuple(sorted(rw)))
        H = call(cs, fn, qaoa.edge_driver, g, rws)
        if H is None:
            continue
        k = len(rw)
        if k in (0, 4):
            check_diag(cs, fn + "/all", H, order, np.zeros(2**n), "constant")
            continue
        # per edge: colourings in reward get e, the others e+1 (documented: "absolute difference ... is always 1", reward lower)
        e_r = -(4 - k) / 4.0
        tot = np.zeros(2**n)
        for a, b in E:
            col = B[:, a] * 2 + B[:, b]  # 0:"00" 1:"01" 2:"10" 3:"11"
            inr = np.zeros(2**n, dtype=bool)
            for s in rw:
                inr |= col == int(s, 2)
            tot = tot + np.where(inr, e_r, e_r + 1.0)
        # three rewarded colourings: the docstring gives the Hamiltonian (exact values -1/4, 3/4); otherwise only differences
        check_diag(cs, fn + "/" + "".join(sorted(rw)), H, order, tot, "exact" if k == 3 else "shift")
        if do_self:
            selfcheck(cs, qp, fn, H, order)
    # ---- maxcut
    fn = "maxcut"
    reg(fn)
    r = call(cs, fn, qaoa.maxcut, g)
    if r is not None:
        H, M = r
        cuts = cut_count(B, E)
        d = check_diag(cs, fn, H, order, -cuts.astype(float), "exact")
        if d is not None:
            check_optimum(cs, fn, d, np.ones(2**n, dtype=bool), cuts == cuts.max())
        check_matrix(cs, fn + ".mixer", M, order, flip_mixer_ref(n))
        if do_self:
            selfcheck(cs, qp, fn, H, order)
    # ---- MIS / MVC / max clique
    viol_is = both_one(B, E)          # edges with both endpoints selected
    uncov = both_zero(B, E)           # edges with no endpoint selected
    viol_cl = both_one(B, Ebar)       # selected non-adjacent pairs
    problems = [
        # name, builder, feasible mask, size sign (+1 maximise |x|), unconstrained objective, literal docstring objective, mixer graph, mixer b
        ("max_independent_set", qaoa.max_independent_set, viol_is == 0, +1, 3.0 * viol_is - 2.0 * ones, 12.0 * viol_is - 2.0 * ones, nb, 0),
        ("min_vertex_cover", qaoa.min_vertex_cover, uncov == 0, -1, 3.0 * uncov + 2.0 * ones, 12.0 * uncov + 2.0 * ones, nb, 1),
        ("max_clique", qaoa.max_clique, viol_cl == 0, +1, 3.0 * viol_cl - 2.0 * ones, 12.0 * viol_cl - 2.0 * ones, nbbar, 0),
    ]
    for name, f, feas, sgn, obj_u, obj_doc, mnb, mb in problems:
        size_f = ones[feas]
        best = size_f.max() if sgn > 0 else size_f.min()
        optimal = feas & (ones == best)
        for constrained in (True, False):
            fn = f"{name}/{'constrained' if constrained else 'unconstrained'}"
            reg(name, constrained)
            r = call(cs, fn, f, g, constrained=constrained)
            if r is None:
                continue
            H, M = r
            if constrained:
                # documented: H = sum Z (MIS, clique), -sum Z (MVC)
                d = check_diag(cs, fn, H, order, (1.0 if sgn > 0 else -1.0) * (n - 2.0 * ones), "exact")
                if d is not None:
                    check_optimum(cs, fn, d, feas, optimal)
                Mm = check_matrix(cs, fn + ".mixer", M, order, flip_mixer_ref(n, mnb, mb))
                if Mm is not None:
                    check_preserve(cs, fn + ".mixer", Mm, feas)
            else:
                d = check_diag(cs, fn, H, order, obj_u, "shift")
                if d is not None:
                    check_optimum(cs, fn, d, np.ones(2**n, dtype=bool), optimal)
                    if E and name != "max_clique" or (name == "max_clique" and Ebar):
                        dd = (d - d[0]) - (obj_doc - obj_doc[0])
                        if np.max(np.abs(dd)) > 1e-9:
                            ctx.note_add("doc_formula_scale", f"{name}(constrained=False): docstring writes 3*sum_E(ZZ -/+ Z -/+ Z); "
                                                              "implementation = 0.75*sum_E(...) (3*edge_driver)")
                check_matrix(cs, fn + ".mixer", M, order, flip_mixer_ref(n))
            if do_self:
                selfcheck(cs, qp, fn, H, order)
    # ---- stand-alone mixers
    fn = "x_mixer"
    reg(fn)
    M = call(cs, fn, qaoa.x_mixer, labels, mon="mixer.matrix")
    if M is not None:
        check_matrix(cs, fn, M, order, flip_mixer_ref(n))
    fn = "xy_mixer"
    reg(fn)
    M = call(cs, fn, qaoa.xy_mixer, g, mon="mixer.matrix")
    if M is not None:
        Mm = check_matrix(cs, fn, M, order, xy_mixer_ref(n, E))
        if Mm is not None and n:
            # XY mixers preserve the Hamming weight
            ctx.ev("mixer.preserve")
            w = ones
            if np.max(np.abs(Mm[w[:, None] != w[None, :]])) > TOL:
                cs.viol("mixer.preserve", fn, "xy mixer changes the Hamming weight", mech="preserve:xy_mixer")
        if do_self:
            selfcheck(cs, qp, fn, M, order)
    for b in (0, 1):
        fn = "bit_flip_mixer"
        reg(fn, b)
        M = call(cs, fn, qaoa.bit_flip_mixer, g, b, mon="mixer.matrix")
        if M is not None:
            check_matrix(cs, f"{fn}/b={b}", M, order, flip_mixer_ref(n, nb, b))
            if do_self:
                selfcheck(cs, qp, fn, M, order)


# ----------------------------------------------------------------------------------------------- documented rejections
def invalid_inputs(ctx, qp):
    import networkx as nx

    qaoa = qp.qaoa
    g = nx.Graph([(0, 1), (1, 2)])
    bad = [
        ("bit_driver b=2", lambda: qaoa.bit_driver(range(3), 2)),
        ("edge_driver ['01']", lambda: qaoa.edge_driver(g, ["01"])),
        ("edge_driver ['10','11']", lambda: qaoa.edge_driver(g, ["10", "11"])),
        ("edge_driver ['2']", lambda: qaoa.edge_driver(g, ["2"])),
        ("edge_driver non-graph", lambda: qaoa.edge_driver([(0, 1)], ["11"])),
        ("maxcut non-graph", lambda: qaoa.maxcut([(0, 1)])),
        ("max_independent_set non-graph", lambda: qaoa.max_independent_set([(0, 1)])),
        ("min_vertex_cover non-graph", lambda: qaoa.min_vertex_cover([(0, 1)])),
        ("max_clique non-graph", lambda: qaoa.max_clique([(0, 1)])),
        ("bit_flip_mixer b=2", lambda: qaoa.bit_flip_mixer(g, 2)),
        ("xy_mixer non-graph", lambda: qaoa.xy_mixer([(0, 1)])),
        ("cycle_mixer undirected", lambda: qaoa.cycle_mixer(g)),
        ("max_weight_cycle non-graph", lambda: qaoa.max_weight_cycle([(0, 1)])),
    ]
    for name, f in bad:
        ctx.ev("invalid.raises")
        try:
            f()
        except ValueError:
            ctx.reject("ValueError:" + name.split()[0])
            continue
        except Exception as e:  # noqa: BLE001
            _violation(ctx, "invalid.raises", f"{name}: raised {type(e).__name__} instead of the documented ValueError: {e}",
                          case={"input": name}, mech=f"invalid:{name.split()[0]}")
            continue
        _violation(ctx, "invalid.raises", f"{name}: invalid input accepted silently", case={"input": name}, mech=f"invalid:{name.split()[0]}")


# ----------------------------------------------------------------------------------------------- directed / cycle problem
def directed_case(ctx, qp, rng, gi):
    import networkx as nx
    import rustworkx as rx

    qaoa = qp.qaoa
    mmax = 8 if ctx.quick else 10
    n = int(rng.integers(2, 5))
    allp = [(a, b) for a in range(n) for b in range(n) if a != b]
    shape = ["complete", "random", "random", "dicycle", "sparse"][int(rng.integers(5))]
    if shape == "complete":
        e = list(allp)
    elif shape == "dicycle":
        e = [(i, (i + 1) % n) for i in range(n)] + [p for p in allp if rng.random() < 0.3]
    elif shape == "sparse":
        e = [p for p in allp if rng.random() < 0.3]
    else:
        pr = rng.uniform(0.4, 0.9)
        e = [p for p in allp if rng.random() < pr]
    e = sorted(set(e))
    if len(e) > mmax:
        keep = sorted(rng.choice(len(e), size=mmax, replace=False).tolist())
        e = [e[i] for i in keep]
    if not e:
        e = [(0, 1)]
    m = len(e)
    weights = {p: float(rng.choice([rng.uniform(0.2, 3.0), 1.0, 0.5, 2.0])) for p in e}
    backend = "nx" if rng.random() < 0.5 else "rx"
    hostile = None
    if backend == "nx":
        labels, lmode = gen_labels(rng, n)
        g = nx.DiGraph()
        g.add_nodes_from(labels)
        pres = [e[int(i)] for i in rng.permutation(m)]
        for a, b in pres:
            g.add_edge(labels[a], labels[b], weight=weights[(a, b)])
        # documented wire order: position in graph.edges
        edge_order = [(labels.index(u), labels.index(v)) for u, v in g.edges]
        named = [(labels[a], labels[b]) for a, b in edge_order]
    else:
        lmode = "range"
        labels = list(range(n))
        if rng.random() < 0.1:
            hostile = "rx-payload"
            labels, lmode = ([str(x) for x in rng.choice(LABEL_POOL_STR, size=n, replace=False)], "str") if rng.random() < 0.5 \
                else ([int(x) for x in np.roll(np.arange(n), 1 + int(rng.integers(n - 1)) if n > 1 else 0)], "perm")
        g = rx.PyDiGraph()
        g.add_nodes_from(labels)
        pres = [e[int(i)] for i in rng.permutation(m)]
        for a, b in pres:
            g.add_edge(a, b, {"weight": weights[(a, b)]})
        # documented wire order: position in sorted(edge_list()) (node indices)
        edge_order = sorted(e)
        named = list(edge_order)  # documented examples: payload == index
    info = {"backend": backend + "-di", "labels": labels, "edges": [[labels[a], labels[b], weights[(a, b)]] for a, b in edge_order],
            "shape": shape, "label_mode": lmode}
    if hostile:
        info["hostile"] = hostile
    cs = Case(ctx, info)
    base_fp = (backend, "di", tuple(map(repr, labels)), tuple(edge_order), tuple(round(weights[p], 9) for p in edge_order))
    nontriv = m >= 2

    def reg(fn, opt=None):
        ctx.case(fingerprint(base_fp, fn, opt), nontrivial=nontriv, cls=fn,
                 sample={**info, "builder": fn, "option": opt} if rng.random() < 0.1 else None)

    order = list(range(m))  # wires = edge indices
    B = bits_table(m)
    logc = np.array([np.log(weights[p]) for p in edge_order])
    # ---- mappings
    fn = "edges_to_wires"
    reg(fn)
    e2w = call(cs, fn, qaoa.edges_to_wires, g, mon="cycle.mapping")
    w2e = call(cs, "wires_to_edges", qaoa.wires_to_edges, g, mon="cycle.mapping")
    if e2w is not None and w2e is not None:
        ctx.ev("cycle.mapping")
        exp_w2e = {i: tuple(named[i]) for i in range(m)}
        if {k: tuple(v) for k, v in w2e.items()} != exp_w2e or {tuple(k): v for k, v in e2w.items()} != {v: k for k, v in exp_w2e.items()}:
            cs.viol("cycle.mapping", fn, f"edge<->wire mapping {dict(w2e)} is not the documented enumeration of the graph's edges {exp_w2e}",
                    mech="mapping:edges_to_wires")
    # ---- loss hamiltonian
    loss = (1 - 2 * B) @ logc
    fn = "loss_hamiltonian"
    reg(fn)
    H = call(cs, fn, qaoa.loss_hamiltonian, g)
    if H is not None:
        check_diag(cs, fn, H, order, loss, "exact")
    # ---- flows on bits
    out_s = np.zeros((2**m, n), dtype=np.int64)
    in_s = np.zeros((2**m, n), dtype=np.int64)
    for w, (a, b) in enumerate(edge_order):
        out_s[:, a] += B[:, w]
        in_s[:, b] += B[:, w]
    net = 4.0 * ((out_s - in_s) ** 2).sum(axis=1)
    outc = 4.0 * (out_s * (out_s - 1)).sum(axis=1)
    fn = "net_flow_constraint"
    reg(fn)
    H = call(cs, fn, qaoa.net_flow_constraint, g)
    if H is not None:
        d = check_diag(cs, fn, H, order, net, "exact")
        if d is not None:
            # documented: minimised exactly on the zero-net-flow edge sets
            check_optimum(cs, fn, d, np.ones(2**m, dtype=bool), ((out_s - in_s) == 0).all(axis=1))
    fn = "out_flow_constraint"
    reg(fn)
    H = call(cs, fn, qaoa.out_flow_constraint, g)
    if H is not None:
        d = check_diag(cs, fn, H, order, outc, "exact")
        if d is not None:
            check_optimum(cs, fn, d, np.ones(2**m, dtype=bool), (out_s <= 1).all(axis=1))
    # ---- max_weight_cycle
    zero_net = ((out_s - in_s) == 0).all(axis=1)
    for constrained in (True, False):
        fn = f"max_weight_cycle/{'constrained' if constrained else 'unconstrained'}"
        reg("max_weight_cycle", constrained)
        r = call(cs, fn, qaoa.max_weight_cycle, g, constrained=constrained)
        if r is None:
            continue
        H, M, mp = r
        ctx.ev("cycle.mapping")
        if {k: tuple(v) for k, v in mp.items()} != {i: tuple(named[i]) for i in range(m)}:
            cs.viol("cycle.mapping", fn, f"returned mapping {dict(mp)} is not the documented wire->edge enumeration", mech="mapping:max_weight_cycle")
        if constrained:
            check_diag(cs, fn, H, order, loss, "exact")
            if m <= 9:
                Mref = cycle_mixer_ref(m, edge_order, n)
                Mm = check_matrix(cs, fn + ".mixer", M, order, Mref)
                if Mm is not None:
                    check_preserve(cs, fn + ".mixer", Mm, zero_net)
        else:
            check_diag(cs, fn, H, order, loss + 3.0 * (net + outc), "exact")
            check_matrix(cs, fn + ".mixer", M, order, flip_mixer_ref(m)) if m <= 9 else None
    if m <= 9:
        fn = "cycle_mixer"
        reg(fn)
        M = call(cs, fn, qaoa.cycle_mixer, g, mon="mixer.matrix")
        if M is not None:
            check_matrix(cs, fn, M, order, cycle_mixer_ref(m, edge_order, n))


def cycle_mixer_ref(m, edge_order, n):
    """Documented Pauli sum 1/4 sum_(i,j) sum_k [X_ij X_ik X_kj + Y_ij Y_ik X_kj + Y_ij X_ik Y_kj - X_ij Y_ik Y_kj]."""
    w = {p: i for i, p in enumerate(edge_order)}
    terms = []
    for (i, j) in edge_order:
        for k in range(n):
            if k in (i, j) or (i, k) not in w or (k, j) not in w:
                continue
            a, b, c = w[(i, j)], w[(i, k)], w[(k, j)]
            for coeff, letters in ((0.25, "XXX"), (0.25, "YYX"), (0.25, "YXY"), (-0.25, "XYY")):
                terms.append((coeff, {a: letters[0], b: letters[1], c: letters[2]}))
    return dense_of(terms, m)


# ----------------------------------------------------------------------------------------------- driver
def run(ctx):
    import warnings

    import pennylane as qp

    warnings.filterwarnings("ignore")
    if ctx.shard == 0:
        invalid_inputs(ctx, qp)
    n_und = ctx.n(70, 4000)
    n_dir = ctx.n(36, 1600)
    for i in range(n_und):
        if not ctx.more():
            break
        gi = i * ctx.nshards + ctx.shard
        if ctx.only_case is not None and gi != ctx.only_case:
            continue
        ctx.case_index = gi
        with ctx.guard("cost.diag", "harness error in undirected case"):
            undirected_case(ctx, qp, ctx.case_rng(gi), gi)
    for i in range(n_dir):
        if not ctx.more():
            break
        gi = 1_000_000 + i * ctx.nshards + ctx.shard
        if ctx.only_case is not None and gi != ctx.only_case:
            continue
        ctx.case_index = gi
        with ctx.guard("cost.diag", "harness error in directed case"):
            directed_case(ctx, qp, ctx.case_rng(gi), gi)
