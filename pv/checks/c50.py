"""C50 — GF(2) linear algebra is exact.

Deciding monitors: post-conditions on the real functions of ``pennylane/math/binary_linalg.py`` against R-GF2, a brute-force
reference written here on Python ints (rows as bit masks): rank by span enumeration (|span| = 2^rank), row-space equality by
span enumeration, all solutions of Ax = b by enumeration of all x, and – for matrices too large to enumerate – an own
bit-mask Gauss-Jordan elimination that is itself cross-checked against the enumeration on every small matrix.

* ``gf2.rank``    binary_matrix_rank == log2 |row span|; input not modified
* ``gf2.rref``    binary_finite_reduced_row_echelon: result is in RREF (structural definition), has the input's row space,
                   equals the unique RREF, is idempotent, ``inplace`` semantics as documented
* ``gf2.solve``   binary_solve_linear_system (square A): regular A → the unique x with Ax = b; singular A → the documented
                   ``LinAlgError`` or a vector that really solves the system; never a non-solution
* ``gf2.indep``   binary_is_independent(v, basis) == (v ∉ column span of basis) for every full-rank basis
* ``gf2.basis``   binary_select_basis: selected columns are independent, span the column space, and selected ∪ rest is the
                   input's column multiset
"""
from pv.ctx import fingerprint

META = {
    "id": "C50",
    "level": "exploration",
    "technique": "exhaustive enumeration of all binary matrices up to 3x4 / 4x3 (and all right-hand sides / vectors) against "
                 "brute-force span enumeration, plus random structured matrices up to 12x16 (24x32 thorough) against an own "
                 "bit-mask elimination",
    "level_text": "Every binary matrix with at most 3x4 (or 4x3) entries is pushed through rank, RREF (both inplace modes), "
                  "select_basis, is_independent (all vectors, when its columns are independent) and – when square – solve with "
                  "every right-hand side, and compared with enumeration of spans/solutions; larger random matrices with "
                  "planted rank deficiency, duplicate/zero rows, several integer dtypes and memory layouts are compared with an "
                  "independent bit-mask Gaussian elimination and by multiplying solutions back.",
    "level_note": "Exhaustive over the claimed space {m x n : m<=3,n<=4 or m<=4,n<=3} in both tiers (9 418 matrices); beyond it "
                  "the evidence is sampled. binary_solve_linear_system is documented for square regular A only: non-square "
                  "systems are not driven, singular ones may raise LinAlgError. binary_is_independent is documented for bases "
                  "of rank min(r, m) only, others are not driven. int_to_binary / binary_decimals are monitored as extras "
                  "(non-deciding). JAX inputs are documented as unsupported.",
    "design_ref": "7/C50",
    "exhaustive": True,
    "shards": {"quick": 2, "thorough": 16},
    "budget_s": {"quick": 50, "thorough": 300},
    "min_evals": {"quick": 50000, "thorough": 300000},
    "min_nontrivial": 1000,
    "deciding": ["gf2.rank", "gf2.rref", "gf2.solve", "gf2.indep", "gf2.basis"],
    "rule": "all m x n binary matrices with (m<=3, n<=4) or (m<=4, n<=3), each with every b (square) / every vector (independent "
            "columns); plus random matrices (dense, planted low rank, duplicated/zero rows and columns, permuted identity, sparse); "
            "distinct = distinct (shape, entries); non-trivial = 0 < rank < min(m, n) or rank == min(m, n) with a non-identity RREF",
    "assumptions": ["Python int bit operations are exact", "RREF over a field is unique"],
}


# ------------------------------------------------------------------------------------------------ R-GF2 (reference)
def rows_of(M):
    """matrix (list of lists / array) -> list of row bit masks (column 0 = most significant bit), n"""
    n = len(M[0]) if len(M) else 0
    out = []
    for r in M:
        v = 0
        for x in r:
            v = (v << 1) | (int(x) & 1)
        out.append(v)
    return out, n


def span(masks):
    s = {0}
    for v in masks:
        s |= {x ^ v for x in s}
    return s


def rank_enum(masks):
    return len(span(masks)).bit_length() - 1


def elim(masks, n):
    """Own Gauss-Jordan over GF(2) on bit masks: returns (rref rows incl. zero rows at the bottom, pivot columns)."""
    rows = list(masks)
    piv, r = [], 0
    for c in range(n):
        bit = 1 << (n - 1 - c)
        p = next((i for i in range(r, len(rows)) if rows[i] & bit), None)
        if p is None:
            continue
        rows[r], rows[p] = rows[p], rows[r]
        for i in range(len(rows)):
            if i != r and rows[i] & bit:
                rows[i] ^= rows[r]
        piv.append(c)
        r += 1
        if r == len(rows):
            break
    return rows, piv


def is_rref(rows, n):
    """Structural definition: zero rows at the bottom, leading ones move strictly right, pivot columns otherwise zero."""
    lead = []
    seen_zero = False
    for v in rows:
        if v == 0:
            seen_zero = True
            continue
        if seen_zero:
            return False
        lead.append(n - v.bit_length())            # column index of the leading one
    if any(b <= a for a, b in zip(lead, lead[1:])):
        return False
    for i, c in enumerate(lead):
        bit = 1 << (n - 1 - c)
        if any((v & bit) and j != i for j, v in enumerate(rows)):
            return False
    return True


def matvec(masks, x_mask):
    """A x over GF(2); rows as masks over n columns, x as mask over the same n columns -> list of bits"""
    return [bin(v & x_mask).count("1") & 1 for v in masks]


class Hang(BaseException):
    """raised by the watchdog; BaseException so that the monitors' `except Exception` clauses do not swallow it"""


# ------------------------------------------------------------------------------------------------ monitors
class Mon:
    def __init__(self, ctx, np, fns):
        self.ctx, self.np = ctx, np
        self.rank, self.rref, self.solve, self.indep, self.select = fns
        self.LinAlgError = np.linalg.LinAlgError

    def v(self, mon, msg, M, mech, **kw):
        self.ctx.violation(mon, msg, case={"matrix": self.np.asarray(M).astype(int).tolist(), **kw.pop("case", {})}, mech=mech, **kw)

    def check_rank(self, A, masks, n, ref_rank, enum):
        np = self.np
        self.ctx.ev("gf2.rank")
        before = A.copy()
        try:
            r = self.rank(A)
        except Exception as e:  # noqa: BLE001
            self.v("gf2.rank", f"binary_matrix_rank raised {type(e).__name__}: {e} on shape {A.shape} dtype {A.dtype}", A, "rank:raise")
            return
        if int(r) != ref_rank:
            self.v("gf2.rank", f"binary_matrix_rank = {r}, {'span enumeration' if enum else 'reference elimination'} gives {ref_rank} "
                   f"(shape {A.shape})", A, "rank:value", observed=int(r), expected=ref_rank)
        if not np.array_equal(A, before):
            self.v("gf2.rank", "binary_matrix_rank modified its input ('This function does not modify the input')", before, "rank:mutates-input")

    def check_rref(self, A, masks, n, ref_rows, enum):
        np = self.np
        m = A.shape[0]
        self.ctx.ev("gf2.rref")
        before = A.copy()
        try:
            R = self.rref(A)
        except Exception as e:  # noqa: BLE001
            self.v("gf2.rref", f"binary_finite_reduced_row_echelon raised {type(e).__name__}: {e} on shape {A.shape} dtype {A.dtype}", A, "rref:raise")
            return
        if not np.array_equal(A, before) or R is A:
            self.v("gf2.rref", "binary_finite_reduced_row_echelon(inplace=False) modified / returned its input", before, "rref:mutates-input")
        if R.shape != A.shape or not np.all((R == 0) | (R == 1)):
            self.v("gf2.rref", f"RREF has shape {R.shape} / non-binary entries for input shape {A.shape}", A, "rref:shape",
                   observed=np.asarray(R).astype(int))
            return
        rr, _ = rows_of(R.astype(int).tolist()) if m else ([], n)
        if not is_rref(rr, n):
            self.v("gf2.rref", "result is not in reduced row-echelon form", A, "rref:not-rref", observed=R.astype(int))
        elif enum and span(rr) != span(masks):
            self.v("gf2.rref", "result has a different row space than the input (span enumeration)", A, "rref:row-space", observed=R.astype(int))
        elif rr != ref_rows:
            self.v("gf2.rref", "result differs from the unique RREF (reference elimination)", A, "rref:value", observed=R.astype(int),
                   expected=[[(v >> (n - 1 - c)) & 1 for c in range(n)] for v in ref_rows])
        # idempotent
        self.ctx.ev("gf2.rref")
        try:
            R2 = self.rref(R)
            if not np.array_equal(R2, R):
                self.v("gf2.rref", "RREF is not idempotent", A, "rref:idempotent", observed=R2.astype(int), expected=R.astype(int))
        except Exception as e:  # noqa: BLE001
            self.v("gf2.rref", f"RREF of an RREF raised {type(e).__name__}: {e}", A, "rref:raise")
        # inplace=True: same object returned, input now holds the RREF
        self.ctx.ev("gf2.rref")
        C = A.copy(order="K")
        try:
            R3 = self.rref(C, inplace=True)
            if R3 is not C:
                self.v("gf2.rref", "inplace=True did not return the input object", A, "rref:inplace-identity")
            elif not np.array_equal(C, R):
                self.v("gf2.rref", "inplace=True left something else than the RREF in the input", A, "rref:inplace-value", observed=C.astype(int),
                       expected=R.astype(int))
        except Exception as e:  # noqa: BLE001
            self.v("gf2.rref", f"inplace=True raised {type(e).__name__}: {e}", A, "rref:raise")

    def check_solve(self, A, masks, n, b, sols, regular):
        """sols: list of x masks solving Ax=b (complete when enumerated, else [unique] for regular / None unknown)."""
        np = self.np
        self.ctx.ev("gf2.solve")
        Ab, bb = A.copy(), b.copy()
        try:
            x = self.solve(A, b)
        except self.LinAlgError:
            if regular:
                self.v("gf2.solve", "regular system rejected with LinAlgError", A, "solve:reject-regular", case={"b": b.astype(int).tolist()})
            else:
                self.ctx.reject("singular-LinAlgError" + ("-solvable" if sols else "-unsolvable"))
            return
        except Exception as e:  # noqa: BLE001
            self.v("gf2.solve", f"binary_solve_linear_system raised {type(e).__name__}: {e}", A, "solve:raise", case={"b": b.astype(int).tolist()})
            return
        if not np.array_equal(A, Ab) or not np.array_equal(b, bb):
            self.v("gf2.solve", "binary_solve_linear_system modified A or b", Ab, "solve:mutates-input")
        x = np.asarray(x)
        if x.shape != (n,) or not np.all((x == 0) | (x == 1)):
            self.v("gf2.solve", f"returned x of shape {x.shape} / non-binary for a {A.shape} system", A, "solve:shape",
                   case={"b": b.astype(int).tolist()}, observed=x)
            return
        xm = 0
        for t in x.astype(int).tolist():
            xm = (xm << 1) | t
        if matvec(masks, xm) != b.astype(int).tolist():
            self.v("gf2.solve", f"returned x = {x.astype(int).tolist()} does not solve A x = b (A x = {matvec(masks, xm)}, b = {b.astype(int).tolist()})"
                   + ("" if regular else "; A is singular and no LinAlgError was raised"), A,
                   "solve:not-a-solution" if regular else "solve:singular-not-rejected", case={"b": b.astype(int).tolist()},
                   observed=x.astype(int), expected=[[(s >> (n - 1 - c)) & 1 for c in range(n)] for s in (sols or [])][:4])
        elif sols is not None and xm not in sols:
            self.v("gf2.solve", "harness inconsistency: verified solution missing from the enumerated solution set", A, "harness")

    def check_indep(self, basis, vec, ref):
        self.ctx.ev("gf2.indep")
        try:
            r = self.indep(vec, basis)
        except Exception as e:  # noqa: BLE001
            self.v("gf2.indep", f"binary_is_independent raised {type(e).__name__}: {e} (basis shape {basis.shape})", basis, "indep:raise",
                   case={"vector": vec.astype(int).tolist()})
            return
        if bool(r) != ref:
            self.v("gf2.indep", f"binary_is_independent({vec.astype(int).tolist()}, basis) = {bool(r)}, span enumeration says {ref}", basis,
                   "indep:value", case={"vector": vec.astype(int).tolist()}, observed=bool(r), expected=ref)

    def check_select(self, A, col_masks, m, ref_rank):
        """col_masks: columns of A as masks over m rows."""
        np = self.np
        self.ctx.ev("gf2.basis")
        before = A.copy()
        try:
            B, O = self.select(A)
        except Exception as e:  # noqa: BLE001
            self.v("gf2.basis", f"binary_select_basis raised {type(e).__name__}: {e} on shape {A.shape}", A, "basis:raise")
            return
        B, O = np.asarray(B), np.asarray(O)
        if B.ndim != 2 or O.ndim != 2 or B.shape[0] != m or O.shape[0] != m or B.shape[1] + O.shape[1] != A.shape[1]:
            self.v("gf2.basis", f"shapes {B.shape} + {O.shape} do not partition the {A.shape[1]} columns", A, "basis:shape")
            return
        bm, _ = rows_of(B.T.astype(int).tolist()) if B.shape[1] else ([], m)
        om, _ = rows_of(O.T.astype(int).tolist()) if O.shape[1] else ([], m)
        if sorted(bm + om) != sorted(col_masks):
            self.v("gf2.basis", "selected + remaining columns are not the input's columns", A, "basis:columns", observed=[B.astype(int), O.astype(int)])
        elif len(bm) != ref_rank or rank_of(bm, m) != ref_rank:
            self.v("gf2.basis", f"selected {len(bm)} columns of rank {rank_of(bm, m)}; the column space has dimension {ref_rank}", A,
                   "basis:not-a-basis", observed=B.astype(int))
        if not np.array_equal(A, before):
            self.v("gf2.basis", "binary_select_basis modified its input", before, "basis:mutates-input")


def rank_of(masks, n):
    if len(masks) <= 12:
        return rank_enum(masks)
    return len(elim(masks, n)[1])


def variants(np, rng, A):
    """The same matrix in another integer dtype / memory layout (values identical)."""
    k = int(rng.integers(7))
    if k == 0:
        return A.astype(np.int8), "int8"
    if k == 1:
        return A.astype(np.uint8), "uint8"
    if k == 2:
        return A.astype(np.int32), "int32"
    if k == 3:
        return np.asfortranarray(A), "fortran"
    if k == 4:
        big = np.zeros((A.shape[0] * 2, A.shape[1] * 2), dtype=A.dtype)
        big[::2, ::2] = A
        big[1::2, 1::2] = 1
        return big[::2, ::2], "strided-view"
    if k == 5:
        return np.ascontiguousarray(A.T).T, "transposed-view"
    return A.astype(bool), "bool"


def full_case(ctx, mon, np, rng, A, enum, cls, vary=True):
    m, n = A.shape
    masks, _ = rows_of(A.tolist())
    cols, _ = rows_of(A.T.tolist()) if n else ([], m)
    ref_rows, piv = elim(masks, n)
    ref_rank = len(piv)
    if enum:
        re = rank_enum(masks)
        ctx.ev("ref.selfcheck")
        if re != ref_rank or rank_enum(cols) != ref_rank or span(ref_rows) != span(masks) or not is_rref(ref_rows, n):
            ctx.violation("ref.selfcheck", "HARNESS: reference elimination disagrees with span enumeration", case={"matrix": A.tolist()}, mech="harness")
            return
    rid = [1 << (n - 1 - c) for c in piv] + [0] * (m - ref_rank)
    nontriv = 0 < ref_rank < min(m, n) or (ref_rank == min(m, n) and ref_rows != rid)
    ctx.case(fingerprint(A.shape, A.astype(np.uint8)), nontrivial=nontriv, cls=cls,
             sample={"matrix": A.tolist(), "rank": ref_rank, "rref_pivots": piv})
    X, kind = variants(np, rng, A) if vary else (A, "int64")
    ctx.cover("dtype/layout:" + kind)
    mon.check_rank(X, masks, n, ref_rank, enum)
    # bool supports ^ but the docs say array[int]: RREF / select / solve are driven with integer dtypes only
    Xi = A if kind == "bool" else X
    mon.check_rref(Xi, masks, n, ref_rows, enum)
    mon.check_select(Xi, cols, m, ref_rank)
    return masks, cols, ref_rows, piv, ref_rank, Xi


def run(ctx):

    import numpy as np
    from pennylane.math import (binary_decimals, binary_finite_reduced_row_echelon, binary_is_independent, binary_matrix_rank,
                                binary_select_basis, binary_solve_linear_system, int_to_binary)

    mon = Mon(ctx, np, (binary_matrix_rank, binary_finite_reduced_row_echelon, binary_solve_linear_system, binary_is_independent,
                        binary_select_basis))
    rng = ctx.rng
    # rolling watchdog: the elimination loops have no iteration bound; a case that does not return within 120 s makes the
    # shard INCONCLUSIVE right away (never a verdict) instead of burning the whole budget
    import signal

    def _hang(signum, frame):
        raise Hang("watchdog")
    signal.signal(signal.SIGALRM, _hang)
    try:
        _run(ctx, mon, np, rng, signal, binary_decimals, int_to_binary)
    except Hang:
        ctx.inconclusive_case(f"real code did not return within 120 s on case {ctx.case_index} (possible non-termination)")
    finally:
        signal.alarm(0)


def _run(ctx, mon, np, rng, signal, binary_decimals, int_to_binary):

    # ================================================================= exhaustive sub-space (claimed space, both tiers)
    shapes = [(m, n) for m in range(1, 5) for n in range(1, 5) if (m <= 3 and n <= 4) or (m <= 4 and n <= 3)]
    work = [(m, n, code) for (m, n) in shapes for code in range(1 << (m * n))]
    ctx.note("exhaustive_subspace", f"all {len(work)} binary matrices of shapes {shapes}; square ones with every right-hand side; "
                                    "matrices with independent columns as bases with every vector")
    for idx, (m, n, code) in enumerate(work):
        if idx % ctx.nshards != ctx.shard:
            continue
        ctx.case_index = idx
        if ctx.only_case is not None and idx != ctx.only_case:
            continue
        signal.alarm(120)
        ctx.more()                           # recorded only: the exhaustive part is never cut short
        bits = [(code >> (m * n - 1 - t)) & 1 for t in range(m * n)]
        A = np.array(bits, dtype=np.int64).reshape(m, n)
        got = full_case(ctx, mon, np, rng, A, True, f"exhaustive:{m}x{n}", vary=(code % 3 == 0))
        if got is None:
            continue
        masks, cols, ref_rows, piv, ref_rank, X = got
        if m == n:
            for bcode in range(1 << m):
                b = np.array([(bcode >> (m - 1 - t)) & 1 for t in range(m)], dtype=X.dtype)
                sols = [x for x in range(1 << n) if matvec(masks, x) == b.astype(int).tolist()]
                mon.check_solve(X, masks, n, b, sols, ref_rank == n)
        if ref_rank == min(m, n):                # documented domain of binary_is_independent: basis of rank min(r, m)
            sp = span(cols)
            for vcode in range(1 << m):
                vec = np.array([(vcode >> (m - 1 - t)) & 1 for t in range(m)], dtype=X.dtype)
                mon.check_indep(X, vec, vcode not in sp)
    # empty bases / degenerate shapes (each shard: cheap)
    for r in range(1, 5):
        for vcode in range(1 << r):
            vec = np.array([(vcode >> (r - 1 - t)) & 1 for t in range(r)], dtype=np.int64)
            mon.check_indep(np.zeros((r, 0), dtype=np.int64), vec, vcode != 0)
    for shp in [(0, 3), (3, 0), (1, 0), (0, 1)]:
        Z = np.zeros(shp, dtype=np.int64)
        mon.check_rank(Z, [0] * shp[0], shp[1], 0, False)
        if shp[0]:
            mon.check_select(Z, [], shp[0], 0)

    # ================================================================= random larger matrices
    N = ctx.n(3000, 200000)
    mx_m, mx_n = (12, 16) if ctx.quick else (24, 32)
    for k in range(N):
        i = 1_000_000 + ctx.shard + k * ctx.nshards
        if ctx.only_case is not None and i != ctx.only_case:
            continue
        if k % 64 == 0 and not ctx.more():
            break
        ctx.case_index = i
        signal.alarm(120)
        r = ctx.case_rng(i)
        kind = int(r.integers(8))
        m, n = int(r.integers(1, mx_m + 1)), int(r.integers(1, mx_n + 1))
        if kind == 0:
            A, cls = r.integers(0, 2, size=(m, n)), "dense"
        elif kind == 1:
            kk = int(r.integers(0, min(m, n) + 1))
            A, cls = (r.integers(0, 2, size=(m, kk)) @ r.integers(0, 2, size=(kk, n))) % 2, "planted-low-rank"
        elif kind == 2:
            A = r.integers(0, 2, size=(m, n))
            for _ in range(int(r.integers(1, 4))):
                a, b_ = int(r.integers(m)), int(r.integers(m))
                A[a] = A[b_] if r.random() < 0.6 else 0
            cls = "duplicate/zero rows"
        elif kind == 3:
            A = r.integers(0, 2, size=(m, n))
            for _ in range(int(r.integers(1, 4))):
                a, b_ = int(r.integers(n)), int(r.integers(n))
                A[:, a] = A[:, b_] if r.random() < 0.6 else 0
            cls = "duplicate/zero columns"
        elif kind == 4:
            A, cls = (r.random(size=(m, n)) < 0.12).astype(np.int64), "sparse"
        elif kind == 5:
            A, cls = (r.random(size=(m, n)) < 0.9).astype(np.int64), "nearly-all-ones"
        elif kind == 6:
            A = np.zeros((m, n), dtype=np.int64)
            for a, c in zip(r.permutation(m), r.permutation(n)):
                A[a, c] = 1
            cls = "partial permutation"
        else:
            # staircase with late pivots: leading columns zero, pivots far to the right
            A = np.zeros((m, n), dtype=np.int64)
            c = int(r.integers(0, n))
            for a in r.permutation(m):
                if c >= n:
                    break
                A[a, c:] = r.integers(0, 2, size=n - c)
                A[a, c] = 1
                c += int(r.integers(1, 4))
            cls = "staircase"
        A = np.asarray(A, dtype=np.int64)
        enum = m <= 10
        got = full_case(ctx, mon, np, r, A, enum, "random:" + cls)
        if got is None:
            continue
        masks, cols, ref_rows, piv, ref_rank, X = got
        # independence: keep a maximal independent prefix of columns as basis, test columns / random vectors / combinations
        sel = []
        for j, cm in enumerate(cols):
            if rank_of([cols[t] for t in sel] + [cm], m) == len(sel) + 1:
                sel.append(j)
        basis = X[:, sel] if sel else np.zeros((m, 0), dtype=X.dtype)
        bm = [cols[t] for t in sel]
        bspan = span(bm) if len(bm) <= 12 else None
        for _ in range(4):
            w = int(r.integers(3))
            if w == 0 or not bm:
                vm = int(r.integers(0, 1 << m))
            elif w == 1:
                vm = 0
                for t in bm:
                    if r.random() < 0.5:
                        vm ^= t
            else:
                vm = cols[int(r.integers(len(cols)))]
            vec = np.array([(vm >> (m - 1 - t)) & 1 for t in range(m)], dtype=X.dtype)
            ref = (vm not in bspan) if bspan is not None else (len(elim(bm + [vm], m)[1]) > len(bm))
            mon.check_indep(basis, vec, ref)
        # square systems: the matrix itself (often singular) and a regular one built from it
        if k % 2 == 0:
            s = int(r.integers(1, min(mx_m, 12) + 1))
            if r.random() < 0.6:
                # regular by construction: product of random row operations applied to a permutation matrix
                S = np.eye(s, dtype=np.int64)[r.permutation(s)]
                for _ in range(3 * s):
                    a, b_ = int(r.integers(s)), int(r.integers(s))
                    if a != b_:
                        S[a] ^= S[b_]
                scls = "regular"
            else:
                S = r.integers(0, 2, size=(s, s)).astype(np.int64)
                scls = "random-square"
            sm, _ = rows_of(S.tolist())
            srank = len(elim(sm, s)[1])
            ctx.cover("solve:" + scls + (":regular" if srank == s else ":singular"))
            Sx, kind2 = variants(np, r, S)
            if kind2 == "bool":
                Sx = S
            for _ in range(3):
                if r.random() < 0.5:
                    xm = int(r.integers(0, 1 << s))
                    bl = matvec(sm, xm)            # consistent by construction
                else:
                    bl = [int(t) for t in r.integers(0, 2, size=s)]
                b = np.array(bl, dtype=Sx.dtype)
                sols = [x for x in range(1 << s) if matvec(sm, x) == bl] if s <= 10 else None
                mon.check_solve(Sx, sm, s, b, sols, srank == s)

    # ================================================================= extras (non-deciding): int_to_binary / binary_decimals
    from fractions import Fraction
    for k in range(ctx.n(600, 20000)):
        if k % 64 == 0 and not ctx.more():
            break
        r = rng
        width = int(r.integers(0, 40))
        val = int(r.integers(-(1 << 40), 1 << 40)) if r.random() < 0.7 else int(r.integers(-4, 5))
        ctx.ev("gf2.int_to_binary")
        exp = [((val % (1 << width)) >> (width - 1 - t)) & 1 for t in range(width)] if width else []
        try:
            got = int_to_binary(val, width)
            if list(np.asarray(got).astype(int)) != exp:
                ctx.violation("gf2.int_to_binary", f"int_to_binary({val}, {width}) = {list(got)}, expected bits of {val} mod 2^{width}: {exp}",
                              case={"integer": val, "width": width}, mech="int_to_binary:value")
            arr = r.integers(-(1 << 30), 1 << 30, size=(2, 3))
            got = np.asarray(int_to_binary(arr, width))
            expa = [[[((int(v) % (1 << width)) >> (width - 1 - t)) & 1 for t in range(width)] for v in row] for row in arr]
            if got.shape != (2, 3, width) or got.astype(int).tolist() != expa:
                ctx.violation("gf2.int_to_binary", f"int_to_binary(array, {width}) differs from the per-entry bits", case={"array": arr, "width": width},
                              mech="int_to_binary:array")
        except Exception as e:  # noqa: BLE001
            ctx.violation("gf2.int_to_binary", f"int_to_binary({val}, {width}) raised {type(e).__name__}: {e}", case={"integer": val, "width": width},
                          mech="int_to_binary:raise")
        # binary_decimals on exactly representable inputs (dyadic phi, power-of-two unit): exact round-half-even reference
        p = int(r.integers(1, 12))
        q = p + int(r.integers(0, 4))
        unit = [1.0, 2.0, 4.0, 0.5][int(r.integers(4))]
        num = int(r.integers(-(1 << (q + 2)), 1 << (q + 2)))
        phi = Fraction(num, 1 << q) * Fraction(unit)
        x = (phi % Fraction(unit)) / Fraction(unit)            # in [0, 1)
        y = x * (1 << p)
        fl = y.numerator // y.denominator
        frac = y - fl
        rnd = fl + (1 if frac > Fraction(1, 2) or (frac == Fraction(1, 2) and fl % 2 == 1) else 0)
        expb = [((rnd % (1 << p)) >> (p - 1 - t)) & 1 for t in range(p)]
        ctx.ev("gf2.binary_decimals")
        try:
            got = binary_decimals(float(phi), p, unit=unit)
            if list(np.asarray(got).astype(int)) != expb:
                ctx.violation("gf2.binary_decimals", f"binary_decimals({float(phi)!r}, {p}, unit={unit}) = {list(got)}, exact round-half-even gives {expb}",
                              case={"phi": float(phi), "precision": p, "unit": unit}, mech="binary_decimals:value")
        except Exception as e:  # noqa: BLE001
            ctx.violation("gf2.binary_decimals", f"binary_decimals raised {type(e).__name__}: {e}", case={"phi": float(phi), "precision": p, "unit": unit},
                          mech="binary_decimals:raise")
