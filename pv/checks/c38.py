"""C38 — Metric tensors equal the Fubini-Study metric.

Deciding monitors (post-conditions on the REAL entry points):

* ``mt.full``     — ``qp.metric_tensor(approx=None)`` (covariance blocks + Hadamard tests, given / inferred ``aux_wire``,
  ``allow_nonunitary`` True/False) on tapes and on QNodes with classical pre-processing (hybrid contraction), and with ``argnum``.
* ``mt.adjoint``  — ``qp.adjoint_metric_tensor`` on tapes and QNodes.
* ``mt.approx``   — ``approx="diag"`` equals the diagonal of the Fubini-Study metric; ``approx="block-diag"`` equals the
  Fubini-Study metric on a block-diagonal support (the returned zero pattern must be a partition of the parameters into
  blocks, and the diagonal and every returned non-zero entry must equal the true entry).
* ``mt.fisher``   — ``qp.gradients.quantum_fisher`` equals 4 x the Fubini-Study metric.

Reference: g_ij = Re[<d_i psi|d_j psi> - <d_i psi|psi><psi|d_j psi>] with the state psi from the independent simulator
(pv/ref/sv.py + gate table) and d_i psi by 8th-order central differences (two steps, self-check <= 1e-9); for QNodes the
state is differentiated directly w.r.t. the QNode argument (so the classical Jacobian contraction is checked as well).
"""
import numpy as np

from pv.ctx import fingerprint

META = {
    "id": "C38",
    "level": "exploration",
    "technique": "post-condition on metric_tensor / adjoint_metric_tensor / quantum_fisher vs the Fubini-Study metric computed from "
                 "finite-difference derivatives of an independent reference simulator's state",
    "level_text": "Random layered circuits (generators with unitary and non-unitary generators, multi-parameter gates that must be decomposed, "
                  "shared parameters, classical pre-processing, trainable subsets, argnum, given/inferred auxiliary wire) are passed to the "
                  "real metric-tensor entry points; results are compared entrywise with the Fubini-Study metric of the reference state. "
                  "Held on the cases observed.",
    "level_note": "Trusts numpy/scipy and the pv/ref gate table. The block partition of approx='block-diag' is not re-derived in full: "
                  "the monitor demands a block-diagonal (partition) support with correct entries. "
                  "Finite shots and the no-free-aux-wire fallback (documented warning) are not swept.",
    "shards": {"quick": 2, "thorough": 16},
    "budget_s": {"quick": 50, "thorough": 400},
    "min_evals": {"quick": 80, "thorough": 3000},
    "min_nontrivial": {"quick": 40, "thorough": 1500},
    "deciding": ["mt.full", "mt.adjoint", "mt.approx", "mt.fisher"],
    "allow_rejections": True,
    "rule": "case = (circuit spec, point, entry point + options); distinct = distinct (spec, point, options); non-trivial = at least two "
            "parameters and a reference off-diagonal entry of magnitude > 1e-3",
    "assumptions": ["reference gate table transcribes the documented unitaries (C02)", "finite-difference state derivatives agree at two steps to 1e-9"],
}

TOL = 1e-7
GEN1 = ["RX", "RY", "RZ", "PhaseShift", "U1", "IsingXX", "IsingYY", "IsingZZ", "MultiRZ", "PauliRot", "PauliRot", "RX", "RY", "RZ"]
GENX = ["CRX", "CRY", "CRZ", "ControlledPhaseShift", "IsingXY", "SingleExcitation", "Rot", "U3", "CRot", "C(RY)", "Adj(RX)", "SingleExcitationPlus",
        "DoubleExcitation", "OrbitalRotation", "FermionicSWAP", "PSWAP"]
FIXED = ["Hadamard", "CNOT", "CNOT", "CZ", "S", "T", "SX", "SWAP", "PauliX"]


def run(ctx):
    import warnings

    import pennylane as qp

    from pv.checks.c34 import Incomparable, classify_exc, crash_mech
    from pv.gen import c34_circ as C
    from pv.ref import c34_diff as D

    warnings.filterwarnings("ignore")
    dev = qp.device("default.qubit")
    pnp = qp.numpy
    use_jax = (ctx.shard % 2 == 1)
    if use_jax:
        import jax
        import jax.numpy as jnp
        jax.config.update("jax_enable_x64", True)
    ncirc = ctx.n(160, 5000)
    base = ctx.shard * 100000
    min_circ = 6 if ctx.quick else 10

    ASYM = ("PhaseShift", "U1", "ControlledPhaseShift", "CPhaseShift00", "CPhaseShift01", "CPhaseShift10", "C(PhaseShift)")

    def expanded_names(transform, spec, x, **kw):
        R_ = C.Ref(spec)
        tape = C.make_tape(qp, spec, R_.flat_gate_params(x))
        (xt,), _ = transform.expand_transform(tape, **kw)
        return [o.name for o in xt.operations if o.num_params and any(qp.math.requires_grad(d) for d in o.data)], len(tape.trainable_params), len(xt.trainable_params)

    def classify(cfg, spec, default, x=None, train=None, exc=None):
        """mechanism tag (naming only; the verdict is already made):
        * metric_tensor with a trainable PhaseShift-family gate in the (expanded) circuit: its generator is a projector (eigenvalues
          0,1); qp.math.cov_matrix builds kron(eigvals_i, eigvals_j) in observable order but marginalises over the *sorted* wire set
          -> 'metric-cov:projector-generator-eigvals-vs-sorted-wires'
        * metric_tensor(approx=None) with a trainable controlled rotation kept un-decomposed (its generator |1><1| (x) P/2 is not unitary; the
          Hadamard-test tapes use ControlledQubitUnitary(generator matrix)) -> 'metric-hadamard:controlled-rotation-generator-off-block-wrong'
        * quantum_fisher(qnode) when adjoint_metric_tensor's expansion changes the number of trainable gate parameters: the classical
          Jacobian does not match the expanded tape -> 'quantum_fisher:cjac-vs-expanded-tape'"""
        try:
            if exc is not None and "Input unitary must be of shape" in str(exc) and "metric_tensor" in cfg and x is not None:
                # a trainable GlobalPhase left by the expansion (SingleExcitationPlus/Minus, FermionicSWAP, ...) has a 1x1 generator on no
                # wires; the Hadamard-test tape builder wraps it in ControlledQubitUnitary
                if "GlobalPhase" in expanded_names(qp.metric_tensor, spec, x)[0]:
                    return "metric-hadamard:trainable-globalphase-generator"
            if exc is None and x is not None and "metric_tensor" in cfg and "adjoint" not in cfg and {"GlobalPhase", "Exp"} & set(expanded_names(qp.metric_tensor, spec, x)[0]):
                # same cause without the exception (allow_nonunitary=True, aux wire given): the trainable GlobalPhase left by the expansion of
                # FermionicSWAP / SingleExcitationPlus/Minus is differentiated with a wrong generator -> off-diagonal entries are wrong
                return "metric-hadamard:trainable-globalphase-generator"
            if "quantum_fisher" in cfg and x is not None:
                _, n0, n1 = expanded_names(qp.adjoint_metric_tensor, spec, x)
                if n0 != n1:
                    return "quantum_fisher:cjac-vs-expanded-tape"
            if "metric_tensor" in cfg or "block-diag" in cfg or ":diag" in cfg:
                names = [g["name"] for g in spec["gates"] if any(e[0] != "c" for e in g["args"])]
                if train is not None:     # tape level: trainability is per gate-parameter index
                    names, k = [], 0
                    for g in spec["gates"]:
                        if any((k + j) in train for j in range(len(g["args"]))):
                            names.append(g["name"])
                        k += len(g["args"])
                if x is not None and "adjoint" not in cfg:
                    names = names + expanded_names(qp.metric_tensor, spec, x)[0]
                if any(n in ASYM for n in names) and "adjoint" not in cfg:
                    return "metric-cov:projector-generator-eigvals-vs-sorted-wires"
                if any(n in ("CRX", "CRY", "CRZ", "C(RX)", "C(RY)", "C(RZ)") for n in names) and "adjoint" not in cfg and "diag" not in cfg:
                    return "metric-hadamard:controlled-rotation-generator-off-block-wrong"
        except Exception:  # noqa: BLE001
            pass
        return default

    def judge(monitor, cfg, fn, gref, spec, desc, x, extra=None, compare=None):
        case = {"spec": desc, "x": [float(v) for v in x], "config": cfg, **(extra or {})}
        try:
            g = fn()
        except Exception as e:  # noqa: BLE001
            if classify_exc(e) == "reject" or type(e).__name__ == "WireError":
                ctx.reject(f"{cfg}:{type(e).__name__}:{str(e)[:60]}")
                return None
            import traceback
            ctx.ev(monitor)
            ctx.violation(monitor, f"{cfg}: {type(e).__name__}: {str(e)[:300]} on an admitted circuit",
                          case={**case, "tb": traceback.format_exc()[-900:]},
                          mech=classify(cfg, spec, crash_mech(e, cfg.split(":")[0]), x if "qnode" in cfg else None, exc=e))
            return None
        n = gref.shape[0]
        off = gref - np.diag(np.diag(gref))
        nontriv = bool(n >= 2 and np.max(np.abs(off)) > 1e-3)
        ctx.case(fingerprint(repr(desc), [float(v) for v in x], cfg, repr(extra)), nontrivial=nontriv, cls=cfg, sample=case)
        ctx.ev(monitor)
        g = np.asarray(g, dtype=float)
        if g.shape != gref.shape:
            ctx.violation(monitor, f"{cfg}: metric tensor shape {g.shape} != ({n},{n})", case=case,
                          mech=classify(cfg, spec, f"shape:{cfg}", x if "qnode" in cfg else None), observed=g, expected=gref)
            return False
        if compare is not None:
            msg = compare(g)
            if msg:
                ctx.violation(monitor, f"{cfg}: {msg}", case=case, mech=classify(cfg, spec, f"wrong-metric:{cfg}", x if "qnode" in cfg else None, (extra or {}).get("trainable")), observed=g, expected=gref)
                return False
            return True
        tol = TOL * max(1.0, float(np.max(np.abs(gref))))
        err = np.abs(g - gref)
        if not np.all(err <= tol):
            k = np.unravel_index(int(np.argmax(np.nan_to_num(err, nan=np.inf))), err.shape)
            ratio = g[k] / gref[k] if abs(gref[k]) > 1e-9 else float("nan")
            ctx.violation(monitor, f"{cfg}: metric tensor entry {tuple(int(v) for v in k)} = {g[k]:.10g}, Fubini-Study value {gref[k]:.10g} "
                                   f"(|diff| {err[k]:.3e}, ratio {ratio:.4g})", case=case,
                          mech=classify(cfg, spec, f"wrong-metric:{cfg}:{'diagonal' if k[0] == k[1] else 'off-diagonal'}", x if "qnode" in cfg else None, (extra or {}).get("trainable")), observed=g, expected=gref)
            return False
        return True

    for ci in range(ncirc):
        if ci >= min_circ and not ctx.more():
            break
        idx = base + ci
        ctx.case_index = idx
        if ctx.only_case is not None and idx != ctx.only_case:
            continue
        rng = ctx.case_rng(idx)
        simple = (ci % 2 == 0)     # only single-parameter gates with a one-term generator: tape level is comparable
        pool = (GEN1 if simple else GEN1 + GENX) + FIXED
        nw = int(rng.integers(2, 5))
        n_in = int(rng.integers(2, 6))
        spec = C.random_spec(rng, nw=nw, n_in=n_in, n_gates=int(rng.integers(n_in, n_in + 3)), pool=pool, meas_kinds=("expval",), n_meas=1,
                             obs_kinds=("pauli",), labels="range" if ci % 3 else "perm", pre=(ci % 4 != 0), const_frac=0.1)
        x = C.random_point(rng, n_in)
        desc = C.describe(spec)
        R = C.Ref(spec)
        theta = R.flat_gate_params(x)
        nth = len(theta)
        std_wires = spec["wires"] == list(range(nw)) and sorted({w for g in spec["gates"] for w in g["wires"]}) == list(range(nw))

        # ------------------------------------------------------------------ tape level (gate parameters)
        if simple and nth >= 1:
            gth = None
            with ctx.guard("reference.theta"):
                gth, eth = D.fubini_study(R.state_theta, theta)
            if gth is not None and eth <= 1e-9:
                train = list(range(nth))
                if nth > 1 and rng.random() < 0.35:
                    train = sorted(int(v) for v in rng.choice(nth, size=int(rng.integers(1, nth + 1)), replace=False))
                nt = len(train)
                gt = gth[np.ix_(train, train)]
                textra = {"trainable": train}

                def tape_fn(transform, **kws):
                    def fn():
                        tape = C.make_tape(qp, spec, theta, trainable=train)
                        et = transform.expand_transform
                        if et is not None:
                            (xt,), _ = et(tape, **kws)
                            if [o.name for o in xt.operations] != [o.name for o in tape.operations] or len(xt.trainable_params) != nt:
                                raise Incomparable("transform expands the tape")
                        out = transform(tape, **kws)
                        if isinstance(out, tuple) and len(out) == 2 and callable(out[1]):
                            tapes, post = out
                            return post(qp.execute(tapes, dev, diff_method=None))
                        ctx.count("transform_on_tape_returned_value_directly")   # adjoint_metric_tensor(tape) returns the matrix itself
                        return out
                    return fn

                aux = "aux" if rng.random() < 0.5 else None
                nonu = bool(rng.random() < 0.7)
                judge("mt.full", "tape:metric_tensor", tape_fn(qp.metric_tensor, approx=None, aux_wire=aux, allow_nonunitary=nonu), gt, spec, desc, theta,
                      {**textra, "aux_wire": aux, "allow_nonunitary": nonu})
                judge("mt.approx", "tape:diag", tape_fn(qp.metric_tensor, approx="diag"), np.diag(np.diag(gt)), spec, desc, theta, textra)

                # block-diag: support must be a partition into blocks; entries on the support are exact; adjacent disjoint gates share a block
                pgates = [(k, g) for k, g in enumerate(spec["gates"])]
                pos = {}     # flat param index -> gate position
                kflat = 0
                for gi, g in pgates:
                    for _ in g["args"]:
                        pos[kflat] = gi
                        kflat += 1

                def block_compare(g):
                    tol = TOL * max(1.0, float(np.max(np.abs(gt))))
                    if np.max(np.abs(np.diag(g) - np.diag(gt))) > tol:
                        return "block-diag: diagonal differs from the Fubini-Study diagonal by %.3e" % np.max(np.abs(np.diag(g) - np.diag(gt)))
                    sup = np.abs(g) > tol
                    bad = sup & (np.abs(g - gt) > tol)
                    if bad.any():
                        k = np.argwhere(bad)[0]
                        return f"block-diag: entry {tuple(int(v) for v in k)} = {g[tuple(k)]:.8g} but Fubini-Study value is {gt[tuple(k)]:.8g}"
                    if np.max(np.abs(g - g.T)) > tol:
                        return "block-diag: result is not symmetric"
                    # masked entries (returned 0 where the true entry is non-zero) must be consistent with a partition: the relation
                    # "not masked" restricted to truly non-zero entries must not connect two parameters that are masked from each other
                    masked = (~sup) & (np.abs(gt) > 10 * tol)
                    conn = sup | np.eye(nt, dtype=bool)
                    reach = conn.copy()
                    for _ in range(nt):
                        reach = reach | ((reach.astype(int) @ conn.astype(int)) > 0)
                    if (masked & reach).any():
                        k = np.argwhere(masked & reach)[0]
                        return f"block-diag: entry {tuple(int(v) for v in k)} is zeroed although both parameters are linked through returned non-zero entries (true value {gt[tuple(k)]:.6g})"
                    return None
                judge("mt.approx", "tape:block-diag", tape_fn(qp.metric_tensor, approx="block-diag"), gt, spec, desc, theta, textra, compare=block_compare)

                if nt > 1:
                    an_pos = sorted(int(v) for v in rng.choice(nt, size=int(rng.integers(1, nt)), replace=False))
                    an = [train[k] for k in an_pos]       # argnum refers to tape parameter indices
                    gan = np.zeros_like(gt)
                    gan[np.ix_(an_pos, an_pos)] = gt[np.ix_(an_pos, an_pos)]
                    judge("mt.full", "tape:metric_tensor-argnum", tape_fn(qp.metric_tensor, approx=None, aux_wire="aux", argnum=an), gan, spec, desc, theta,
                          {**textra, "argnum": an})
                if std_wires:
                    judge("mt.adjoint", "tape:adjoint_metric_tensor", tape_fn(qp.adjoint_metric_tensor), gt, spec, desc, theta, textra)
            elif gth is not None:
                ctx.inconclusive_case(f"theta FS self-check {eth:.1e}")

        # ------------------------------------------------------------------ QNode level, ONE 0-d scalar argument feeding 1-2 gate parameters
        # (the classical Jacobian then has shape (n_gate_params,): the hybrid contraction has a separate code path for it)
        if ci % 5 == 4:
            r1 = ctx.case_rng(50_000_017 + idx)
            spec1 = C.random_spec(r1, nw=int(r1.integers(1, 4)), n_in=1, n_gates=int(r1.integers(1, 3)), pool=GEN1 + FIXED, meas_kinds=("expval",), n_meas=1,
                                  obs_kinds=("pauli",), labels="range", pre=True, const_frac=0.0)
            x1 = C.random_point(r1, 1)
            desc1 = C.describe(spec1)
            R1 = C.Ref(spec1)
            g1 = None
            with ctx.guard("reference.scalar"):
                g1, e1 = D.fubini_study(lambda y: R1.state_from_gate_params(R1.gate_params(y)), x1)
            std1 = sorted({w for g in spec1["gates"] for w in g["wires"]}) == list(range(spec1["nw"]))
            if g1 is not None and e1 <= 1e-9:
                qf1 = C.make_qfunc(qp, spec1, "scalars")
                if1 = "jax" if (use_jax and ci % 2 == 1) else "autograd"
                arg1 = (lambda: jnp.array(float(x1[0]))) if if1 == "jax" else (lambda: pnp.array(float(x1[0]), requires_grad=True))

                def as11(fn_):
                    def fn():
                        out = np.asarray(fn_(), dtype=float)
                        return out.reshape(1, 1) if out.size == 1 else out      # () / (1,) / (1,1) are all accepted for one scalar argument
                    return fn
                for cfg1, mon1, mk, ref1 in (
                        (f"qnode-scalar:metric_tensor:{if1}", "mt.full", lambda qn: qp.metric_tensor(qn, approx=None), g1),
                        (f"qnode-scalar:block-diag:{if1}", "mt.approx", lambda qn: qp.metric_tensor(qn, approx="block-diag"), None),
                        (f"qnode-scalar:adjoint_metric_tensor:{if1}", "mt.adjoint", (lambda qn: qp.adjoint_metric_tensor(qn)) if std1 else None, g1),
                        (f"qnode-scalar:quantum_fisher:{if1}", "mt.fisher", (lambda qn: qp.gradients.quantum_fisher(qn)) if std1 else None, 4 * g1)):
                    if mk is None:
                        continue
                    if ref1 is None:
                        # block-diag of a circuit whose parametrized gates all sit in one layer equals the full tensor; otherwise no claim here
                        if sum(1 for g in spec1["gates"] if any(e[0] != "c" for e in g["args"])) != 1:
                            continue
                        ref1 = g1
                    judge(mon1, cfg1, as11(lambda mk=mk: mk(qp.QNode(qf1, dev, interface=if1))(arg1())), ref1, spec1, desc1, x1, {"interface": if1, "argument": "0-d scalar"})
            elif g1 is not None:
                ctx.inconclusive_case(f"scalar FS self-check {e1:.1e}")

        # ------------------------------------------------------------------ QNode level (arguments x, classical pre-processing)
        gx = None
        with ctx.guard("reference.x"):
            gx, ex = D.fubini_study(lambda y: R.state_from_gate_params(R.gate_params(y)), x)
        if gx is None:
            continue
        if ex > 1e-9:
            ctx.inconclusive_case(f"x FS self-check {ex:.1e}")
            continue
        qf = C.make_qfunc(qp, spec, "array")
        iface = "jax" if (use_jax and ci % 2 == 1) else "autograd"
        arg = (lambda: jnp.array(x)) if iface == "jax" else (lambda: pnp.array(x, requires_grad=True))
        aux = "aux" if rng.random() < 0.5 else None
        nonu = bool(rng.random() < 0.7)
        qextra = {"interface": iface, "aux_wire": aux, "allow_nonunitary": nonu}

        def q_mt(**kws):
            def fn():
                qn = qp.QNode(qf, dev, interface=iface)
                return qp.metric_tensor(qn, **kws)(arg())
            return fn

        judge("mt.full", f"qnode:metric_tensor:{iface}", q_mt(approx=None, aux_wire=aux, allow_nonunitary=nonu), gx, spec, desc, x, qextra)
        if std_wires:
            def fn():
                qn = qp.QNode(qf, dev, interface=iface)
                return qp.adjoint_metric_tensor(qn)(arg())
            judge("mt.adjoint", f"qnode:adjoint_metric_tensor:{iface}", fn, gx, spec, desc, x, {"interface": iface})

            def fn():
                qn = qp.QNode(qf, dev, interface=iface)
                return qp.gradients.quantum_fisher(qn)(arg())
            judge("mt.fisher", f"qnode:quantum_fisher:{iface}", fn, 4 * gx, spec, desc, x, {"interface": iface})
        if ci % 3 == 0:
            # quantum_fisher on a finite-shot-free non-default path is not available offline; the diag approximation through a QNode:
            # hybrid contraction of the diagonal restriction J^T diag(g_theta) J
            with ctx.guard("reference.hybrid-diag"):
                gth2, e2 = D.fubini_study(R.state_theta, theta)
                cj, e3 = D.jacobian(R.flat_gate_params, x)
                if max(e2, e3) <= 1e-9 and simple:
                    judge("mt.approx", f"qnode:diag:{iface}", q_mt(approx="diag"), cj.T @ np.diag(np.diag(gth2)) @ cj, spec, desc, x, {"interface": iface})
