"""C49 — Quantum-information functions match their definitions.

Deciding monitors: post-conditions on the real ``qp.math`` quantum-information functions, evaluated on generated
pure / mixed / rank-deficient states in every interface (numpy, autograd, jax, torch, python lists):

* ``qinfo.contract``  reduce_dm / partial_trace / reduce_statevector / dm_from_state_vector / purity vs. explicit index
                      contraction (pv.ref.sv.reduced_dm), all index subsets in arbitrary order, batched inputs
* ``qinfo.entropy``   vn_entropy / vn_entanglement_entropy / mutual_info / max_entropy / min_entropy vs. eigenvalue formulas
                      written here in numpy, and their bounds
* ``qinfo.pair``      fidelity / fidelity_statevector / trace_distance / relative_entropy vs. svd / eigenvalue formulas,
                      symmetry, range, |<psi|phi>|^2 on pure states, metric laws, Fuchs–van de Graaf
* ``qinfo.expand``    expand_matrix (dense, batched, scipy sparse) / expand_vector vs. explicit tensor re-indexing
* ``qinfo.misc``      sqrt_matrix, marginal_prob, expectation_value, choi_matrix vs. their formulas
"""
import itertools
import math

import numpy as np

from pv.ctx import fingerprint

META = {
    "id": "C49",
    "level": "exploration",
    "technique": "runtime post-conditions on the real qp.math quantum-information functions vs. independently written index-contraction / "
                 "eigenvalue / svd formulas (reference-model monitor) plus bound and metric-law assertions, all interfaces",
    "level_text": "Random pure, full-rank mixed, rank-deficient, product, maximally entangled/mixed and near-pure states of 1-5 qubits "
                  "(single and batched, batch sizes 1-3, complex128 and complex64) are pushed through the real functions in numpy, autograd, "
                  "jax, torch and python-list form; each result is compared with a numpy formula written from the definition and with the "
                  "documented bounds; held on the evaluations observed.",
    "level_note": "Trusts numpy.linalg (eigh/svd) and pv/ref/sv.py. Tolerances: 1e-9 for contractions, 1e-8 for eigenvalue entropies, "
                  "1e-6 for fidelity (the sqrt of O(1e-16) eigenvalues limits what any eigh-based fidelity can reach). max_entropy is only "
                  "driven on states whose non-zero eigenvalues are >= 1e-4 (its rank cut-off is 1e-8). Relative entropy is compared on "
                  "three classes: both full rank, rank-deficient first argument (finite), support mismatch (documented: inf). "
                  "TensorFlow is not installed; sqrt_matrix_sparse is only driven on well-conditioned positive-definite matrices.",
    "shards": {"quick": 2, "thorough": 16},
    "budget_s": {"quick": 100, "thorough": 300},
    "min_evals": {"quick": 1500, "thorough": 15000},
    "min_nontrivial": {"quick": 150, "thorough": 1500},
    "deciding": ["qinfo.contract", "qinfo.entropy", "qinfo.pair", "qinfo.expand", "qinfo.misc"],
    "rule": "case = (family, interface, state kind(s), number of wires, batch size, index subset/order, base, c_dtype); distinct = distinct "
            "content fingerprint of the generated arrays and arguments; non-trivial = >= 2 wires and (a proper subset / permuted order / "
            "batch / mixed or entangled state is involved)",
    "assumptions": ["numpy.linalg eigh/svd are correct", "formulas transcribed from the docstrings / textbook definitions are correct"],
}

IFACES = ["numpy", "autograd", "jax", "torch", "list"]
KINDS = ["haar", "mixed", "lowrank", "product", "ghz", "maxmixed", "nearpure", "diag"]


# ----------------------------------------------------------------------------- generators (numpy only)
def _rand_pure(rng, n):
    v = rng.normal(size=2**n) + 1j * rng.normal(size=2**n)
    return v / np.linalg.norm(v)


def gen_state(rng, n, kind):
    """Returns (rho, psi or None, info) with info['spec'] = exact eigenvalue spectrum when known (descending)."""
    d = 2**n
    if kind == "haar":
        psi = _rand_pure(rng, n)
        return np.outer(psi, psi.conj()), psi, {"rank": 1}
    if kind == "product":
        psi = np.array([1.0 + 0j])
        for _ in range(n):
            psi = np.kron(psi, _rand_pure(rng, 1))
        psi = psi / np.linalg.norm(psi)
        return np.outer(psi, psi.conj()), psi, {"rank": 1}
    if kind == "ghz":
        psi = np.zeros(d, dtype=complex)
        psi[0] = psi[-1] = 1 / math.sqrt(2)
        if n == 1:
            psi = np.array([1, 1j]) / math.sqrt(2)
        return np.outer(psi, psi.conj()), psi, {"rank": 1}
    if kind == "maxmixed":
        return np.eye(d, dtype=complex) / d, None, {"rank": d}
    if kind == "diag":  # exactly representable spectrum with exact zeros
        r = int(rng.integers(1, d + 1))
        p = np.zeros(d)
        p[rng.choice(d, size=r, replace=False)] = 1.0 / r
        return np.diag(p).astype(complex), None, {"rank": r}
    # spectral constructions: U diag(p) U^dagger
    G = rng.normal(size=(d, d)) + 1j * rng.normal(size=(d, d))
    Q, R = np.linalg.qr(G)
    Q = Q * (np.diag(R) / np.abs(np.diag(R)))
    if kind == "mixed":
        p = rng.dirichlet(np.ones(d)) * 0.9 + 0.1 / d  # all eigenvalues >= 0.1/d
        r = d
    elif kind == "lowrank":
        r = int(rng.integers(1, d)) if d > 1 else 1
        p = np.zeros(d)
        p[:r] = rng.dirichlet(np.ones(r)) * 0.9 + 0.1 / r
    elif kind == "nearpure":
        p = np.full(d, 1e-12)
        p[0] = 1 - 1e-12 * (d - 1)
        r = d
    else:
        raise ValueError(kind)
    rho = (Q * p) @ Q.conj().T
    rho = (rho + rho.conj().T) / 2
    rho = rho / np.trace(rho).real
    return rho, None, {"rank": r}


def convert(iface, x, mods):
    """Harness-side conversion numpy -> interface (never qp.math)."""
    x = np.asarray(x)
    if iface == "numpy":
        return x.copy()
    if iface == "list":
        return x.tolist()
    if iface == "autograd":
        return mods["pnp"].array(x, requires_grad=True)
    if iface == "jax":
        return mods["jnp"].asarray(x)
    if iface == "torch":
        return mods["torch"].tensor(x)
    raise ValueError(iface)


def back(y):
    """Harness-side conversion of a result to numpy."""
    t = type(y).__module__
    if t.startswith("torch"):
        return y.detach().cpu().resolve_conj().numpy()
    if hasattr(y, "toarray") and not isinstance(y, np.ndarray):
        return np.asarray(y.toarray())
    return np.asarray(y)


# ----------------------------------------------------------------------------- reference formulas
def r_eigs(rho):
    return np.linalg.eigvalsh((rho + rho.conj().T) / 2)


def r_entropy(rho, base=None):
    ev = r_eigs(rho)
    ev = ev[ev > 1e-15]
    s = float(-(ev * np.log(ev)).sum())
    return s / math.log(base) if base else s


def r_sqrt(rho):
    w, v = np.linalg.eigh((rho + rho.conj().T) / 2)
    w = np.clip(w, 0, None)
    return (v * np.sqrt(w)) @ v.conj().T


def r_fidelity(rho, sig):
    s = np.linalg.svd(r_sqrt(rho) @ r_sqrt(sig), compute_uv=False)
    return float(s.sum() ** 2)


def r_trace_distance(rho, sig):
    return float(0.5 * np.linalg.svd(rho - sig, compute_uv=False).sum())


def r_relative_entropy(rho, sig, base=None):
    """Tr rho (log rho − log sigma); inf when supp(rho) is not inside supp(sigma).  Eigenvalues < 1e-13 are zeros."""
    wr, vr = np.linalg.eigh((rho + rho.conj().T) / 2)
    ws, vs = np.linalg.eigh((sig + sig.conj().T) / 2)
    ov = np.abs(vr.conj().T @ vs) ** 2  # ov[i, j] = |<r_i|s_j>|^2
    tot = 0.0
    for i, a in enumerate(wr):
        if a <= 1e-13:
            continue
        tot += a * math.log(a)
        for j, b in enumerate(ws):
            if b <= 1e-13:
                if ov[i, j] > 1e-9:
                    return math.inf
                continue
            tot -= a * ov[i, j] * math.log(b)
    return tot / math.log(base) if base else tot


def r_expand_vector(v, wires, ew):
    n, m = len(wires), len(ew)
    out = np.zeros(2**m, dtype=np.asarray(v).dtype)
    pos = [ew.index(w) for w in wires]
    for bits in itertools.product([0, 1], repeat=m):
        src = 0
        for p in pos:
            src = 2 * src + bits[p]
        dst = 0
        for b in bits:
            dst = 2 * dst + b
        out[dst] = v[src]
    return out


# ----------------------------------------------------------------------------- the check
def run(ctx):
    import pennylane as qp
    import jax
    import jax.numpy as jnp
    import torch
    from pennylane import numpy as pnp
    import scipy.sparse as sps

    from pv.ref import sv

    jax.config.update("jax_enable_x64", True)
    mods = {"pnp": pnp, "jnp": jnp, "torch": torch}
    qm = qp.math

    seen_mech = {}

    def viol(mon, msg, case=None, mech=None, **kw):
        """At most 3 witnesses per mechanism and shard (a frequent mechanism must not crowd out a new one)."""
        seen_mech[mech] = seen_mech.get(mech, 0) + 1
        ctx.count(f"viol/{mech}")
        if seen_mech[mech] <= 3:
            ctx.violation(mon, msg, case=case, mech=mech, **kw)

    def cmp(mon, fn, got, ref, tol, info, mech=None):
        """One oracle evaluation: real result vs. reference (shape and values)."""
        ctx.ev(mon)
        try:
            g = back(got)
        except Exception as e:  # noqa: BLE001
            viol(mon, f"{fn}: result not convertible: {type(e).__name__}: {e}", case=info, mech=f"{fn}:unconvertible")
            return False
        ref = np.asarray(ref)
        if g.shape != ref.shape:
            viol(mon, f"{fn}: shape {g.shape} != expected {ref.shape}", case=info, mech=mech or f"{fn}:shape",
                          observed=list(g.shape), expected=list(ref.shape))
            return False
        with np.errstate(invalid="ignore"):
            both_inf = np.isinf(ref) & np.isinf(g) & (np.sign(ref.real) == np.sign(g.real))
            diff = np.where(both_inf, 0.0, np.abs(g - ref))
        err = float(np.max(diff)) if diff.size else 0.0
        scale = max(1.0, float(np.max(np.abs(ref[np.isfinite(ref)]))) if np.isfinite(ref).any() else 1.0)
        if not err <= tol * scale:  # also catches nan
            viol(mon, f"{fn}: differs from its definition by {err:.3e} (tol {tol * scale:.1e})", case=info,
                          mech=mech or f"{fn}:value", observed=g, expected=ref)
            return False
        return True

    def bound(mon, fn, ok, msg, info, mech):
        ctx.ev(mon)
        if not ok:
            viol(mon, f"{fn}: {msg}", case=info, mech=mech)

    def call(mon, fn, info, *a, **k):
        """Call the real function; an exception on a valid input is a violation candidate."""
        try:
            return True, getattr(qm, fn)(*a, **k)
        except Exception as e:  # noqa: BLE001
            ctx.ev(mon)
            viol(mon, f"{fn} raised {type(e).__name__}: {str(e)[:300]}", case=info, mech=f"{fn}:raises:{type(e).__name__}")
            return False, None

    def rand_subset(rng, n, lo=1, hi=None, proper=False):
        hi = hi if hi is not None else n
        if proper:
            hi = min(hi, n - 1)
        k = int(rng.integers(lo, hi + 1))
        return [int(x) for x in rng.permutation(n)[:k]]

    import time as _time
    _t0 = _time.monotonic()

    def more():
        """Soft budget counted from the end of the imports (under load importing pennylane+jax+torch alone can take > 100 s)."""
        return (_time.monotonic() - _t0 < ctx.budget_s) or ctx.more()

    N = ctx.n(1400, 160000)
    FAMS = ["contract", "entropy", "pair", "expand", "misc", "expand", "pair"]
    for i in range(N):
        if not more():
            break
        gi = ctx.shard + i * ctx.nshards
        ctx.case_index = gi
        rng = ctx.case_rng(gi)
        fam = FAMS[int(rng.integers(len(FAMS)))]
        # jax compiles every new (op, shape) pair (~0.1 s each): fewer jax cases, on a small set of shapes
        iface = IFACES[int(rng.choice(5, p=[0.30, 0.23, 0.06, 0.26, 0.15]))]
        n = int(rng.choice([1, 2, 2, 3, 3, 3, 4, 4, 5])) if not ctx.quick else int(rng.choice([1, 2, 2, 3, 3, 4, 5]))
        B = None if rng.random() < 0.6 else int(rng.integers(1, 4))
        if iface == "jax":
            n = 2 if rng.random() < 0.7 else 3
            B = None if rng.random() < 0.6 else 2
        c64 = rng.random() < 0.12 and iface != "list"
        cd = "complex64" if c64 else "complex128"
        tolc = 2e-5 if c64 else 1e-9
        tole = 2e-4 if c64 else 1e-8
        tolf = 3e-3 if c64 else 1e-6
        kw = {"c_dtype": cd}
        if rng.random() < 0.2 and not c64:
            kw["check_state"] = True
        base = [None, None, 2, 10, float(np.e), 3.5][int(rng.integers(6))]

        def conv(x):
            return convert(iface, x, mods)

        def states(kinds=None, nn=None):
            nn = nn or n
            ks = [KINDS[int(rng.integers(len(KINDS)))] if kinds is None else kinds[int(rng.integers(len(kinds)))] for _ in range(B or 1)]
            S = [gen_state(rng, nn, k) for k in ks]
            return ks, S

        # ================================================================ contraction family
        if fam == "contract":
            ks, S = states()
            rhos = np.stack([s[0] for s in S])
            arr = rhos if B else rhos[0]
            idx = rand_subset(rng, n)
            info = {"fam": fam, "iface": iface, "n": n, "batch": B, "kinds": ks, "indices": idx, "kw": kw}
            nontriv = n >= 2 and (len(idx) < n or idx != sorted(idx) or B is not None)
            ctx.case(fingerprint(fam, iface, arr, idx, cd), nontrivial=nontriv, cls=f"contract/{iface}", sample=info)
            x = conv(arr)
            ref = np.stack([sv.reduced_dm(r, list(range(n)), idx) for r in rhos])
            ref = ref if B else ref[0]
            ok, out = call("qinfo.contract", "reduce_dm", info, x, idx, **kw)
            if ok:
                cmp("qinfo.contract", "reduce_dm", out, ref, tolc, info)
            # partial_trace: trace out the complement -> kept wires in increasing order
            traced = [int(t) for t in rng.permutation([w for w in range(n) if w not in idx])]
            if traced:
                refp = np.stack([sv.reduced_dm(r, list(range(n)), sorted(idx)) for r in rhos])
                refp = refp if B else refp[0]
                ok, out = call("qinfo.contract", "partial_trace", {**info, "traced": traced}, x, traced, c_dtype=cd)
                if ok:
                    cmp("qinfo.contract", "partial_trace", out, refp, tolc, {**info, "traced": traced})
            # purity of the subsystem
            refpu = np.array([np.trace(sv.reduced_dm(r, list(range(n)), idx) @ sv.reduced_dm(r, list(range(n)), idx)).real for r in rhos])
            refpu = refpu if B else refpu[0]
            ok, out = call("qinfo.contract", "purity", info, x, idx, **kw)
            if ok and cmp("qinfo.contract", "purity", out, refpu, tolc, info):
                g = back(out).real
                bound("qinfo.contract", "purity", bool(np.all(g <= 1 + 10 * tolc) and np.all(g >= 2.0 ** (-len(idx)) - 10 * tolc)),
                      f"purity {g} outside [1/d, 1]", info, "purity:bound")
            # state-vector versions when every batch member is pure
            if all(s[1] is not None for s in S) or rng.random() < 0.5:
                psis = np.stack([s[1] if s[1] is not None else _rand_pure(rng, n) for s in S])
                parr = psis if B else psis[0]
                px = conv(parr)
                pinfo = {**info, "kinds": [k if s[1] is not None else "haar" for k, s in zip(ks, S)], "statevector": True}
                refs = np.stack([sv.reduced_dm(np.outer(p, p.conj()), list(range(n)), idx) for p in psis])
                refs = refs if B else refs[0]
                ok, out = call("qinfo.contract", "reduce_statevector", pinfo, px, idx, **kw)
                if ok:
                    cmp("qinfo.contract", "reduce_statevector", out, refs, tolc, pinfo)
                reff = np.stack([np.outer(p, p.conj()) for p in psis])
                reff = reff if B else reff[0]
                ok, out = call("qinfo.contract", "dm_from_state_vector", pinfo, px, **kw)
                if ok:
                    cmp("qinfo.contract", "dm_from_state_vector", out, reff, tolc, pinfo)
            continue

        # ================================================================ entropy family
        if fam == "entropy":
            ks, S = states()
            rhos = np.stack([s[0] for s in S])
            arr = rhos if B else rhos[0]
            idx = rand_subset(rng, n)
            info = {"fam": fam, "iface": iface, "n": n, "batch": B, "kinds": ks, "indices": idx, "base": base, "kw": kw}
            nontriv = n >= 2 and any(k not in ("product",) for k in ks)
            ctx.case(fingerprint(fam, iface, arr, idx, base, cd), nontrivial=nontriv, cls=f"entropy/{iface}", sample=info)
            x = conv(arr)
            L = math.log(base) if base else 1.0
            red = [sv.reduced_dm(r, list(range(n)), idx) for r in rhos]
            refS = np.array([r_entropy(r, base) for r in red])
            refS = refS if B else refS[0]
            ok, out = call("qinfo.entropy", "vn_entropy", info, x, idx, base=base, **kw)
            if ok and cmp("qinfo.entropy", "vn_entropy", out, refS, tole, info):
                g = back(out).real
                bound("qinfo.entropy", "vn_entropy", bool(np.all(g >= -10 * tole) and np.all(g <= len(idx) * math.log(2) / L + 10 * tole)),
                      f"entropy {g} outside [0, k log 2]", info, "vn_entropy:bound")
            # min entropy −log(max eigenvalue)
            refmin = np.array([-math.log(max(r_eigs(r))) / L for r in red])
            refmin = refmin if B else refmin[0]
            ok, out = call("qinfo.entropy", "min_entropy", info, x, idx, base=base, **kw)
            if ok:
                collapsed = B is not None and np.shape(back(out)) == ()
                cmp("qinfo.entropy", "min_entropy", out, refmin, tole, info, mech="min_entropy:batch-collapsed" if collapsed else None)
            # max entropy log(rank): only when the reduced spectra are unambiguous (non-zero >= 1e-4, zero < 1e-13)
            evs = [r_eigs(r) for r in red]
            if not c64 and all(np.all((e > 1e-4) | (np.abs(e) < 1e-13)) for e in evs):
                refmax = np.array([math.log(int((e > 1e-4).sum())) / L for e in evs])
                refmax = refmax if B else refmax[0]
                ok, out = call("qinfo.entropy", "max_entropy", info, x, idx, base=base, **kw)
                if ok:
                    cmp("qinfo.entropy", "max_entropy", out, refmax, 1e-3 if c64 else 1e-7, info)
                    ctx.cover("max_entropy")
            # mutual information between two disjoint subsets
            if n >= 2:
                perm = [int(t) for t in rng.permutation(n)]
                a = int(rng.integers(1, n))
                b = int(rng.integers(1, n - a + 1))
                i0, i1 = perm[:a], perm[a:a + b]
                minfo = {**info, "indices0": i0, "indices1": i1}
                refI = []
                for r in rhos:
                    sa = r_entropy(sv.reduced_dm(r, list(range(n)), i0), base)
                    sb = r_entropy(sv.reduced_dm(r, list(range(n)), i1), base)
                    sab = r_entropy(sv.reduced_dm(r, list(range(n)), i0 + i1), base)
                    refI.append(sa + sb - sab)
                refI = np.array(refI) if B else np.array(refI[0])
                ok, out = call("qinfo.entropy", "mutual_info", minfo, x, i0, i1, base=base, **kw)
                if ok and cmp("qinfo.entropy", "mutual_info", out, refI, 3 * tole, minfo):
                    bound("qinfo.entropy", "mutual_info", bool(np.all(back(out).real >= -30 * tole)), f"negative mutual information {back(out)}", minfo,
                          "mutual_info:negative")
                # entanglement entropy of a pure state between complementary parts: S(A) = S(B)
                pk, PS = states(kinds=["haar", "product", "ghz"])
                psis = np.stack([s[1] for s in PS])
                prho = np.stack([s[0] for s in PS])
                parr = prho if B else prho[0]
                i0, i1 = perm[:a], perm[a:]
                einfo = {**info, "kinds": pk, "indices0": i0, "indices1": i1}
                refE = np.array([r_entropy(sv.reduced_dm(r, list(range(n)), i0), base) for r in prho])
                refE2 = np.array([r_entropy(sv.reduced_dm(r, list(range(n)), i1), base) for r in prho])
                refE = refE if B else refE[0]
                ok, out = call("qinfo.entropy", "vn_entanglement_entropy", einfo, conv(parr), i0, i1, base=base, **kw)
                if ok:
                    cmp("qinfo.entropy", "vn_entanglement_entropy", out, refE, tole, einfo)
                    ok2, out2 = call("qinfo.entropy", "vn_entanglement_entropy", einfo, conv(parr), i1, i0, base=base, **kw)
                    if ok2:
                        cmp("qinfo.entropy", "vn_entanglement_entropy", out2, refE2 if B else refE2[0], tole, {**einfo, "swapped": True})
            continue

        # ================================================================ pair family
        if fam == "pair":
            # relative-entropy classes need controlled supports
            cls = ["any", "any", "full-full", "low-full", "mismatch", "pure-pure"][int(rng.integers(6))]
            if cls == "full-full":
                k0, S0 = states(kinds=["mixed", "maxmixed"])
                k1, S1 = states(kinds=["mixed", "maxmixed"])
            elif cls == "low-full":
                k0, S0 = states(kinds=["lowrank", "haar", "diag", "product"])
                k1, S1 = states(kinds=["mixed", "maxmixed"])
            elif cls == "mismatch":
                k0, S0 = states(kinds=["mixed", "maxmixed"])
                k1, S1 = states(kinds=["lowrank", "haar", "ghz"])
            elif cls == "pure-pure":
                k0, S0 = states(kinds=["haar", "product", "ghz"])
                k1, S1 = states(kinds=["haar", "product", "ghz"])
            else:
                k0, S0 = states()
                k1, S1 = states()
            # one-sided batching (documented: a single element is broadcast against a batch)
            onesided = B is not None and rng.random() < 0.3
            r0 = np.stack([s[0] for s in S0])
            r1 = np.stack([s[0] for s in S1])
            a0 = r0 if B else r0[0]
            a1 = r1[0] if (onesided or not B) else r1
            if onesided:
                r1 = np.stack([r1[0]] * B)
                S1 = [S1[0]] * B
            info = {"fam": fam, "iface": iface, "n": n, "batch": B, "onesided": bool(onesided), "kinds0": k0, "kinds1": k1, "cls": cls, "base": base, "kw": kw}
            ctx.case(fingerprint(fam, iface, a0, a1, base, cd), nontrivial=n >= 2 or cls != "any", cls=f"pair/{cls}/{iface}", sample=info)
            x0, x1 = conv(a0), conv(a1)

            def shp(v):
                v = np.array(v)
                return v if B else v[0]

            # ---- fidelity
            refF = shp([r_fidelity(p, q) for p, q in zip(r0, r1)])
            ok, out = call("qinfo.pair", "fidelity", info, x0, x1, **kw)
            gF = None
            if ok and cmp("qinfo.pair", "fidelity", out, refF, tolf, info):
                gF = back(out).real
                bound("qinfo.pair", "fidelity", bool(np.all(gF >= -tolf) and np.all(gF <= 1 + tolf)), f"fidelity {gF} outside [0,1]", info, "fidelity:range")
                ok2, out2 = call("qinfo.pair", "fidelity", info, x1, x0, **kw)
                if ok2:
                    cmp("qinfo.pair", "fidelity(sym)", out2, gF, 2 * tolf, {**info, "swapped": True}, mech="fidelity:asymmetric")
            if all(s[1] is not None for s in S0) and all(s[1] is not None for s in S1):
                p0 = np.stack([s[1] for s in S0])
                p1 = np.stack([s[1] for s in S1])
                refO = shp([abs(np.vdot(u, v)) ** 2 for u, v in zip(p0, p1)])
                ok, out = call("qinfo.pair", "fidelity_statevector", info, conv(p0 if B else p0[0]), conv(p1[0] if (onesided or not B) else p1), **kw)
                if ok:
                    cmp("qinfo.pair", "fidelity_statevector", out, refO, tolc, info)
                if gF is not None:
                    cmp("qinfo.pair", "fidelity(pure)=|<psi|phi>|^2", gF, refO, tolf, info, mech="fidelity:pure-overlap")
            # ---- trace distance
            refT = shp([r_trace_distance(p, q) for p, q in zip(r0, r1)])
            ok, out = call("qinfo.pair", "trace_distance", info, x0, x1, **kw)
            if ok and cmp("qinfo.pair", "trace_distance", out, refT, tolc * 10, info):
                gT = back(out).real
                bound("qinfo.pair", "trace_distance", bool(np.all(gT >= -tolc) and np.all(gT <= 1 + 10 * tolc)), f"trace distance {gT} outside [0,1]", info,
                      "trace_distance:range")
                ok2, out2 = call("qinfo.pair", "trace_distance", info, x1, x0, **kw)
                if ok2:
                    cmp("qinfo.pair", "trace_distance(sym)", out2, gT, 10 * tolc, {**info, "swapped": True}, mech="trace_distance:asymmetric")
                if gF is not None:
                    F = np.clip(gF, 0, 1)
                    bound("qinfo.pair", "fuchs-van-de-graaf", bool(np.all(gT <= np.sqrt(1 - F) + 10 * math.sqrt(tolf)) and np.all(1 - np.sqrt(F) <= gT + 10 * tolf)),
                          f"1-sqrt(F) <= T <= sqrt(1-F) broken: T={gT}, F={gF}", info, "fvdg")
                # triangle inequality with a third state
                k2, S2 = states()
                r2 = np.stack([s[0] for s in S2])
                ok3, o02 = call("qinfo.pair", "trace_distance", info, x0, conv(r2 if B else r2[0]), **kw)
                ok4, o12 = call("qinfo.pair", "trace_distance", info, x1, conv(r2 if B else r2[0]), **kw)
                if ok3 and ok4:
                    bound("qinfo.pair", "trace_distance", bool(np.all(gT <= back(o02).real + back(o12).real + 100 * tolc)), "triangle inequality broken", info,
                          "trace_distance:triangle")
            # ---- relative entropy
            if cls != "any" and not c64:
                refR = shp([r_relative_entropy(p, q, base) for p, q in zip(r0, r1)])
                kwr = {k: v for k, v in kw.items()}
                ok, out = call("qinfo.pair", "relative_entropy", info, x0, x1, base=base, **kwr)
                if ok:
                    # mechanism classifier: is a numerically rank-deficient state (eigenvalue |x| < 1e-13) involved?
                    deficient = any(np.min(np.abs(r_eigs(r))) < 1e-13 for r in list(r0) + list(r1))
                    tag = "rank-deficient-eigs" if deficient else "value"
                    if cmp("qinfo.pair", "relative_entropy", out, refR, 1e-7, info, mech=f"relative_entropy:{tag}"):
                        bound("qinfo.pair", "relative_entropy", bool(np.all(back(out).real >= -1e-7)), f"negative relative entropy {back(out)}", info,
                              "relative_entropy:negative")
                    ctx.cover(f"relative_entropy/{cls}")
            continue

        # ================================================================ expansion family
        if fam == "expand":
            from pv.gen import num
            k = int(rng.integers(1, min(n, 3) + 1))
            m = int(rng.integers(k, min(k + 3, 6) + 1))
            labels = num.wire_labels(rng, m)
            wires = [labels[int(t)] for t in rng.permutation(m)[:k]]
            order = [labels[int(t)] for t in rng.permutation(m)]
            sub = rng.random()
            if sub < 0.25:  # expand_vector
                v = rng.normal(size=2**k) + (1j * rng.normal(size=2**k) if rng.random() < 0.5 else 0)
                info = {"fam": "expand_vector", "iface": iface, "wires": wires, "order": order}
                ctx.case(fingerprint("ev", iface, v, wires, order), nontrivial=m > k or wires != order, cls=f"expand_vector/{iface}", sample=info)
                ok, out = call("qinfo.expand", "expand_vector", info, conv(v) if iface != "list" else np.asarray(v), wires, order)
                if ok:
                    cmp("qinfo.expand", "expand_vector", out, r_expand_vector(v, wires, order), 1e-12, info)
                continue
            Bm = None if rng.random() < 0.55 else int(rng.integers(1, 4))
            real = rng.random() < 0.3
            M = rng.normal(size=((Bm or 1), 2**k, 2**k))
            if not real:
                M = M + 1j * rng.normal(size=M.shape)
            if rng.random() < 0.3:
                M[np.abs(M) < 0.8] = 0  # sparse-ish structure
            ref = np.stack([sv.embed(Mi, wires, order) for Mi in M])
            sparse = sub > 0.85 and Bm is None
            info = {"fam": "expand_matrix", "iface": "scipy" if sparse else iface, "wires": wires, "order": order, "batch": Bm, "real": bool(real)}
            ctx.case(fingerprint("em", info["iface"], M, wires, order, Bm), nontrivial=m > k or wires != order[:k], cls=f"expand_matrix/{info['iface']}", sample=info)
            if sparse:
                fmt = ["csr", "csc", "coo"][int(rng.integers(3))]
                ok, out = call("qinfo.expand", "expand_matrix", info, sps.csr_matrix(M[0]), wires, order, sparse_format=fmt)
                if ok:
                    ctx.ev("qinfo.expand")
                    # documented: when wire_order equals wires the original matrix is returned unchanged
                    if not sps.issparse(out) or (out.format != fmt and order != wires):
                        viol("qinfo.expand", f"expand_matrix(sparse): result is {type(out).__name__}, asked for {fmt}", case=info, mech="expand_matrix:sparse-format")
                    else:
                        cmp("qinfo.expand", "expand_matrix", out, ref[0], 1e-12, info, mech="expand_matrix:sparse-value")
                continue
            arr = M if Bm else M[0]
            ok, out = call("qinfo.expand", "expand_matrix", info, conv(arr) if iface != "list" else np.asarray(arr), wires, order)
            if ok:
                cmp("qinfo.expand", "expand_matrix", out, ref if Bm else ref[0], 1e-12, info,
                    mech=("expand_matrix:batch" if Bm else "expand_matrix:value"))
            continue

        # ================================================================ misc family
        if fam == "misc":
            sub = int(rng.integers(4))
            if sub == 0:  # sqrt_matrix
                ks, S = states()
                rhos = np.stack([s[0] for s in S])
                arr = rhos if B else rhos[0]
                info = {"fam": "sqrt_matrix", "iface": iface, "n": n, "batch": B, "kinds": ks}
                ctx.case(fingerprint("sqrt", iface, arr), nontrivial=n >= 2 or any(k in ("mixed", "lowrank") for k in ks), cls=f"sqrt_matrix/{iface}", sample=info)
                ok, out = call("qinfo.misc", "sqrt_matrix", info, conv(arr) if iface != "list" else np.asarray(arr))
                if ok:
                    ref = np.stack([r_sqrt(r) for r in rhos])
                    # sqrt amplifies O(1e-16) eigenvalue noise to O(1e-8)
                    if cmp("qinfo.misc", "sqrt_matrix", out, ref if B else ref[0], 1e-6, info):
                        g = back(out)
                        g = g if B else g[None]
                        cmp("qinfo.misc", "sqrt_matrix(square)", np.stack([a @ a for a in g]), rhos, 1e-9, info, mech="sqrt_matrix:square")
                if iface == "numpy" and B is None and all(k in ("mixed", "maxmixed") for k in ks):
                    try:
                        out = qm.sqrt_matrix_sparse(sps.csr_matrix(arr))
                        o = back(out)
                        cmp("qinfo.misc", "sqrt_matrix_sparse(square)", o @ o, arr, 1e-8, info, mech="sqrt_matrix_sparse:square")
                    except ValueError:
                        ctx.reject("sqrt_matrix_sparse:no-convergence")  # documented: raises ValueError when not converged
            elif sub == 1:  # marginal_prob
                p = rng.dirichlet(np.ones(2**n))
                ax = sorted(rand_subset(rng, n))
                info = {"fam": "marginal_prob", "iface": iface, "n": n, "axis": ax}
                ctx.case(fingerprint("mp", iface, p, ax), nontrivial=n >= 2 and len(ax) < n, cls=f"marginal_prob/{iface}", sample=info)
                ok, out = call("qinfo.misc", "marginal_prob", info, conv(p) if iface != "list" else np.asarray(p), ax)
                if ok:
                    T = p.reshape([2] * n)
                    ref = np.zeros(2 ** len(ax))
                    for bits in itertools.product([0, 1], repeat=n):
                        j = 0
                        for a in ax:
                            j = 2 * j + bits[a]
                        ref[j] += T[bits]
                    cmp("qinfo.misc", "marginal_prob", out, ref, 1e-12, info)
            elif sub == 2:  # expectation_value
                psis = np.stack([_rand_pure(rng, n) for _ in range(B or 1)])
                A = rng.normal(size=((B or 1), 2**n, 2**n)) + 1j * rng.normal(size=((B or 1), 2**n, 2**n))
                A = A + np.conj(np.transpose(A, (0, 2, 1)))
                opb = B is not None and rng.random() < 0.7
                stb = B is not None and (not opb or rng.random() < 0.7)
                info = {"fam": "expectation_value", "iface": iface, "n": n, "batch": B, "op_batched": bool(opb), "state_batched": bool(stb), "kw": kw}
                ctx.case(fingerprint("ev", iface, psis, A, opb, stb), nontrivial=n >= 2, cls=f"expectation_value/{iface}", sample=info)
                nb = B if (opb or stb) else 1
                ref = np.array([np.vdot(psis[j if stb else 0], A[j if opb else 0] @ psis[j if stb else 0]) for j in range(nb)])
                ref = ref if (opb or stb) else ref[0]
                kwe = dict(kw)
                if kwe.get("check_state"):
                    kwe["check_operator"] = True
                ok, out = call("qinfo.misc", "expectation_value", info, conv(A if opb else A[0]), conv(psis if stb else psis[0]), **kwe)
                if ok:
                    cmp("qinfo.misc", "expectation_value", out, ref, tolc * 2**n, info)
            else:  # choi_matrix
                nn = 1 if n > 2 else n
                d = 2**nn
                nk = int(rng.integers(1, 4))
                Us = [sv.haar_unitary(rng, d) for _ in range(nk)]
                w = rng.dirichlet(np.ones(nk))
                Ks = [math.sqrt(wi) * U for wi, U in zip(w, Us)]
                info = {"fam": "choi_matrix", "iface": iface, "n": nn, "n_kraus": nk}
                ctx.case(fingerprint("choi", iface, np.stack(Ks)), nontrivial=nk > 1 or nn > 1, cls=f"choi_matrix/{iface}", sample=info)
                ci = iface if iface != "list" else "numpy"
                ok, out = call("qinfo.misc", "choi_matrix", info, [convert(ci, K, mods) for K in Ks], check_Ks=bool(rng.random() < 0.5))
                if ok:
                    ref = np.zeros((d * d, d * d), dtype=complex)
                    for a in range(d):
                        for b in range(d):
                            E = np.zeros((d, d), dtype=complex)
                            E[a, b] = 1
                            ref += np.kron(E, sum(K @ E @ K.conj().T for K in Ks)) / d
                    if cmp("qinfo.misc", "choi_matrix", out, ref, 1e-10, info):
                        g = back(out)
                        bound("qinfo.misc", "choi_matrix", abs(np.trace(g) - 1) < 1e-9 and np.linalg.eigvalsh((g + g.conj().T) / 2).min() > -1e-9,
                              "Choi matrix is not a state", info, "choi:not-a-state")
            continue
