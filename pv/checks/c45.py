"""C45 — Wires behave as an ordered set of labels.

Deciding monitors: post-conditions on every public ``Wires`` constructor / method / dunder against an ordered-set
model (a Python list without duplicates + builtin ``set`` algebra).  What is demanded follows the documentation:

* constructor, ``+``/``__radd__``, ``all_wires``, ``shared_wires``, ``unique_wires``, ``index``, ``indices``, ``map``,
  ``subset``, slicing, iteration: ORDER is documented and checked;
* ``union / intersection / difference / symmetric_difference`` and ``| & - ^`` (incl. reflected forms): only the label
  SET is documented (the implementation goes through ``set``), so only set equality + uniqueness is demanded;
* every ``Wires`` object that comes out of any call must hold unique labels (class docstring: "ordered collections of
  unique objects"; statement: "Wires objects reject duplicates").
"""
from pv.ctx import fingerprint

META = {
    "id": "C45",
    "level": "exploration",
    "technique": "runtime post-conditions on every public Wires method/dunder vs. an ordered-set (list + builtin set) model, "
                 "random label lists and random operation histories",
    "level_text": "Random label lists (ints, negative ints, single/multi-character strings, tuples, numpy ints) drawn from a "
                  "small pool so that operands overlap are pushed through the real Wires class; every result is compared "
                  "with a Python list/set model (order where the docs promise order, label set otherwise), documented "
                  "WireError rejections are demanded for duplicates / missing labels / incomplete or non-injective maps, "
                  "and a random history re-uses results as operands.  Every Wires object produced is checked for unique labels.",
    "level_note": "Trusts Python list/set/dict semantics (label identity = hash/eq, as documented). Float labels, abstract "
                  "(traced) labels, one-shot iterators as constructor input and numpy-int labels mixed with tuple labels "
                  "(numpy's == broadcasts over the tuple) are outside the statement's quantifier and are not driven. "
                  "Order of union/intersection/difference/symmetric_difference is not documented and not demanded. "
                  "Out-of-range subset indices are counted as rejections whatever exception type is raised.",
    "design_ref": "7/C45",
    "shards": {"quick": 2, "thorough": 16},
    "budget_s": {"quick": 40, "thorough": 300},
    "min_evals": {"quick": 20000, "thorough": 400000},
    "deciding": ["wires.construct", "wires.setops", "wires.helpers", "wires.indexing", "wires.eqhash", "wires.unique_invariant"],
    "allow_rejections": True,  # rejections are counted per call (WireError on invalid operands), cases per operand triple
    "rule": "three label lists per case drawn without replacement from a per-case pool of 4-12 labels (flavours: ints / "
            "ints+strings / ints+strings+tuples / numpy-ints+ints+strings); distinct = distinct (A,B,C) repr; "
            "non-trivial = A and B both non-empty, overlapping but not equal as sets",
    "assumptions": ["list/set model of the documented semantics is correct",
                    "label identity is Python hash/eq (documented in wires.py::_process)"],
}

STRS = ["a", "b", "c", "aux", "q0", "q1", "0", "1", "ab", "anc", ""]
TUPS = [(0, 1), (1, 0), ("a", 0), (1,), (), (0, 1, 2), ("a", "b"), ((0, 1), 2)]


def make_pool(rng, np):
    flavour = int(rng.integers(4))
    k = int(rng.integers(4, 13))
    cand = [int(x) for x in range(-3, 13)]
    if flavour >= 1:
        cand = cand + STRS
    if flavour == 2:
        cand = cand + TUPS
    idx = rng.permutation(len(cand))[:k]
    pool = [cand[int(i)] for i in idx]
    if flavour == 3:
        pool = [np.int64(x) if isinstance(x, int) and rng.random() < 0.5 else x for x in pool]
    return flavour, pool


def draw(rng, pool, allow_empty=True):
    lo = 0 if allow_empty and rng.random() < 0.08 else 1
    n = int(rng.integers(lo, len(pool) + 1))
    idx = rng.permutation(len(pool))[:n]
    return [pool[int(i)] for i in idx]


def uniq(seq):
    return list(dict.fromkeys(seq))


def lab_repr(L):
    return repr([(type(x).__name__, x if not hasattr(x, "item") else int(x)) for x in L])


class Mon:
    def __init__(self, ctx, Wires, WireError):
        self.ctx, self.Wires, self.WireError = ctx, Wires, WireError
        self.case = None

    # -- helpers -------------------------------------------------------------------------------
    def viol(self, mon, msg, mech, observed=None, expected=None):
        self.ctx.violation(mon, msg, case=self.case, mech=mech, observed=observed, expected=expected)

    def unique(self, r, what, mech):
        """Every Wires object that comes out of the real code must hold unique labels."""
        self.ctx.ev("wires.unique_invariant")
        labs = list(r.labels)
        if len(set(labs)) != len(labs):
            self.viol("wires.unique_invariant", f"{what} returned a Wires object with duplicate labels: {r!r}", mech,
                      observed=repr(r))
            return False
        return True

    def ordered(self, mon, what, f, exp, mech):
        """f() must return Wires whose labels == exp in order."""
        self.ctx.ev(mon)
        try:
            r = f()
        except Exception as e:  # noqa: BLE001
            self.viol(mon, f"{what} raised {type(e).__name__}: {e}", mech + ":raise", expected=repr(exp))
            return None
        if not isinstance(r, self.Wires):
            self.viol(mon, f"{what} returned {type(r).__name__}, not Wires", mech + ":type", observed=repr(r))
            return None
        if not self.unique(r, what, mech + ":duplicates"):
            return r
        if list(r.labels) != list(exp) or not isinstance(r.labels, tuple):
            self.viol(mon, f"{what} = {r!r}, ordered-set model says {exp!r}", mech, observed=repr(r), expected=repr(exp))
        return r

    def unordered(self, mon, what, f, exp_set, mech):
        """f() must return Wires whose label SET == exp_set (order not documented)."""
        self.ctx.ev(mon)
        try:
            r = f()
        except Exception as e:  # noqa: BLE001
            self.viol(mon, f"{what} raised {type(e).__name__}: {e}", mech + ":raise", expected=repr(exp_set))
            return None
        if not isinstance(r, self.Wires):
            self.viol(mon, f"{what} returned {type(r).__name__}, not Wires", mech + ":type", observed=repr(r))
            return None
        if not self.unique(r, what, mech + ":duplicates"):
            return r
        if set(r.labels) != exp_set or len(r) != len(exp_set):
            self.viol(mon, f"{what} = {r!r}, set model says {sorted(exp_set, key=repr)!r}", mech, observed=repr(r),
                      expected=repr(sorted(exp_set, key=repr)))
        return r

    def value(self, mon, what, f, exp, mech):
        self.ctx.ev(mon)
        try:
            r = f()
        except Exception as e:  # noqa: BLE001
            self.viol(mon, f"{what} raised {type(e).__name__}: {e}", mech + ":raise", expected=repr(exp))
            return
        ok = (r == exp) and type(r) is type(exp)
        if not ok:
            self.viol(mon, f"{what} = {r!r}, model says {exp!r}", mech, observed=repr(r), expected=repr(exp))

    def must_raise(self, mon, what, f, mech):
        """Documented WireError rejection."""
        self.ctx.ev(mon)
        try:
            r = f()
        except self.WireError:
            self.ctx.reject(mech)
            return
        except Exception as e:  # noqa: BLE001
            self.viol(mon, f"{what} raised {type(e).__name__} instead of the documented WireError: {e}", mech + ":wrong-error")
            return
        self.viol(mon, f"{what} did not raise WireError, returned {r!r}", mech + ":accepted", observed=repr(r))


def other_form(rng, Wires, B):
    """One of the operand forms the docs admit for 'other' (Wires | iterable | single label)."""
    r = rng.random()
    if r < 0.5:
        return Wires(B), "Wires"
    if r < 0.75:
        return list(B), "list"
    if r < 0.9:
        return tuple(B), "tuple"
    return list(B), "list"


def one_case(ctx, m, rng, np, i):
    Wires, WireError = m.Wires, m.WireError
    flavour, pool = make_pool(rng, np)
    A, B, C = draw(rng, pool), draw(rng, pool), draw(rng, pool)
    sA, sB, sC = set(A), set(B), set(C)
    m.case = {"A": lab_repr(A), "B": lab_repr(B), "C": lab_repr(C), "flavour": flavour}
    nontriv = bool(A) and bool(B) and bool(sA & sB) and sA != sB
    ctx.case(fingerprint(lab_repr(A), lab_repr(B), lab_repr(C)), nontrivial=nontriv, cls=f"flavour{flavour}",
             sample={"A": repr(A), "B": repr(B), "C": repr(C)})

    # ---------------------------------------------------------------- construction / views
    form = int(rng.integers(5))
    if form == 0:
        wa = m.ordered("wires.construct", f"Wires({A!r})", lambda: Wires(list(A)), A, "construct:list")
    elif form == 1:
        wa = m.ordered("wires.construct", f"Wires(tuple {A!r})", lambda: Wires(tuple(A)), A, "construct:tuple")
    elif form == 2:
        wa = m.ordered("wires.construct", f"Wires(Wires({A!r}))", lambda: Wires(Wires(A)), A, "construct:wires")
    elif form == 3:
        wa = m.ordered("wires.construct", f"Wires(dict-keys {A!r})", lambda: Wires(dict.fromkeys(A)), A, "construct:dictkeys")
    else:
        # (numpy-int labels are never mixed with tuple labels: numpy's == broadcasts over a tuple, outside the statement)
        if all(isinstance(x, int) for x in A) and A and flavour != 2:
            wa = m.ordered("wires.construct", f"Wires(np.array({A!r}))", lambda: Wires(np.array(A)), A, "construct:ndarray")
        else:
            wa = m.ordered("wires.construct", f"Wires({A!r})", lambda: Wires(A), A, "construct:list")
    if wa is None:
        return
    wb, wc = Wires(B), Wires(C)
    # single label (strings and non-iterables are one label)
    lab = pool[int(rng.integers(len(pool)))]
    if not isinstance(lab, tuple):
        m.ordered("wires.construct", f"Wires({lab!r})", lambda: Wires(lab), [lab], "construct:single")
    # duplicates must be rejected
    if A:
        j = int(rng.integers(len(A)))
        pos = int(rng.integers(len(A) + 1))
        dup = list(A)
        d = A[j]
        if isinstance(d, int) and flavour == 3 and rng.random() < 0.5:
            d = np.int64(d) if not isinstance(d, np.integer) else int(d)   # equal hash, different type
        dup.insert(pos, d)
        cont = [list, tuple][int(rng.integers(2))]
        m.must_raise("wires.construct", f"Wires({cont(dup)!r})", lambda: Wires(cont(dup)), "reject:duplicate")
        if rng.random() < 0.3:
            m.must_raise("wires.construct", f"Wires({A!r}).union({dup!r})", lambda: wa.union(dup), "reject:duplicate-other")
    # views
    ctx.ev("wires.construct")
    bad = []
    if len(wa) != len(A):
        bad.append(f"len {len(wa)} != {len(A)}")
    if list(iter(wa)) != A:
        bad.append(f"iteration {list(iter(wa))!r}")
    if wa.tolist() != A or not isinstance(wa.tolist(), list):
        bad.append(f"tolist {wa.tolist()!r}")
    if wa.toset() != sA:
        bad.append(f"toset {wa.toset()!r}")
    if tuple(wa.labels) != tuple(A):
        bad.append(f"labels {wa.labels!r}")
    if [wa[k] for k in range(len(A))] != A or (A and wa[-1] != A[-1]):
        bad.append("integer __getitem__ disagrees")
    for x in pool:
        if (x in wa) != (x in A):
            bad.append(f"{x!r} in wires = {x in wa}")
            break
    if not (form == 4 and flavour != 2) and (repr(wa) != f"Wires({A!r})" or str(wa) != str(A)):
        bad.append(f"repr/str {wa!r} / {wa!s}")
    if all(isinstance(x, int) for x in A) and A and list(wa.toarray()) != A:
        bad.append(f"toarray {wa.toarray()!r}")
    for b in bad:
        m.viol("wires.construct", f"Wires({A!r}): {b}", "views")
    if A:
        lo, hi = sorted(int(x) for x in rng.integers(-len(A) - 1, len(A) + 2, size=2))
        step = [1, 1, 2, -1][int(rng.integers(4))]
        m.ordered("wires.indexing", f"Wires({A!r})[{lo}:{hi}:{step}]", lambda: wa[lo:hi:step], A[lo:hi:step], "slice")

    # ---------------------------------------------------------------- equality / hash (order-sensitive)
    ctx.ev("wires.eqhash")
    twin = Wires(tuple(A))
    if not (wa == twin) or (wa != twin) or hash(wa) != hash(twin):
        m.viol("wires.eqhash", f"Wires built twice from {A!r} are unequal or hash differently", "eqhash:equal")
    if len(A) >= 2:
        p = [A[int(k)] for k in rng.permutation(len(A))]
        ctx.ev("wires.eqhash")
        wp = Wires(p)
        if (wa == wp) != (p == A) or (wa != wp) != (p != A):
            m.viol("wires.eqhash", f"Wires({A!r}) == Wires({p!r}) is {wa == wp}; order must be respected", "eqhash:order",
                   observed=bool(wa == wp), expected=(p == A))
        if p == A and hash(wp) != hash(wa):
            m.viol("wires.eqhash", "equal Wires with unequal hash", "eqhash:hash")
        # a set keyed by Wires keeps permutations apart and merges equal ones
        ctx.ev("wires.eqhash")
        if len({wa, wp, twin}) != (1 if p == A else 2):
            m.viol("wires.eqhash", f"set of Wires({A!r}), Wires({p!r}) and a twin has {len({wa, wp, twin})} elements",
                   "eqhash:set")
    ctx.ev("wires.eqhash")
    if (wa == wb) != (A == B):
        m.viol("wires.eqhash", f"Wires({A!r}) == Wires({B!r}) is {wa == wb}", "eqhash:other", observed=bool(wa == wb),
               expected=(A == B))
    if wa == wb and hash(wa) != hash(wb):
        m.viol("wires.eqhash", "equal Wires with unequal hash", "eqhash:hash")

    # ---------------------------------------------------------------- set algebra (label sets only; order undocumented)
    ob, kind = other_form(rng, Wires, B)
    tag = f"Wires({A!r}) . {kind}({B!r})"
    m.unordered("wires.setops", f"union {tag}", lambda: wa.union(ob), sA | sB, "union")
    m.unordered("wires.setops", f"intersection {tag}", lambda: wa.intersection(ob), sA & sB, "intersection")
    m.unordered("wires.setops", f"difference {tag}", lambda: wa.difference(ob), sA - sB, "difference")
    m.unordered("wires.setops", f"symmetric_difference {tag}", lambda: wa.symmetric_difference(ob), sA ^ sB, "symmetric_difference")
    m.unordered("wires.setops", f"| {tag}", lambda: wa | ob, sA | sB, "or")
    m.unordered("wires.setops", f"& {tag}", lambda: wa & ob, sA & sB, "and")
    m.unordered("wires.setops", f"- {tag}", lambda: wa - ob, sA - sB, "sub")
    m.unordered("wires.setops", f"^ {tag}", lambda: wa ^ ob, sA ^ sB, "xor")
    # reflected forms (left operand is a plain list → Wires.__r*__)
    lb = list(B)
    m.unordered("wires.setops", f"list({B!r}) | Wires({A!r})", lambda: lb | wa, sA | sB, "ror")
    m.unordered("wires.setops", f"list({B!r}) & Wires({A!r})", lambda: lb & wa, sA & sB, "rand")
    m.unordered("wires.setops", f"list({B!r}) - Wires({A!r})", lambda: lb - wa, sB - sA, "rsub")
    m.unordered("wires.setops", f"list({B!r}) ^ Wires({A!r})", lambda: lb ^ wa, sA ^ sB, "rxor")
    # single label as 'other'
    if not isinstance(lab, tuple):
        m.unordered("wires.setops", f"Wires({A!r}).union({lab!r})", lambda: wa.union(lab), sA | {lab}, "union:single")
        m.unordered("wires.setops", f"Wires({A!r}).difference({lab!r})", lambda: wa.difference(lab), sA - {lab}, "difference:single")

    # ---------------------------------------------------------------- ordered helpers
    m.ordered("wires.helpers", f"Wires({A!r}) + {kind}({B!r})", lambda: wa + ob, uniq(A + B), "add")
    m.ordered("wires.helpers", f"list({B!r}) + Wires({A!r})", lambda: lb + wa, uniq(B + A), "radd")
    lists = [A, B, C][: int(rng.integers(1, 4))]
    if rng.random() < 0.3:
        lists = lists + [draw(rng, pool)]
    order = [int(k) for k in rng.permutation(len(lists))]
    lists = [lists[k] for k in order]
    ws = [Wires(L) for L in lists]
    flat = [x for L in lists for x in L]
    m.ordered("wires.helpers", f"all_wires({lists!r})", lambda: Wires.all_wires(ws), uniq(flat), "all_wires")
    mixed = [Wires(L) if rng.random() < 0.5 else list(L) for L in lists]
    m.ordered("wires.helpers", f"all_wires(mixed Wires/list {lists!r})", lambda: Wires.all_wires(mixed), uniq(flat), "all_wires:iterables")
    u = uniq(flat)
    if not any(isinstance(x, np.integer) for x in u):
        if all(isinstance(x, int) for x in u):
            exp_sorted = sorted(u)
        else:
            exp_sorted = sorted(u, key=str)
            # ties in str() (e.g. 0 and "0") leave the order to sort stability: keep first-occurrence order (stable)
        m.ordered("wires.helpers", f"all_wires({lists!r}, sort=True)", lambda: Wires.all_wires(ws, sort=True), exp_sorted, "all_wires:sort")
    common = set(lists[0]).intersection(*[set(L) for L in lists[1:]]) if lists else set()
    m.ordered("wires.helpers", f"shared_wires({lists!r})", lambda: Wires.shared_wires(ws), [x for x in lists[0] if x in common],
              "shared_wires")
    cnt = {}
    for x in flat:
        cnt[x] = cnt.get(x, 0) + 1
    m.ordered("wires.helpers", f"unique_wires({lists!r})", lambda: Wires.unique_wires(ws), [x for x in flat if cnt[x] == 1],
              "unique_wires")
    if rng.random() < 0.1:
        m.must_raise("wires.helpers", "shared_wires with a non-Wires entry", lambda: Wires.shared_wires(ws + [list(A)]), "reject:shared-nonwires")
        m.must_raise("wires.helpers", "unique_wires with a non-Wires entry", lambda: Wires.unique_wires(ws + [list(A)]), "reject:unique-nonwires")
    m.value("wires.helpers", f"Wires({A!r}).contains_wires(Wires({B!r}))", lambda: wa.contains_wires(wb), sB <= sA, "contains_wires")
    if A:
        sub = [x for x in A if rng.random() < 0.5]
        m.value("wires.helpers", f"Wires({A!r}).contains_wires(Wires({sub!r}))", lambda: wa.contains_wires(Wires(sub)), True,
                "contains_wires")

    # ---------------------------------------------------------------- index / indices
    if A:
        j = int(rng.integers(len(A)))
        x = A[j]
        m.value("wires.indexing", f"Wires({A!r}).index({x!r})", lambda: wa.index(x), j, "index")
        m.value("wires.indexing", f"Wires({A!r}).index(Wires([{x!r}]))", lambda: wa.index(Wires([x])), j, "index:wires1")
        if not isinstance(x, (tuple, str)):
            m.value("wires.indexing", f"Wires({A!r}).indices({x!r})", lambda: wa.indices(x), [j], "indices:single")
        if isinstance(x, str):
            # docs: "wires (Iterable[Number, str], Number, str, Wires)" - a string is ONE wire label everywhere in this
            # class (Wires("ab") is a single wire, and index("ab") finds it), so indices("ab") must be [index("ab")]
            ctx.ev("wires.indexing")
            mech = "indices:single" if len(x) == 1 else "indices:str-label-iterated"
            try:
                r = wa.indices(x)
                if r != [j]:
                    m.viol("wires.indexing", f"Wires({A!r}).indices({x!r}) = {r!r}, model says {[j]!r} (string label treated "
                           "as an iterable of characters)", mech, observed=repr(r), expected=repr([j]))
            except Exception as e:  # noqa: BLE001
                m.viol("wires.indexing", f"Wires({A!r}).indices({x!r}) raised {type(e).__name__}: {e} although the label is "
                       f"present at position {j} (string label treated as an iterable of characters)", mech, expected=repr([j]))
        sel = [A[int(k)] for k in rng.permutation(len(A))[: int(rng.integers(0, len(A) + 1))]]
        exp = [A.index(s) for s in sel]
        m.value("wires.indexing", f"Wires({A!r}).indices(Wires({sel!r}))", lambda: wa.indices(Wires(sel)), exp, "indices:wires")
        m.value("wires.indexing", f"Wires({A!r}).indices(list {sel!r})", lambda: wa.indices(list(sel)), exp, "indices:list")
        if len(A) >= 2:
            m.must_raise("wires.indexing", f"Wires({A!r}).index(Wires of length 2)", lambda: wa.index(Wires(A[:2])), "reject:index-len2")
    missing = [x for x in pool if x not in sA]
    if missing:
        x = missing[int(rng.integers(len(missing)))]
        m.must_raise("wires.indexing", f"Wires({A!r}).index({x!r}) (absent)", lambda: wa.index(x), "reject:index-missing")
        m.must_raise("wires.indexing", f"Wires({A!r}).indices([{x!r}]) (absent)", lambda: wa.indices([x] + A[:1]), "reject:indices-missing")

    # ---------------------------------------------------------------- map
    if A:
        targets = [f"t{k}" for k in range(len(pool))] + list(range(100, 100 + len(pool))) + [(7, k) for k in range(3)]
        tperm = [targets[int(k)] for k in rng.permutation(len(targets))]
        wire_map = {x: tperm[k] for k, x in enumerate(pool)}            # total on the pool, injective
        if rng.random() < 0.3:
            # permutation of the labels themselves (old labels re-used as new ones)
            rot = A[1:] + A[:1]
            wire_map = {**wire_map, **dict(zip(A, rot))}
        exp = [wire_map[x] for x in A]
        m.ordered("wires.indexing", f"Wires({A!r}).map({wire_map!r})", lambda: wa.map(wire_map), exp, "map")
        j = int(rng.integers(len(A)))
        partial = {k: v for k, v in wire_map.items() if k != A[j]}
        m.must_raise("wires.indexing", f"Wires({A!r}).map(without key {A[j]!r})", lambda: wa.map(partial), "reject:map-missing-key")
        if len(A) >= 2:
            j1, j2 = [int(k) for k in rng.permutation(len(A))[:2]]
            clash = dict(wire_map)
            clash[A[j1]] = clash[A[j2]]
            m.must_raise("wires.indexing", f"Wires({A!r}).map(two keys → {clash[A[j2]]!r})", lambda: wa.map(clash), "reject:map-duplicate-target")

    # ---------------------------------------------------------------- subset
    n = len(A)
    if n:
        k = int(rng.integers(0, n + 1))
        idx = [int(t) for t in rng.permutation(n)[:k]]
        cont = rng.random()
        arg = idx if cont < 0.6 else (tuple(idx) if cont < 0.8 else np.array(idx, dtype=int))
        m.ordered("wires.indexing", f"Wires({A!r}).subset({idx!r})", lambda: wa.subset(arg), [A[t] for t in idx], "subset")
        j = int(rng.integers(n))
        m.ordered("wires.indexing", f"Wires({A!r}).subset({j})", lambda: wa.subset(j), [A[j]], "subset:int")
        # periodic boundary: distinct residues (so the result is a genuine subset), arbitrary multiples of n added
        res = [int(t) for t in rng.permutation(n)[: int(rng.integers(1, n + 1))]]
        pidx = [t + n * int(rng.integers(-3, 4)) for t in res]
        m.ordered("wires.indexing", f"Wires({A!r}).subset({pidx!r}, periodic_boundary=True)",
                  lambda: wa.subset(pidx, periodic_boundary=True), [A[t] for t in res], "subset:periodic")
        jj = j + n * int(rng.integers(-3, 4))
        m.ordered("wires.indexing", f"Wires({A!r}).subset({jj}, periodic_boundary=True)",
                  lambda: wa.subset(jj, periodic_boundary=True), [A[j]], "subset:periodic-int")
        # positions that coincide (directly, or only modulo n): the result cannot be a Wires object with unique labels
        if i % 16 == 3:
            ctx.ev("wires.unique_invariant")
            rep = [j, (j + 1) % n, j + n]
            try:
                r = wa.subset(rep, periodic_boundary=True)
                if len(set(r.labels)) != len(r.labels):
                    m.viol("wires.unique_invariant", f"Wires({A!r}).subset({rep!r}, periodic_boundary=True) returned {r!r}: "
                           "a Wires object holding a duplicate label (not rejected)", "subset:coinciding-positions-duplicates",
                           observed=repr(r))
            except WireError:
                ctx.reject("subset-coinciding-positions")
        # out of range (either documented WireError or IndexError – counted as rejection, never as a result)
        if i % 8 == 0:
            ctx.ev("wires.indexing")
            big = n + int(rng.integers(0, 3))
            try:
                r = wa.subset([0, big])
                m.viol("wires.indexing", f"Wires({A!r}).subset([0, {big}]) returned {r!r} for an out-of-range index", "subset:out-of-range")
            except WireError:
                ctx.reject("subset-out-of-range:WireError")
            except IndexError:
                ctx.reject("subset-out-of-range:IndexError")
                ctx.note_add("subset_out_of_range_indexerror", f"n={n} index={big}", cap=6)

    # ---------------------------------------------------------------- select_random (sub-multiset, deterministic per seed)
    if n and i % 4 == 1:
        k = int(rng.integers(0, n + 1))
        sd = int(rng.integers(1 << 30))
        ctx.ev("wires.select_random")
        try:
            r1, r2 = wa.select_random(k, seed=sd), wa.select_random(k, seed=sd)
            if not m.unique(r1, "select_random", "select_random:duplicates") or len(r1) != k or not set(r1.labels) <= sA or r1 != r2:
                m.viol("wires.select_random", f"Wires({A!r}).select_random({k}, seed={sd}) = {r1!r} / {r2!r}", "select_random")
        except Exception as e:  # noqa: BLE001
            m.viol("wires.select_random", f"select_random raised {type(e).__name__}: {e}", "select_random:raise")
        m.must_raise("wires.select_random", "select_random(n+1)", lambda: wa.select_random(n + 1, seed=sd), "reject:select-too-many")

    # ---------------------------------------------------------------- operands must not have been mutated
    ctx.ev("wires.construct")
    if list(wa.labels) != A or list(wb.labels) != B or list(wc.labels) != C or hash(wa) != hash(tuple(A)):
        m.viol("wires.construct", "an operand was mutated by the operations above (or its hash is not hash(labels))", "operand-mutated")

    # ---------------------------------------------------------------- history: results re-used as operands
    if i % 3 == 0:
        cur, real = list(A), wa
        for step in range(int(rng.integers(3, 9))):
            D = draw(rng, pool)
            sD, sc = set(D), set(cur)
            od, kind = other_form(rng, Wires, D)
            op = int(rng.integers(9))
            what = f"history step {step} op {op}: Wires({cur!r}) with {kind}({D!r})"
            if op == 0:
                r = m.unordered("wires.setops", what + " union", lambda: real | od, sc | sD, "history:union")
            elif op == 1:
                r = m.unordered("wires.setops", what + " intersection", lambda: real & od, sc & sD, "history:intersection")
            elif op == 2:
                r = m.unordered("wires.setops", what + " difference", lambda: real - od, sc - sD, "history:difference")
            elif op == 3:
                r = m.unordered("wires.setops", what + " symmetric_difference", lambda: real ^ od, sc ^ sD, "history:symmetric_difference")
            elif op == 4:
                r = m.ordered("wires.helpers", what + " +", lambda: real + od, uniq(cur + D), "history:add")
            elif op == 5:
                r = m.ordered("wires.helpers", what + " all_wires", lambda: Wires.all_wires([Wires(D), real, Wires(D)]), uniq(D + cur),
                              "history:all_wires")
            elif op == 6:
                r = m.ordered("wires.helpers", what + " shared_wires", lambda: Wires.shared_wires([real, Wires(D)]),
                              [x for x in cur if x in sD], "history:shared_wires")
            elif op == 7:
                r = m.ordered("wires.helpers", what + " unique_wires", lambda: Wires.unique_wires([real, Wires(D)]),
                              [x for x in cur if x not in sD] + [x for x in D if x not in sc], "history:unique_wires")
            else:
                if not cur:
                    continue
                idx = [int(t) for t in rng.permutation(len(cur))[: int(rng.integers(1, len(cur) + 1))]]
                r = m.ordered("wires.indexing", what + f" subset({idx})", lambda: real.subset(idx), [cur[t] for t in idx], "history:subset")
            if r is None or len(set(r.labels)) != len(r.labels):
                break
            real, cur = r, list(r.labels)       # re-synchronise the order (set operations leave it unspecified)
            # the result must behave like a freshly built Wires of the same labels
            ctx.ev("wires.eqhash")
            fresh = Wires(list(cur))
            if real != fresh or hash(real) != hash(fresh) or [real.index(x) for x in cur] != list(range(len(cur))):
                m.viol("wires.eqhash", f"{what}: result {real!r} differs from a freshly built Wires of its labels", "history:fresh")



def _cap_per_mechanism(ctx, cap=3):
    """Keep at most `cap` witnesses per (monitor, mechanism) so that a frequent finding cannot crowd out other mechanisms
    (the bus keeps 40 witnesses per shard); totals stay available as counters."""
    orig, seen = ctx.violation, {}

    def violation(monitor, message, case=None, mech=None, observed=None, expected=None):
        k = (monitor, mech)
        seen[k] = seen.get(k, 0) + 1
        ctx.count(f"violations:{mech}")
        if seen[k] <= cap:
            orig(monitor, message, case=case, mech=mech, observed=observed, expected=expected)
    ctx.violation = violation


def run(ctx):
    _cap_per_mechanism(ctx)
    import numpy as np
    from pennylane.exceptions import WireError
    from pennylane.wires import Wires

    m = Mon(ctx, Wires, WireError)
    N = ctx.n(12000, 400000)
    for k in range(N):
        i = ctx.shard + k * ctx.nshards          # global case index (replayable)
        if ctx.only_case is not None and i != ctx.only_case:
            continue
        if k % 256 == 0 and not ctx.more():
            break
        ctx.case_index = i
        try:
            one_case(ctx, m, ctx.case_rng(i), np, i)
        except Exception as e:  # noqa: BLE001 - harness error: never a silent skip
            import traceback
            ctx.inconclusive_case(f"case {i}: {type(e).__name__}: {e} @ {traceback.format_exc()[-300:]}")
