"""C46 — Resource counts report what the circuit contains.

Deciding monitors
* ``tape.specs``     — post-condition on ``tape.specs`` / ``resources_from_tape``: gate counts by type, total operations, number of
  wires, measurement-process summary and depth against the harness' own counters (Counter over the operators' names, and the
  generator's own tally of plain gates) and its own dependency-level depth (per-wire frontier; wire-less operators touch every
  wire; a conditional also depends on the mid-circuit measurements it reads) — no graph library, no PennyLane graph.
* ``qnode.specs``    — ``qp.specs(qnode, level=...)()`` for every level form (``"top"``, ``"user"``, ints, slices, marker names,
  ``"gradient"``, ``"device"``): reference circuit at that level obtained by the harness itself for the user levels (quantum function
  recorded with make_qscript, the first k user transforms applied by hand, batches compared per tape) and through
  ``construct_batch`` for gradient/device levels; CircuitSpecs header fields (device, wires, shots, level) included.
* ``expr.arith``     — resource Expression objects (+, *, subs, ==, hash) and ``SpecsResources.subs`` against integer evaluation of the
  generator's own expression tree at random points and a canonical polynomial dictionary.
"""
import warnings
from collections import Counter

import numpy as np

from pv.ctx import fingerprint

META = {
    "id": "C46",
    "level": "exploration",
    "technique": "runtime post-conditions on tape.specs / qp.specs(level) vs harness-side counters, dependency-level depth and hand-applied "
                 "transform prefixes; Expression arithmetic vs integer evaluation of the generating tree",
    "level_text": "Generated quantum functions (plain and parametrised gates, inverse pairs, adjoint/ctrl wrappers, barriers with and without "
                  "wires, global phases, identities, mid-circuit measurements with conditionals, templates; odd wire labels; 1-4 measurements of all "
                  "kinds) are summarised as tapes and as QNodes carrying 0-4 user transforms (incl. one that fans out into several tapes) with "
                  "markers, at every level form.",
    "level_note": "This tree's SpecsResources has no trainable-parameter count and no gate_sizes field and offers no add/scale methods; "
                  "the 'add and scale' clause is exercised on what exists (resource Expression +, *, subs and SpecsResources.subs). Gate *names* are "
                  "read from the operators (op.name, with the documented 'nC(...)' prefix rule for generic multi-controlled wrappers); the tally "
                  "of plain gates is additionally known from the generator. Catalyst/qjit levels are not available here.",
    "design_ref": "7/C46",
    "shards": {"quick": 2, "thorough": 16},
    "budget_s": {"quick": 45, "thorough": 300},
    "min_evals": {"quick": 800, "thorough": 12000},
    "deciding": ["tape.specs", "qnode.specs", "expr.arith"],
    "rule": "case = (quantum function recipe, measurements, user transforms, level) or one expression tree; distinct = fingerprint of these; "
            "non-trivial = depth differs from both the number of operations and 1 (real parallelism and real dependencies), or a level that "
            "actually changed the circuit, or an expression with at least two variables and a product",
    "assumptions": ["depth = number of operators on the longest dependency chain (the documented 'longest path in the DAG')"],
}

PLAIN_1Q = ["PauliX", "PauliY", "PauliZ", "Hadamard", "S", "T", "SX"]
ROT_1Q = ["RX", "RY", "RZ", "PhaseShift"]
PLAIN_2Q = ["CNOT", "CZ", "SWAP", "CY"]
ROT_2Q = ["CRX", "IsingXX", "CRZ"]


# ----------------------------------------------------------------------------- recipes -> quantum functions
def gen_recipe(rng, wires):
    nw = len(wires)
    pick = lambda k: [wires[int(i)] for i in rng.choice(nw, size=k, replace=False)]  # noqa: E731
    steps = []
    nm = 0
    for _ in range(int(rng.integers(1, 14))):
        r = rng.random()
        if r < 0.22:
            steps.append(("g", PLAIN_1Q[int(rng.integers(len(PLAIN_1Q)))], None, pick(1)))
        elif r < 0.42:
            steps.append(("g", ROT_1Q[int(rng.integers(len(ROT_1Q)))], float(np.round(rng.uniform(-3, 3), 3)), pick(1)))
        elif r < 0.55 and nw >= 2:
            steps.append(("g", PLAIN_2Q[int(rng.integers(len(PLAIN_2Q)))], None, pick(2)))
        elif r < 0.62 and nw >= 2:
            steps.append(("g", ROT_2Q[int(rng.integers(len(ROT_2Q)))], float(np.round(rng.uniform(-3, 3), 3)), pick(2)))
        elif r < 0.68:
            w = pick(1)
            steps.append(("g", "S", None, w))
            steps.append(("adj", "S", None, w))
        elif r < 0.72:
            w = pick(1)
            a = float(np.round(rng.uniform(-3, 3), 3))
            steps.append(("g", "RX", a, w))
            steps.append(("g", "RX", float(np.round(rng.uniform(-3, 3), 3)), w))
        elif r < 0.77:
            steps.append(("barrier", None, None, pick(int(rng.integers(1, nw + 1))) if rng.random() < 0.6 else []))
        elif r < 0.81:
            steps.append(("gphase", None, float(np.round(rng.uniform(-3, 3), 3)), []))
        elif r < 0.84:
            steps.append(("g", "Identity", None, pick(int(rng.integers(1, nw + 1)))))
        elif r < 0.89 and nw >= 3:
            ws = pick(3)
            steps.append(("ctrl", "RY", float(np.round(rng.uniform(-3, 3), 3)), ws))
        elif r < 0.93 and nw >= 2:
            steps.append(("mcm", None, bool(rng.integers(2)), pick(1)))
            nm += 1
            if rng.random() < 0.8:
                steps.append(("cond", nm - 1, None, pick(1)))
        elif r < 0.96 and nw >= 2:
            steps.append(("tmpl", "BasicEntanglerLayers", None, pick(2)))
        elif nw >= 3:
            steps.append(("g", "Toffoli", None, pick(3)))
        else:
            steps.append(("g", "Hadamard", None, pick(1)))
    ms = []
    for _ in range(int(rng.integers(1, 4))):
        r = int(rng.integers(8))
        if r == 0:
            ms.append(("expval", "Z", pick(1)))
        elif r == 1 and nw >= 2:
            ms.append(("expval", "ZX", pick(2)))
        elif r == 2:
            ms.append(("probs", None, pick(int(rng.integers(1, nw + 1)))))
        elif r == 3:
            ms.append(("probs", None, []))
        elif r == 4:
            ms.append(("var", "X", pick(1)))
        elif r == 5 and nw >= 2:
            ms.append(("expval", "ham", pick(2)))
        elif r == 6:
            ms.append(("expval", "herm", pick(1)))
        else:
            ms.append(("expval", "Y", pick(1)))
    if any(s[0] == "mcm" for s in steps) and not any(m[2] == [] for m in ms):
        pass
    return steps, ms


def make_qfunc(qp, steps, ms):
    def qfunc(x):
        mcms = []
        for kind, name, par, ws in steps:
            if kind == "g":
                cls = getattr(qp, name)
                if par is None:
                    cls(wires=ws)
                else:
                    cls(par * x, wires=ws)
            elif kind == "adj":
                qp.adjoint(getattr(qp, name)(wires=ws))
            elif kind == "barrier":
                qp.Barrier(wires=ws) if ws else qp.Barrier()
            elif kind == "gphase":
                qp.GlobalPhase(par)
            elif kind == "ctrl":
                qp.ctrl(qp.RY(par, wires=ws[0]), control=ws[1:])
            elif kind == "mcm":
                mcms.append(qp.measure(ws[0], reset=par))
            elif kind == "cond":
                qp.cond(mcms[name], qp.PauliX)(wires=ws[0])
            elif kind == "tmpl":
                qp.BasicEntanglerLayers(np.array([[0.1, 0.2]]), wires=ws)
        out = []
        for kind, ob, ws in ms:
            if kind == "probs":
                out.append(qp.probs(wires=ws) if ws else qp.probs())
                continue
            o = {"Z": lambda: qp.Z(ws[0]), "X": lambda: qp.X(ws[0]), "Y": lambda: qp.Y(ws[0]), "ZX": lambda: qp.Z(ws[0]) @ qp.X(ws[1]),
                 "ham": lambda: qp.Hamiltonian([0.5, 1.5], [qp.Z(ws[0]), qp.Z(ws[0]) @ qp.Z(ws[1])]),
                 "herm": lambda: qp.Hermitian(np.array([[1.0, 0.5], [0.5, -1.0]]), wires=ws[0])}[ob]()
            out.append(qp.expval(o) if kind == "expval" else qp.var(o))
        return tuple(out) if len(out) > 1 else out[0]
    return qfunc


def plain_tally(steps):
    """What the generator itself knows: how many operators each step records and the tally of plain named gates."""
    c = Counter()
    total = 0
    for kind, name, par, ws in steps:
        total += 1
        if kind == "g":
            c[name] += 1
    return c, total


# ----------------------------------------------------------------------------- harness-side summary of a tape
def ref_depth(qp, tape):
    """Number of operators on the longest dependency chain (per-wire frontier levels)."""
    from pennylane.ops import Conditional

    allw = list(tape.wires)
    level = {w: 0 for w in allw}
    mcm_level = {}
    best = 0
    for op in tape.operations:
        ws = list(op.wires) if len(op.wires) else allw
        d = max([level[w] for w in ws], default=0)
        if isinstance(op, Conditional):
            for m in op.meas_val.measurements:
                d = max(d, mcm_level[m])
        d += 1
        for w in ws:
            level[w] = d
        if type(op).__name__ in ("MidMeasure", "MidMeasureMP", "PauliMeasure"):
            mcm_level[op] = d
        best = max(best, d)
    return best


def obs_str(obs):
    name = obs.name
    if name in ("Hamiltonian", "LinearCombination", "Sum", "Prod"):
        if name == "LinearCombination":
            name = "Hamiltonian"
        return f"{name}(num_wires={len(obs.wires)}, num_terms={len(obs.operands)})"
    if name == "SProd":
        return obs_str(obs.base)
    if name == "Exp":
        return f"Exp({obs_str(obs.base)})"
    return name


def ref_summary(qp, tape):
    from pennylane.ops.op_math import Controlled, ControlledOp

    counts = Counter()
    for op in tape.operations:
        nm = op.name
        if type(op) in (Controlled, ControlledOp) and len(op.control_wires) > 1:
            nm = f"{len(op.control_wires)}{nm}"
        counts[nm] += 1
    wires = []
    for o in list(tape.operations) + list(tape.measurements):
        for w in o.wires:
            if w not in wires:
                wires.append(w)
    nw = len(wires)
    mps = Counter()
    short = {"ExpectationMP": "expval", "VarianceMP": "var", "ProbabilityMP": "probs", "SampleMP": "sample", "CountsMP": "counts", "StateMP": "state"}
    for m in tape.measurements:
        s = short.get(type(m).__name__)
        if s is None:
            return None
        if type(m).__name__ == "CountsMP" and m.all_outcomes:
            s = "allcounts"
        if m.mv is not None:
            s += "(mcm)"
        elif m.obs is None:
            k = len(m.wires)
            s += "(all wires)" if k in (0, nw) else f"({k} wires)"
        else:
            s += f"({obs_str(m.obs)})"
        mps[s] += 1
    return {"counts": dict(counts), "num_wires": nw, "depth": ref_depth(qp, tape), "mps": dict(mps), "total": len(tape.operations)}


def diff_summary(res, ref, depth_expected=True):
    out = []
    if dict(res.counts) != ref["counts"]:
        out.append(("counts", dict(res.counts), ref["counts"]))
    if res.total_quantum_operations != ref["total"]:
        out.append(("total", res.total_quantum_operations, ref["total"]))
    if res.num_wires != ref["num_wires"]:
        out.append(("num_wires", res.num_wires, ref["num_wires"]))
    if dict(res.measurement_processes) != ref["mps"]:
        out.append(("measurements", dict(res.measurement_processes), ref["mps"]))
    if depth_expected and ref["num_wires"] > 0 and res.circuit_depth != ref["depth"]:   # a circuit without any wire has no DAG to speak of
        out.append(("depth", res.circuit_depth, ref["depth"]))
    if not depth_expected and res.circuit_depth is not None:
        out.append(("depth-not-requested", res.circuit_depth, None))
    if res.depth != res.circuit_depth or res.quantum_operations != res.counts or res["num_wires"] != res.num_wires:
        out.append(("aliases", None, None))
    return out


# ----------------------------------------------------------------------------- part A: tapes
def tape_case(ctx, qp, num, rng, gi):
    from pennylane.resource.resource import resources_from_tape

    nw = int(rng.integers(1, 6))
    wires = num.wire_labels(rng, nw)
    steps, ms = gen_recipe(rng, wires)
    qfunc = make_qfunc(qp, steps, ms)
    x = float(np.round(rng.uniform(0.2, 1.5), 3))
    try:
        tape = qp.tape.make_qscript(qfunc)(x)
    except Exception as e:  # noqa: BLE001
        ctx.inconclusive_case(f"recording failed: {type(e).__name__}: {e}")
        return
    if rng.random() < 0.3:
        tape = qp.tape.QuantumScript(tape.operations, tape.measurements, shots=int(rng.integers(1, 50)))
    ref = ref_summary(qp, tape)
    if ref is None:
        return
    w = {"steps": steps, "measurements": ms, "wires": wires, "ops": [repr(o)[:60] for o in tape.operations]}
    ctx.ev("tape.specs")
    try:
        sp = tape.specs
        res = sp["resources"]
        res2 = resources_from_tape(tape, compute_depth=False)
    except Exception as e:  # noqa: BLE001
        ctx.violation("tape.specs", f"tape.specs raised {type(e).__name__}: {e}", case=w, mech=f"tape-raise:{type(e).__name__}")
        return
    d = diff_summary(res, ref) + [("nodepth-" + k, a, b) for k, a, b in diff_summary(res2, ref, depth_expected=False)]
    tally, total = plain_tally(steps)
    for name, k in tally.items():     # the generator's own tally of plain gates
        if res.counts.get(name, 0) != k:
            d.append((f"generator-tally:{name}", res.counts.get(name, 0), k))
    if res.total_quantum_operations != total:
        d.append(("generator-total", res.total_quantum_operations, total))
    if sp["shots"] != tape.shots:
        d.append(("shots", repr(sp["shots"]), repr(tape.shots)))
    for k, a, b in d[:2]:
        ctx.violation("tape.specs", f"tape.specs reports {k} = {a}, computed directly from the circuit: {b}", case=w, mech=f"tape:{k.split(':')[0]}",
                      observed=a, expected=b)
    nontriv = ref["depth"] not in (1, ref["total"]) and ref["total"] >= 3
    ctx.case(fingerprint("tape", steps, ms, wires), nontrivial=nontriv, cls="tape/" + ("mcm" if any(s[0] == "mcm" for s in steps) else "static"),
             sample={"ops": [repr(o)[:40] for o in tape.operations][:10], "depth": ref["depth"], "counts": ref["counts"], "wires": ref["num_wires"]})


# ----------------------------------------------------------------------------- part B: QNodes and levels
def make_user_transforms(qp):
    @qp.transform
    def append_h(tape):
        """synthetic user transform: appends a Hadamard on the first wire"""
        if not len(tape.wires):     # a circuit without any wire (e.g. only a global phase): nothing to append to
            return [tape], lambda r: r[0]
        return [tape.copy(operations=list(tape.operations) + [qp.Hadamard(tape.wires[0])])], lambda r: r[0]

    @qp.transform
    def drop_first(tape):
        return [tape.copy(operations=list(tape.operations)[1:])], lambda r: r[0]
    return {"cancel_inverses": qp.transforms.cancel_inverses, "merge_rotations": qp.transforms.merge_rotations,
            "remove_barrier": qp.transforms.remove_barrier, "commute_controlled": qp.transforms.commute_controlled,
            "append_h": append_h, "drop_first": drop_first, "split_non_commuting": qp.transforms.split_non_commuting}


def qnode_case(ctx, qp, num, rng, gi, UT):
    nw = int(rng.integers(2, 5))
    wires = list(range(nw)) if rng.random() < 0.6 else num.wire_labels(rng, nw, "str")
    steps, ms = gen_recipe(rng, wires)
    steps = [s for s in steps if s[0] not in ("mcm", "cond")]   # device-level MCM handling is another property's business
    if not steps:
        steps = [("g", "Hadamard", None, [wires[0]])]
    qfunc = make_qfunc(qp, steps, ms)
    x = float(np.round(rng.uniform(0.2, 1.5), 3))
    shots = None if rng.random() < 0.6 else int(rng.integers(10, 100))
    dev_wires = None if rng.random() < 0.5 else wires
    dev = qp.device("default.qubit", wires=dev_wires)
    names = [list(UT)[int(i)] for i in rng.integers(0, len(UT) - 1, size=int(rng.integers(0, 5)))]
    if rng.random() < 0.25:
        names.append("split_non_commuting")     # fan-out, kept last so that earlier levels stay single-tape
    qn = qp.QNode(qfunc, dev, diff_method=["best", "parameter-shift"][int(rng.integers(2))])
    if shots:
        qn = qp.set_shots(qn, shots)
    for nm in names:
        qn = UT[nm](qn)
    markers = {}
    if names and rng.random() < 0.5:
        lv = int(rng.integers(0, len(names) + 1))
        try:
            qn.compile_pipeline.add_marker("mk", lv)
            markers["mk"] = lv
        except Exception as e:  # noqa: BLE001
            ctx.inconclusive_case(f"add_marker: {type(e).__name__}: {e}")
            return
    k = len(names)
    forms = ["top", "user", "gradient", "device", 0] + list(range(1, k + 1)) + [None]
    if k >= 1:
        a = int(rng.integers(0, k + 1))
        b = int(rng.integers(a, k + 1))
        forms.append(slice(a, b))
        forms.append(slice(0, int(rng.integers(0, k + 1))))
    forms += list(markers)
    level = forms[int(rng.integers(len(forms)))]
    compute_depth = [None, True, False][int(rng.integers(3))]
    w = {"steps": steps, "measurements": ms, "wires": wires, "transforms": names, "markers": markers, "level": repr(level), "shots": shots,
         "device_wires": dev_wires, "compute_depth": compute_depth}
    ctx.ev("qnode.specs")
    try:
        kw = {} if compute_depth is None else {"compute_depth": compute_depth}
        cs = qp.specs(qn, level=level, **kw)(x)
    except Exception as e:  # noqa: BLE001
        ctx.violation("qnode.specs", f"qp.specs(level={level!r}) raised {type(e).__name__}: {e}", case=w, mech=f"qnode-raise:{type(e).__name__}")
        return
    # ---- reference tapes at that level
    span = None
    if level in ("top", 0):
        span = (0, 0)
    elif level == "user":
        span = (0, k)
    elif isinstance(level, int):
        span = (0, level)
    elif isinstance(level, slice):
        span = (level.start or 0, level.stop)
    elif isinstance(level, str) and level in markers:
        span = (0, markers[level])
    try:
        if span is not None:
            tapes = [qp.tape.make_qscript(qfunc, shots=shots)(x)]
            for nm in names[span[0]:span[1]]:
                nxt = []
                for t in tapes:
                    out, _ = UT[nm](t)
                    nxt += list(out)
                tapes = nxt
            how = "hand-applied user transforms"
        else:
            lvl = "gradient" if level is None else level
            tapes = list(qp.workflow.construct_batch(qn, level=lvl)(x)[0])
            how = "construct_batch"
    except Exception as e:  # noqa: BLE001
        ctx.inconclusive_case(f"reference tapes: {type(e).__name__}: {e}")
        return
    refs = [ref_summary(qp, t) for t in tapes]
    if any(r is None for r in refs):
        return
    got = cs.resources if isinstance(cs.resources, list) else [cs.resources]
    d = []
    if len(got) != len(refs):
        d.append(("number-of-tapes", len(got), len(refs)))
    else:
        for j, (g, r) in enumerate(zip(got, refs)):
            d += [(f"{kk}", a, b) for kk, a, b in diff_summary(g, r, depth_expected=compute_depth is not False)]
    if cs.device_name != dev.name:
        d.append(("device_name", cs.device_name, dev.name))
    if cs.num_device_wires != (len(dev_wires) if dev_wires is not None else None):
        d.append(("num_device_wires", cs.num_device_wires, len(dev_wires) if dev_wires is not None else None))
    exp_shots = qp.measurements.Shots(shots)
    if cs.shots != exp_shots:
        d.append(("shots", repr(cs.shots), repr(exp_shots)))
    if cs.level != ("gradient" if level is None else level):
        d.append(("level", repr(cs.level), repr(level)))
    for kk, a, b in d[:2]:
        ctx.violation("qnode.specs", f"qp.specs(level={level!r}) reports {kk} = {a}; the circuit at that level ({how}) gives {b}", case=w,
                      mech=f"qnode:{kk}:{'user-level' if span is not None else 'workflow-level'}", observed=a, expected=b)
    raw = ref_summary(qp, qp.tape.make_qscript(qfunc)(x))
    changed = raw is not None and (len(refs) != 1 or refs[0]["counts"] != raw["counts"] or refs[0]["depth"] != raw["depth"])
    ctx.case(fingerprint("qnode", steps, ms, wires, names, repr(level), markers, shots), nontrivial=changed or refs[0]["depth"] not in (1, refs[0]["total"]),
             cls=f"qnode/{type(level).__name__ if not isinstance(level, str) else level if level not in markers else 'marker'}",
             sample={"transforms": names, "level": repr(level), "tapes": len(refs), "counts": refs[0]["counts"], "depth": refs[0]["depth"]})


# ----------------------------------------------------------------------------- part C: Expression arithmetic
VARS = ["a", "b", "c", "n"]


def gen_tree(rng, depth=0):
    r = rng.random()
    if depth >= 3 or r < 0.3:
        if rng.random() < 0.6:
            return ("v", VARS[int(rng.integers(len(VARS)))])
        return ("k", int(rng.integers(-3, 6)))
    op = "+" if rng.random() < 0.5 else "*"
    return (op, gen_tree(rng, depth + 1), gen_tree(rng, depth + 1))


def build_expr(E, t):
    if t[0] == "v":
        return E({(t[1],): 1})
    if t[0] == "k":
        return t[1]
    a, b = build_expr(E, t[1]), build_expr(E, t[2])
    return a + b if t[0] == "+" else a * b


def eval_tree(t, env):
    if t[0] == "v":
        return env[t[1]]
    if t[0] == "k":
        return t[1]
    a, b = eval_tree(t[1], env), eval_tree(t[2], env)
    return a + b if t[0] == "+" else a * b


def poly_of(t):
    """Canonical polynomial {sorted tuple of variables: coefficient} of the tree (harness arithmetic)."""
    if t[0] == "v":
        return {(t[1],): 1}
    if t[0] == "k":
        return {(): t[1]} if t[1] else {}
    a, b = poly_of(t[1]), poly_of(t[2])
    out = {}
    if t[0] == "+":
        for p in (a, b):
            for k, v in p.items():
                out[k] = out.get(k, 0) + v
    else:
        for k1, v1 in a.items():
            for k2, v2 in b.items():
                k = tuple(sorted(k1 + k2))
                out[k] = out.get(k, 0) + v1 * v2
    return {k: v for k, v in out.items() if v}


def expr_case(ctx, qp, rng, gi):
    from pennylane.resource import Expression, SpecsResources

    t1, t2 = gen_tree(rng), gen_tree(rng)
    w = {"tree1": repr(t1), "tree2": repr(t2)}
    ctx.ev("expr.arith")
    try:
        e1, e2 = build_expr(Expression, t1), build_expr(Expression, t2)
        env = {v: int(rng.integers(-4, 7)) for v in VARS}
        bad = None
        for (e, t) in ((e1, t1), (e2, t2), (e1 + e2 if not (isinstance(e1, int) and isinstance(e2, int)) else None, ("+", t1, t2)),
                       (e1 * e2 if not (isinstance(e1, int) and isinstance(e2, int)) else None, ("*", t1, t2))):
            if e is None:
                continue
            want = eval_tree(t, env)
            if isinstance(e, int):
                have = e
                if poly_of(t) not in ({}, {(): e}):
                    bad = ("collapsed-to-int", have, poly_of(t))
            else:
                used = {v: env[v] for v in e.vars}
                have = e.subs(used) if used else int(e)
                # partial substitution then the rest
                vs = sorted(e.vars)
                if len(vs) >= 2:
                    first = {vs[0]: env[vs[0]]}
                    part = e.subs(first)
                    rest = {v: env[v] for v in vs[1:] if not isinstance(part, int) and v in part.vars}
                    have2 = part if isinstance(part, int) else (part.subs(rest) if rest else int(part))
                    if int(have2) != want:
                        bad = ("partial-subs", int(have2), want)
                p = poly_of(t)
                if dict(e._data) != p and {tuple(sorted(k)): v for k, v in e._data.items()} != p:
                    bad = bad or ("polynomial", dict(e._data), p)
            if int(have) != want:
                bad = ("value", int(have), want)
            if bad:
                ctx.violation("expr.arith", f"Expression built from {t!r}: {bad[0]} gives {bad[1]}, integer arithmetic gives {bad[2]} at {env}", case={**w, "env": env},
                              mech=f"expr:{bad[0]}", observed=bad[1], expected=bad[2])
                return
        # equality / hash follow the polynomial
        ctx.ev("expr.arith")
        same = poly_of(t1) == poly_of(t2)
        if (e1 == e2) != same or (same and hash(e1) != hash(e2)):
            ctx.violation("expr.arith", f"== / hash of expressions disagree with polynomial equality ({same})", case=w, mech="expr:eq-hash")
            return
        # SpecsResources.subs
        if not isinstance(e1, int) and e1.vars:
            ctx.ev("expr.arith")
            res = SpecsResources(counts={"CNOT": e1, "RX": 2}, measurement_processes={"expval(PauliZ)": 1}, num_wires=3, circuit_depth=None)
            sub = res.subs({v: env[v] for v in e1.vars})
            want = eval_tree(t1, env)
            if sub.counts["CNOT"] != want or sub.counts["RX"] != 2 or sub.total_quantum_operations != want + 2 or sub.is_symbolic or res.vars != frozenset(e1.vars):
                ctx.violation("expr.arith", f"SpecsResources.subs gives counts {sub.counts}, total {sub.total_quantum_operations}; expected CNOT={want}, total={want + 2}",
                              case={**w, "env": env}, mech="expr:specs-subs")
                return
    except Exception as e:  # noqa: BLE001
        ctx.violation("expr.arith", f"Expression arithmetic raised {type(e).__name__}: {e}", case=w, mech=f"expr-raise:{type(e).__name__}")
        return
    p1 = poly_of(t1)
    ctx.case(fingerprint("expr", t1, t2), nontrivial=len({v for k in p1 for v in k}) >= 2 and any(len(k) >= 2 for k in p1), cls="expr",
             sample={"tree": repr(t1)[:160], "polynomial": {"*".join(k) or "1": v for k, v in p1.items()}})


def run(ctx):
    import pennylane as qp
    from pv.gen import num

    warnings.filterwarnings("ignore")
    # keep a complete list of violation mechanisms in evidence (the bus stores only the first witnesses)
    _orig_violation = ctx.violation

    def _violation(monitor, message, case=None, mech=None, observed=None, expected=None):
        ctx.note_add("violation_mechs", f"{monitor}|{mech}", cap=150)
        ctx.count(f"violations.{mech}")
        return _orig_violation(monitor, message, case=case, mech=mech, observed=observed, expected=expected)
    ctx.violation = _violation
    UT = make_user_transforms(qp)
    N = ctx.n(900, 16000)
    indices = range(ctx.shard, N * ctx.nshards, ctx.nshards)
    if ctx.only_case is not None:
        indices = [ctx.only_case]
    for n_done, gi in enumerate(indices):
        if n_done and n_done % 16 == 0 and not ctx.more():
            break
        ctx.case_index = gi
        rng = ctx.case_rng(gi)
        r = gi % 9
        if r < 4:
            tape_case(ctx, qp, num, rng, gi)
        elif r < 7:
            with ctx.guard("qnode.specs"):
                qnode_case(ctx, qp, num, rng, gi, UT)
        else:
            expr_case(ctx, qp, rng, gi)
