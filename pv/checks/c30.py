"""C30 — Sample post-processing is exact.

Deciding monitors: post-conditions on the real ``MeasurementProcess.process_samples`` / ``process_counts`` of
expval / var / probs / counts / sample measurement processes against plain arithmetic on the very same generated
sample array: every shot row is restricted to the measurement's wires (looked up through the harness' own
wire -> column map), turned into a big-endian index by a Horner loop, mapped to the eigenvalue the harness computed
itself (diag(U O U^dagger) with O assembled from the generator's own term list and U the reference-table matrix of the
measurement's diagonalising gates; the explicit ``eigvals=`` array for wires+eigvals measurements; the generator's own
expression tree evaluated on the shot's outcomes for mid-circuit measurement values) and then averaged / histogrammed.
"""
import warnings
from collections import Counter

import numpy as np

from pv.ctx import fingerprint

META = {
    "id": "C30",
    "level": "exploration",
    "technique": "runtime post-conditions on process_samples/process_counts vs. plain numpy/Counter arithmetic on the same generated sample arrays",
    "level_text": "Generated sample arrays (1-6 wires, odd labels, permuted/superset wire orders, biased bits so outcomes go missing, optional "
                  "batch axis, shot ranges, bins) are pushed through the real expval/var/probs/counts/sample measurement processes built from "
                  "wires, observables (Pauli words, scaled words, commuting sums, Hamiltonians, Hermitian, Projector), explicit eigenvalue arrays "
                  "(as produced by diagonalize_measurements(to_eigvals=True)) and mid-circuit measurement values (single, lists, arithmetic); "
                  "each result is compared with the harness' own per-shot arithmetic; the same samples are also folded into a counts dictionary "
                  "and pushed through process_counts.",
    "level_note": "The eigenvalue attached to a sample index is defined operationally: diag(U O U^dagger) where U is the matrix of the measurement's own "
                  "diagonalising gates computed with the reference gate table (QubitUnitary: its data) - so the pairing (diagonalising gates, eigenvalue "
                  "order) is what is trusted, not obs.eigvals(). bin_size is documented only as 'bins of size bin_size': a result is accepted when it "
                  "equals the statistic over contiguous OR over strided bins (which one is recorded in evidence). jax/torch sample arrays are not driven.",
    "design_ref": "7/C30",
    "shards": {"quick": 2, "thorough": 16},
    "budget_s": {"quick": 45, "thorough": 300},
    "min_evals": {"quick": 1500, "thorough": 30000},
    "deciding": ["process_samples.expval", "process_samples.var", "process_samples.probs", "process_samples.counts",
                 "process_samples.sample", "process_counts.expval", "process_counts.var", "process_counts.probs",
                 "process_counts.counts", "process_counts.sample"],
    "rule": "case = (measurement process, wire order, sample array, shot range / bins); distinct = fingerprint of all of these; non-trivial = "
            "at least 2 shots, at least two different sample rows on the measured wires, and the measured wires are not simply the device order",
    "assumptions": ["population variance (ddof=0) is the documented sample variance", "numpy mean/Counter arithmetic is correct"],
}

I2 = np.eye(2, dtype=complex)
PAULI = {
    "X": np.array([[0, 1], [1, 0]], dtype=complex),
    "Y": np.array([[0, -1j], [1j, 0]], dtype=complex),
    "Z": np.array([[1, 0], [0, -1]], dtype=complex),
    "H": np.array([[1, 1], [1, -1]], dtype=complex) / np.sqrt(2),
    "I": I2,
}


# ----------------------------------------------------------------------------- observables
def _word(qp, letters_wires):
    cls = {"X": qp.X, "Y": qp.Y, "Z": qp.Z, "H": qp.Hadamard, "I": qp.Identity}
    fac = [cls[l](w) for l, w in letters_wires]
    ob = fac[0]
    for f in fac[1:]:
        ob = ob @ f
    return ob


def gen_obs(qp, rng, labels):
    """Returns (observable, family, description) ; description = ("terms", [(coeff, [(letter, wire)…])…]) |
    ("herm", matrix, wires) | ("proj", bits, wires)."""
    fam = ["pauli", "pauli", "sprod", "zsum", "qwcsum", "ham", "herm", "proj"][int(rng.integers(8))]
    nw = len(labels)
    pick = lambda k: [labels[int(i)] for i in rng.choice(nw, size=k, replace=False)]  # noqa: E731
    if fam in ("pauli", "sprod"):
        k = int(rng.integers(1, min(3, nw) + 1))
        lw = [("XYZH"[int(rng.integers(4))], w) for w in pick(k)]
        ob = _word(qp, lw)
        c = 1.0
        if fam == "sprod":
            c = float(np.round(rng.normal(), 3)) or 0.5
            ob = c * ob if rng.random() < 0.5 else qp.s_prod(c, ob)
        return ob, fam, ("terms", [(c, lw)])
    if fam in ("zsum", "qwcsum", "ham"):
        basis = {w: ("Z" if fam == "zsum" else "XYZ"[int(rng.integers(3))]) for w in labels}
        nt = int(rng.integers(2, 5))
        terms, seen = [], set()
        for _ in range(nt):
            k = int(rng.integers(1, min(3, nw) + 1))
            ws = pick(k)
            key = frozenset(ws)
            if key in seen:
                continue
            seen.add(key)
            terms.append((float(np.round(rng.normal(), 3)) or 1.0, [(basis[w], w) for w in ws]))
        if fam == "ham":
            ob = qp.Hamiltonian([c for c, _ in terms], [_word(qp, lw) for _, lw in terms])
        else:
            ops = [c * _word(qp, lw) for c, lw in terms]
            if rng.random() < 0.25:
                c0 = float(np.round(rng.normal(), 3))
                ops.append(c0 * qp.Identity(labels[0]))
                terms.append((c0, [("I", labels[0])]))
            ob = qp.sum(*ops) if len(ops) > 1 else ops[0]
        return ob, fam, ("terms", terms)
    if fam == "herm":
        k = 1 if nw < 2 or rng.random() < 0.5 else 2
        ws = pick(k)
        A = rng.normal(size=(2**k, 2**k)) + 1j * rng.normal(size=(2**k, 2**k))
        A = np.round(A + A.conj().T, 3)
        return qp.Hermitian(A, wires=ws), fam, ("herm", A, ws)
    k = int(rng.integers(1, min(3, nw) + 1))
    ws = pick(k)
    bits = [int(b) for b in rng.integers(0, 2, size=k)]
    return qp.Projector(bits, wires=ws), "proj", ("proj", bits, ws)


def obs_matrix(desc, W):
    """Matrix of the described observable on the wire list W (first wire most significant) — harness code only."""
    from pv.ref import sv

    n = len(W)
    if desc[0] == "terms":
        O = np.zeros((2**n, 2**n), dtype=complex)
        for c, lw in desc[1]:
            M = np.array([[1.0 + 0j]])
            for l, _ in lw:
                M = np.kron(M, PAULI[l])
            O = O + c * sv.embed(M, [w for _, w in lw], list(W))
        return O
    if desc[0] == "herm":
        return sv.embed(np.asarray(desc[1], dtype=complex), list(desc[2]), list(W))
    bits, ws = desc[1], desc[2]
    idx = 0
    for b in bits:
        idx = idx * 2 + b
    P = np.zeros((2 ** len(ws),) * 2, dtype=complex)
    P[idx, idx] = 1.0
    return sv.embed(P, list(ws), list(W))


def eig_by_index(mp, desc):
    """Eigenvalue attached to each computational-basis index (over mp.wires) after the measurement's own
    diagonalising gates: Re diag(U O U^dagger).  Returns (vector, off-diagonal residue, independent fraction)."""
    from pv.ref import bridge

    W = list(mp.wires)
    O = obs_matrix(desc, W)
    gates = list(mp.diagonalizing_gates())
    if gates:
        U, frac = bridge.tape_unitary(gates, W)
    else:
        U, frac = np.eye(2 ** len(W), dtype=complex), 1.0
    D = U @ O @ U.conj().T
    off = float(np.abs(D - np.diag(np.diag(D))).max()) if D.size > 1 else 0.0
    return np.real(np.diag(D)).copy(), off, frac


# ----------------------------------------------------------------------------- mid-circuit measurement expressions
ARITH = ["+", "-", "*", "/c", "%c", "c+", "c-", "c*"]
CMP = ["==", "!=", "<", "<=", ">", ">="]


def gen_arith(rng, nleaf, depth=0):
    r = rng.random()
    if depth >= 2 or r < 0.35:
        return ("m", int(rng.integers(nleaf)))
    op = ARITH[int(rng.integers(len(ARITH)))]
    a = gen_arith(rng, nleaf, depth + 1)
    if op in ("+", "-", "*"):
        return (op, a, gen_arith(rng, nleaf, depth + 1))
    c = [2, 3, 0.5, -1.5, 2.5, 4, -2][int(rng.integers(7))]
    if op == "%c":
        c = [2, 3][int(rng.integers(2))]
    return (op, a, c)


def gen_mv_expr(rng, nleaf):
    r = rng.random()
    a = gen_arith(rng, nleaf)
    if r < 0.55:
        return a
    rhs = gen_arith(rng, nleaf) if rng.random() < 0.5 else [0, 1, 2, 0.5][int(rng.integers(4))]
    c = ("cmp", CMP[int(rng.integers(len(CMP)))], a, rhs)
    if r < 0.8:
        return c
    c2 = ("cmp", CMP[int(rng.integers(len(CMP)))], gen_arith(rng, nleaf), [0, 1][int(rng.integers(2))])
    kind = ["&", "|", "^", "~"][int(rng.integers(4))]
    return ("~", c) if kind == "~" else (kind, c, c2)


def build_mv(e, leaves):
    """Real MeasurementValue from the expression tree (uses the public operators)."""
    t = e[0]
    if t == "m":
        return leaves[e[1]]
    if t in ("+", "-", "*"):
        a, b = build_mv(e[1], leaves), build_mv(e[2], leaves)
        return a + b if t == "+" else a - b if t == "-" else a * b
    if t == "/c":
        return build_mv(e[1], leaves) / e[2]
    if t == "%c":
        return build_mv(e[1], leaves) % e[2]
    if t == "c+":
        return e[2] + build_mv(e[1], leaves)
    if t == "c-":
        return e[2] - build_mv(e[1], leaves)
    if t == "c*":
        return e[2] * build_mv(e[1], leaves)
    if t == "cmp":
        a = build_mv(e[2], leaves)
        b = build_mv(e[3], leaves) if isinstance(e[3], tuple) else e[3]
        return {"==": lambda: a == b, "!=": lambda: a != b, "<": lambda: a < b, "<=": lambda: a <= b,
                ">": lambda: a > b, ">=": lambda: a >= b}[e[1]]()
    if t == "~":
        return ~build_mv(e[1], leaves)
    a, b = build_mv(e[1], leaves), build_mv(e[2], leaves)
    return a & b if t == "&" else a | b if t == "|" else a ^ b


def eval_expr(e, bits):
    """Plain-python value of the expression for one shot (bits = outcome of each leaf)."""
    t = e[0]
    if t == "m":
        return int(bits[e[1]])
    if t in ("+", "-", "*"):
        a, b = eval_expr(e[1], bits), eval_expr(e[2], bits)
        return a + b if t == "+" else a - b if t == "-" else a * b
    if t == "/c":
        return eval_expr(e[1], bits) / e[2]
    if t == "%c":
        return eval_expr(e[1], bits) % e[2]
    if t == "c+":
        return e[2] + eval_expr(e[1], bits)
    if t == "c-":
        return e[2] - eval_expr(e[1], bits)
    if t == "c*":
        return e[2] * eval_expr(e[1], bits)
    if t == "cmp":
        a = eval_expr(e[2], bits)
        b = eval_expr(e[3], bits) if isinstance(e[3], tuple) else e[3]
        return {"==": a == b, "!=": a != b, "<": a < b, "<=": a <= b, ">": a > b, ">=": a >= b}[e[1]]
    if t == "~":
        return not eval_expr(e[1], bits)
    a, b = bool(eval_expr(e[1], bits)), bool(eval_expr(e[2], bits))
    return (a and b) if t == "&" else (a or b) if t == "|" else (a != b)


def expr_leaves(e, out=None):
    out = set() if out is None else out
    if e[0] == "m":
        out.add(e[1])
    else:
        for x in e[1:]:
            if isinstance(x, tuple):
                expr_leaves(x, out)
    return out


# ----------------------------------------------------------------------------- reference arithmetic
def horner(rows):
    """Big-endian index of each 0/1 row (last axis = wires)."""
    idx = np.zeros(rows.shape[:-1], dtype=np.int64)
    for j in range(rows.shape[-1]):
        idx = idx * 2 + rows[..., j].astype(np.int64)
    return idx


def fkey(k):
    if isinstance(k, (bool, np.bool_)):
        return float(bool(k))
    return float(k)


def norm_num_counts(d, tol):
    """dict keyed by numbers -> sorted list of (value, count), keys closer than tol merged."""
    items = sorted((fkey(k), int(v)) for k, v in d.items())
    out = []
    for k, v in items:
        if out and abs(k - out[-1][0]) <= tol:
            out[-1][1] += v
        else:
            out.append([k, v])
    return out


def same_num_counts(a, b, tol):
    a, b = norm_num_counts(a, tol), norm_num_counts(b, tol)
    return len(a) == len(b) and all(abs(x[0] - y[0]) <= tol and x[1] == y[1] for x, y in zip(a, b))


def same_str_counts(a, b):
    return {str(k): int(v) for k, v in a.items()} == {str(k): int(v) for k, v in b.items()}


class Case:
    """One measurement process + how the harness values a shot."""

    def __init__(self, mp, kind, fam, mode, wires, eig=None, expr=None, leaf_wires=None, all_outcomes=False, tol_scale=1.0):
        self.mp, self.kind, self.fam, self.mode = mp, kind, fam, mode  # mode: "bits" | "eig" | "expr"
        self.wires = list(wires)  # measured wires in the order that defines rows / strings / indices
        self.eig, self.expr, self.leaf_wires = eig, expr, leaf_wires
        self.all_outcomes = all_outcomes
        self.scale = tol_scale

    # value of each shot (array over leading axes) ; rows = samples[..., cols]
    def values(self, S, colmap):
        if self.mode == "eig":
            rows = S[..., [colmap[w] for w in self.wires]]
            return np.asarray(self.eig)[horner(rows)]
        lw = self.leaf_wires
        rows = S[..., [colmap[w] for w in lw]]
        flat = rows.reshape(-1, len(lw))
        vals = [eval_expr(self.expr, r) for r in flat]
        return np.array([float(v) for v in vals]).reshape(rows.shape[:-1])

    def all_values(self):
        if self.mode == "eig":
            return [float(x) for x in self.eig]
        n = len(self.leaf_wires)
        used = sorted(expr_leaves(self.expr))
        out = []
        for b in range(2 ** len(used)):
            bits = [0] * n
            for j, u in enumerate(used):
                bits[u] = (b >> (len(used) - 1 - j)) & 1
            out.append(float(eval_expr(self.expr, bits)))
        return out


def ref_stat(case, S, colmap):
    """Reference result for non-batched or batched S (shots axis = -2)."""
    k = case.kind
    if case.mode == "bits":
        rows = S[..., [colmap[w] for w in case.wires]]
        nb = len(case.wires)
        if k == "probs":
            idx = horner(rows)
            out = np.zeros(idx.shape[:-1] + (2**nb,))
            for b in range(2**nb):
                out[..., b] = (idx == b).sum(axis=-1) / idx.shape[-1]
            return out
        if k == "sample":
            return rows

        def one(r):
            c = Counter("".join(str(int(x)) for x in row) for row in r)
            if case.all_outcomes:
                for b in range(2**nb):
                    c.setdefault(format(b, f"0{nb}b") if nb else "", 0)
            return dict(c)
        return one(rows) if rows.ndim == 2 else [one(r) for r in rows]
    v = case.values(S, colmap)
    if k == "expval":
        return v.sum(axis=-1) / v.shape[-1]
    if k == "var":
        m = v.sum(axis=-1, keepdims=True) / v.shape[-1]
        return ((v - m) ** 2).sum(axis=-1) / v.shape[-1]
    if k == "sample":
        return v
    if k == "probs":  # probs(op=obs) / probs(op=mv): distribution over the index, not the eigenvalue
        raise RuntimeError("probs handled in bits mode")

    def one(r):
        c = Counter(float(x) for x in r)
        if case.all_outcomes:
            for x in case.all_values():
                c.setdefault(float(x), 0)
        return dict(c)
    return one(v) if v.ndim == 1 else [one(r) for r in v]


# ----------------------------------------------------------------------------- case generation
def gen_case(qp, rng, labels):
    from pennylane.measurements import CountsMP, ExpectationMP, ProbabilityMP, SampleMP, VarianceMP

    nw = len(labels)
    src = ["wires", "obs", "obs", "eigvals", "mcm", "mcm"][int(rng.integers(6))]
    pick = lambda k: [labels[int(i)] for i in rng.choice(nw, size=k, replace=False)]  # noqa: E731
    if src == "wires":
        kind = ["probs", "counts", "sample"][int(rng.integers(3))]
        ao = bool(rng.integers(2))
        if rng.random() < 0.15:
            ws, arg = list(labels), None  # all device wires, in device order (filled in by caller)
        else:
            ws = pick(int(rng.integers(1, nw + 1)))
            arg = ws
        mp = {"probs": lambda: qp.probs(wires=arg), "counts": lambda: qp.counts(wires=arg, all_outcomes=ao),
              "sample": lambda: qp.sample(wires=arg)}[kind]()
        return Case(mp, kind, "wires" if arg is not None else "allwires", "bits", ws, all_outcomes=ao), {"wires": arg}
    if src == "obs":
        ob, fam, desc = gen_obs(qp, rng, labels)
        kinds = ["expval", "var", "sample", "counts"] + (["probs"] if fam in ("pauli", "proj") else [])
        kind = kinds[int(rng.integers(len(kinds)))]
        ao = bool(rng.integers(2))
        mp = {"expval": lambda: qp.expval(ob), "var": lambda: qp.var(ob), "sample": lambda: qp.sample(ob),
              "counts": lambda: qp.counts(ob, all_outcomes=ao), "probs": lambda: qp.probs(op=ob)}[kind]()
        d = {"obs": repr(ob), "family": fam}
        if kind == "probs":
            return Case(mp, kind, fam, "bits", list(mp.wires)), d
        eig, off, frac = eig_by_index(mp, desc)
        c = Case(mp, kind, fam, "eig", list(mp.wires), eig=eig, all_outcomes=ao, tol_scale=max(1.0, float(np.abs(eig).max())))
        c.off, c.frac = off, frac
        return c, d
    if src == "eigvals":
        kind = ["expval", "var", "sample", "counts", "probs"][int(rng.integers(5))]
        ws = pick(int(rng.integers(1, min(3, nw) + 1)))
        dim = 2 ** len(ws)
        r = rng.random()
        if r < 0.2 and dim == 2:
            ev = np.array([1.0, -1.0])
        elif r < 0.6:  # degenerate spectrum, as from a Pauli word
            ev = np.array([[1.0, -1.0, 0.5, 2.0][int(x)] for x in rng.integers(0, 3, size=dim)])
        else:
            ev = np.round(rng.normal(size=dim), 3)
        ao = bool(rng.integers(2))
        mp = {"expval": lambda: ExpectationMP(eigvals=ev, wires=ws), "var": lambda: VarianceMP(eigvals=ev, wires=ws),
              "sample": lambda: SampleMP(eigvals=ev, wires=ws), "counts": lambda: CountsMP(eigvals=ev, wires=ws, all_outcomes=ao),
              "probs": lambda: ProbabilityMP(eigvals=ev, wires=ws)}[kind]()
        d = {"eigvals": ev.tolist(), "wires": ws}
        if kind == "probs":
            return Case(mp, kind, "eigvals", "bits", ws), d
        return Case(mp, kind, "eigvals", "eig", ws, eig=ev, all_outcomes=ao, tol_scale=max(1.0, float(np.abs(ev).max()))), d
    # mid-circuit measurement values: leaf j = qp.measure(wire_j), its outcome is the sample column of wire_j
    nleaf = int(rng.integers(1, min(3, nw) + 1))
    lws = pick(nleaf)
    leaves = [qp.measure(w) for w in lws]
    r = rng.random()
    ao = bool(rng.integers(2))
    if r < 0.3:  # list of measurement values
        kind = ["probs", "counts", "sample"][int(rng.integers(3))]
        order = [int(i) for i in rng.permutation(nleaf)]
        lst = [leaves[i] for i in order]
        mp = {"probs": lambda: qp.probs(op=lst), "counts": lambda: qp.counts(lst, all_outcomes=ao), "sample": lambda: qp.sample(lst)}[kind]()
        return Case(mp, kind, "mcm-list", "bits", [lws[i] for i in order], all_outcomes=ao), {"mcm_list_wires": [lws[i] for i in order]}
    if r < 0.4:
        j = int(rng.integers(nleaf))
        mp = qp.probs(op=leaves[j])
        return Case(mp, "probs", "mcm-single", "bits", [lws[j]]), {"mcm_wire": lws[j]}
    e = ("m", int(rng.integers(nleaf))) if r < 0.55 else gen_mv_expr(rng, nleaf)
    mv = build_mv(e, leaves)
    kind = ["expval", "var", "sample", "counts"][int(rng.integers(4))]
    mp = {"expval": lambda: qp.expval(mv), "var": lambda: qp.var(mv), "sample": lambda: qp.sample(mv),
          "counts": lambda: qp.counts(mv, all_outcomes=ao)}[kind]()
    c = Case(mp, kind, "mcm-expr" if e[0] != "m" else "mcm-single", "expr", [lws[i] for i in sorted(expr_leaves(e))], expr=e,
             leaf_wires=lws, all_outcomes=ao, tol_scale=8.0)
    return c, {"mcm_expr": repr(e), "leaf_wires": lws}


def gen_samples(rng, nw):
    shots = int([1, 2, 3, 4, 6, 8, 12, 17, 60, 100, 1000, int(rng.integers(1, 2001))][int(rng.integers(12))])
    batch = None if rng.random() < 0.7 else int(rng.integers(1, 4))
    p = np.array([[0.0, 1.0, 0.5, rng.random(), rng.random()][int(rng.integers(5))] for _ in range(nw)])
    shape = (shots, nw) if batch is None else (batch, shots, nw)
    return (rng.random(size=shape) < p).astype(np.int64), shots, batch


# ----------------------------------------------------------------------------- comparison
def compare(ctx, case, got, ref, tol):
    """Returns None if equal, else a short description."""
    k = case.kind
    if k in ("expval", "var"):
        g = np.asarray(got, dtype=float)
        r = np.asarray(ref, dtype=float)
        if g.shape != np.squeeze(r).shape and g.shape != r.shape:
            return f"shape {g.shape} != {r.shape}"
        if not np.allclose(g.reshape(-1), r.reshape(-1), rtol=0, atol=tol * (case.scale if k == "expval" else case.scale**2)):
            return "value"
        return None
    if k == "probs":
        g = np.asarray(got, dtype=float)
        r = np.asarray(ref, dtype=float)
        if g.shape != r.shape and g.shape != np.squeeze(r).shape:
            return f"shape {g.shape} != {r.shape}"
        return None if np.allclose(g.reshape(-1), r.reshape(-1), rtol=0, atol=tol) else "value"
    if k == "sample":
        g = np.asarray(got)
        r = np.asarray(ref)
        if g.shape != r.shape:
            return f"shape {g.shape} != {r.shape}"
        if case.mode == "bits":
            return None if np.array_equal(g.astype(np.int64), r.astype(np.int64)) else "value"
        return None if np.allclose(g.astype(float), r.astype(float), rtol=0, atol=tol * case.scale) else "value"
    # counts
    def one(gd, rd):
        if not isinstance(gd, dict):
            return f"not a dict: {type(gd).__name__}"
        if case.mode == "bits":
            return None if same_str_counts(gd, rd) else "value"
        return None if same_num_counts(gd, rd, tol * case.scale) else "value"
    if isinstance(ref, list):
        if not isinstance(got, (list, tuple)) or len(got) != len(ref):
            return "batch structure"
        for gd, rd in zip(got, ref):
            m = one(gd, rd)
            if m:
                return m
        return None
    return one(got, ref)


def _int_rmul_of_fraction(e, nleaf):
    """True if the expression contains  <int constant> * <sub-expression>  whose sub-expression takes a non-integer
    value on some branch (MeasurementValue.__rmul__ casts the value to the constant's dtype)."""
    if not isinstance(e, tuple) or e[0] == "m":
        return False
    if e[0] == "c*" and isinstance(e[2], int):
        for b in range(2**nleaf):
            v = eval_expr(e[1], [(b >> j) & 1 for j in range(nleaf)])
            if float(v) != int(v):
                return True
    return any(_int_rmul_of_fraction(x, nleaf) for x in e[1:] if isinstance(x, tuple))


def _only_lost_counts(got, ref):
    """True if every observed dictionary has only keys of the expected one, never more counts per key, and fewer in total
    (what overwriting - instead of adding - the counts of outcomes that share an eigenvalue produces)."""
    try:
        gs, rs = (got, ref) if isinstance(ref, list) else ([got], [ref])
        lost = False
        for g, r in zip(gs, rs):
            g = {float(k): int(v) for k, v in g.items()}
            r = {float(k): int(v) for k, v in r.items()}
            if any(k not in r or v > r[k] for k, v in g.items()):
                return False
            lost |= sum(g.values()) < sum(r.values())
        return lost and len(gs) == len(rs)
    except Exception:  # noqa: BLE001
        return False


def classify(prefix, case, bad, got=None, ref=None):
    """Mechanism tag of a disagreement (stable, computed from the witness' structure)."""
    ev = getattr(case.mp, "_eigvals", None)
    if case.kind == "counts" and case.fam == "eigvals" and prefix in ("ps", "bins") and ev is not None \
            and len(set(np.asarray(ev).tolist())) < len(ev) and _only_lost_counts(got, ref):
        return "counts-eigvals:degenerate-keys-overwritten"
    if prefix == "pc" and case.fam == "mcm-list" and case.kind in ("counts", "sample"):
        # outcomes reported as the integer index of the bit string instead of the bit string / bit row ?
        try:
            nb = len(case.wires)
            if case.kind == "counts":
                conv = {format(int(float(k)), f"0{nb}b"): int(v) for k, v in got.items()}
                if conv == {str(k): int(v) for k, v in ref.items()}:
                    return "process_counts:mcm-list:index-instead-of-bits"
            else:
                g = sorted(int(x) for x in np.asarray(got).reshape(-1))
                if np.asarray(got).ndim == 1 and g == sorted(int(x) for x in horner(np.asarray(ref))):
                    return "process_counts:mcm-list:index-instead-of-bits"
        except Exception:  # noqa: BLE001
            pass
    if case.mode == "expr" and _int_rmul_of_fraction(case.expr, len(case.leaf_wires)):
        return "mv-arith:int-rmul-truncates-fraction"
    ao = "allout" if case.all_outcomes and case.kind == "counts" else "plain"
    return f"{prefix}:{case.kind}:{case.fam}:{ao}:{bad.split()[0]}"


def show(x):
    if isinstance(x, dict):
        return {str(k): int(v) for k, v in x.items()}
    if isinstance(x, (list, tuple)):
        return [show(y) for y in x]
    return x


def run(ctx):
    import pennylane as qp
    from pv.gen import num

    warnings.filterwarnings("ignore")
    # keep a complete list of violation mechanisms in evidence (the bus stores only the first witnesses)
    _orig_violation = ctx.violation

    def _violation(monitor, message, case=None, mech=None, observed=None, expected=None):
        ctx.note_add("violation_mechs", f"{monitor}|{mech}", cap=150)
        ctx.count(f"violations.{mech}")
        return _orig_violation(monitor, message, case=case, mech=mech, observed=observed, expected=expected)
    ctx.violation = _violation
    TOL = 1e-9
    N = ctx.n(3000, 24000)
    indices = range(ctx.shard, N * ctx.nshards, ctx.nshards)
    if ctx.only_case is not None:
        indices = [ctx.only_case]
    for n_done, gi in enumerate(indices):
        if n_done and n_done % 64 == 0 and not ctx.more():
            break
        ctx.case_index = gi
        rng = ctx.case_rng(gi)
        nw = int(rng.integers(1, 7))
        labels = num.wire_labels(rng, nw)
        order = [labels[int(i)] for i in rng.permutation(nw)]  # device / sample column order
        colmap = {w: i for i, w in enumerate(order)}
        try:
            case, d = gen_case(qp, rng, labels)
        except Exception as e:  # noqa: BLE001 - constructing an admitted measurement must not fail
            ctx.inconclusive_case(f"generator/constructor: {type(e).__name__}: {e}")
            continue
        if case.fam == "allwires":
            case.wires = list(order)
        S, shots, batch = gen_samples(rng, nw)
        mp, kind = case.mp, case.kind
        # observables: the pairing (diagonalising gates, eigenvalue order) must really be diagonal
        if getattr(case, "off", 0.0) > 1e-7 * case.scale:
            ctx.ev("obs.diagonalising_gates")
            ctx.violation("obs.diagonalising_gates", f"diagonalising gates of {mp!r} do not diagonalise the observable (residue {case.off:.2e})",
                          case=d, mech=f"diag-gates:{case.fam}")
            continue
        shot_range = None
        Suse = S
        if rng.random() < 0.3 and shots >= 2:
            lo = int(rng.integers(0, shots - 1))
            hi = int(rng.integers(lo + 1, shots + 1))
            shot_range = (lo, hi)
            Suse = S[..., lo:hi, :]
        nshots = Suse.shape[-2]
        rows = Suse[..., [colmap[w] for w in case.wires]].reshape(-1, len(case.wires))
        nontrivial = nshots >= 2 and len({tuple(r) for r in rows[:64]}) >= 2 and case.wires != order[: len(case.wires)]
        ctx.case(fingerprint(repr(mp), kind, case.fam, repr(d), order, S, shot_range), nontrivial=nontrivial,
                 cls=f"{kind}/{case.fam}" + ("/batched" if batch else ""),
                 sample={"mp": repr(mp)[:120], "wire_order": order, "shots": shots, "batch": batch, "shot_range": shot_range, **{k: (v if not isinstance(v, str) else v[:120]) for k, v in d.items()}})
        witness = {"mp": repr(mp)[:300], "kind": kind, "family": case.fam, "wire_order": order, "shot_range": shot_range,
                   "samples": S if S.size <= 64 else {"shape": list(S.shape)}, **d}

        # ---------------- process_samples
        mon = f"process_samples.{kind}"
        try:
            ref = ref_stat(case, Suse, colmap)
        except Exception as e:  # noqa: BLE001
            ctx.inconclusive_case(f"reference failed: {type(e).__name__}: {e}")
            continue
        ctx.ev(mon)
        try:
            got = mp.process_samples(S, qp.wires.Wires(order) if rng.random() < 0.5 else order, shot_range=shot_range)
            bad = compare(ctx, case, got, ref, TOL)
            if bad:
                ctx.violation(mon, f"{mp!r}.process_samples differs from direct arithmetic on the samples ({bad})", case=witness,
                              mech=classify("ps", case, bad, got, ref),
                              observed=show(got), expected=show(ref))
        except Exception as e:  # noqa: BLE001
            ctx.violation(mon, f"{mp!r}.process_samples raised {type(e).__name__}: {e}", case=witness,
                          mech=f"ps-raise:{kind}:{case.fam}:{type(e).__name__}")

        # ---------------- bins (non-batched; expval / var / probs / counts)
        if batch is None and kind in ("expval", "var", "probs", "counts") and nshots >= 2 and rng.random() < 0.35:
            divs = [b for b in range(1, nshots + 1) if nshots % b == 0]
            bs = int(divs[int(rng.integers(len(divs)))])
            nb = nshots // bs
            contiguous = Suse.reshape(nb, bs, nw)
            strided = Suse.reshape(bs, nb, nw).transpose(1, 0, 2)
            ctx.ev("process_samples.bins")
            try:
                gotb = mp.process_samples(S, order, shot_range=shot_range, bin_size=bs)
                oks = {}
                for nm, binned in (("contiguous", contiguous), ("strided", strided)):
                    refb = ref_stat(case, binned, colmap)
                    if kind == "probs":
                        refb = np.asarray(refb).T  # documented layout of binned probs: (2**n, number of bins)
                    oks[nm] = compare(ctx, case, gotb, refb, TOL) is None
                if not any(oks.values()):
                    refc_ = ref_stat(case, contiguous, colmap)
                    ctx.violation("process_samples.bins", f"{mp!r}.process_samples(bin_size={bs}) matches neither contiguous nor strided bins",
                                  case={**witness, "bin_size": bs}, mech=classify("bins", case, "value", gotb, refc_), observed=show(gotb),
                                  expected=show(refc_) if kind != "probs" else None)
                elif nb > 1 and bs > 1 and oks["contiguous"] != oks["strided"]:
                    ctx.count(f"bins.{kind}.{'contiguous' if oks['contiguous'] else 'strided'}")
            except Exception as e:  # noqa: BLE001
                ctx.violation("process_samples.bins", f"{mp!r}.process_samples(bin_size={bs}) raised {type(e).__name__}: {e}",
                              case={**witness, "bin_size": bs}, mech=f"bins-raise:{kind}:{case.fam}:{type(e).__name__}")

        # ---------------- process_counts on the same (non-batched) samples folded into a dictionary
        # (measurements without wires are excluded: the only caller, measurements_from_counts, rejects them up front)
        if batch is None and case.fam != "allwires":
            cnt = Counter("".join(str(int(x)) for x in row) for row in Suse)
            cdict = dict(cnt)
            if rng.random() < 0.4:  # all_outcomes=True style input: zero entries present
                for b in range(2**nw):
                    cdict.setdefault(format(b, f"0{nw}b"), 0)
            if rng.random() < 0.5:
                items = list(cdict.items())
                cdict = dict(items[int(i)] for i in rng.permutation(len(items)))
            monc = f"process_counts.{kind}"
            ctx.ev(monc)
            try:
                gotc = mp.process_counts(dict(cdict), qp.wires.Wires(order))
                refc = ref
                if kind == "sample":  # order of the rebuilt samples is dictionary order: compare as multisets
                    g = np.asarray(gotc)
                    r = np.asarray(ref)
                    if case.mode == "bits" and len(case.wires) == 1:
                        r = r.reshape(-1)
                    if g.shape != r.shape:
                        badc = f"shape {g.shape} != {r.shape}"
                    elif g.ndim == 2:
                        badc = None if sorted(map(tuple, g.astype(np.int64).tolist())) == sorted(map(tuple, r.astype(np.int64).tolist())) else "value"
                    else:
                        badc = None if np.allclose(np.sort(g.astype(float)), np.sort(r.astype(float)), rtol=0, atol=TOL * case.scale) else "value"
                else:
                    badc = compare(ctx, case, gotc, refc, TOL)
                if badc:
                    ctx.violation(monc, f"{mp!r}.process_counts differs from direct arithmetic on the counts ({badc})",
                                  case={**witness, "counts": cdict if len(cdict) <= 40 else {"n": len(cdict)}},
                                  mech=classify("pc", case, badc, gotc, ref),
                                  observed=show(gotc), expected=show(ref))
            except Exception as e:  # noqa: BLE001
                ctx.violation(monc, f"{mp!r}.process_counts raised {type(e).__name__}: {e}", case={**witness, "counts": cdict if len(cdict) <= 40 else {"n": len(cdict)}},
                              mech=f"pc-raise:{kind}:{case.fam}:{type(e).__name__}")
