"""C41 — Queuing records exactly the program's operations in order.

Deciding monitors
* **M-QSTACK** (``qstack.*``): ``QueuingManager.add_active_queue`` / ``remove_active_queue`` / ``stop_recording`` are
  wrapped with a shadow stack kept by the harness.  Every push must end on top, every pop must return the very
  object the shadow says is on top (LIFO identity), the real depth must equal the shadow depth after every
  operation, ``stop_recording`` must put back exactly the stack it found — also when its body raises — and the
  stack must be empty at quiescent points (start / end of every program).
* **program model** (``queue.model``, ``queue.from_queue``, ``queue.apply``): generated quantum functions (a statement
  AST: nested ``AnnotatedQueue`` / ``QuantumTape`` contexts, ``stop_recording`` as context and decorator, wrapper
  constructors in functional, eager and dunder form, functional transforms ``adjoint(fn)`` / ``ctrl(fn)`` /
  ``cond(m, fn)``, ``qp.apply`` (also with an explicit target queue), explicit ``op.queue()``, exceptions raised
  mid-body and caught further out, operators created outside and used inside) are run for real while a small
  interpreter applies the documented rules to plain Python lists:

      create            → append to the innermost recording queue (nothing if none is recording)
      wrapper(operands) → remove the operands from the innermost queue, append the wrapper
      measurement(obs)  → remove obs, append the measurement
      stop_recording    → nothing is recorded by enclosing queues
      apply(x)          → a *copy* of x is queued (with x's own queuing rule); RuntimeError when nothing records
      x.queue()         → x's own queuing rule; an object is in a queue at most once and keeps its first position
      exception         → contexts are unwound, outer queues keep recording

  After the program every real queue must equal the model list **by object identity** (copies: by content
  signature and non-identity), ``QuantumScript.from_queue`` / ``make_qscript`` / the tape built by a QNode must be
  the operator / measurement split of the same list, and the context stack must be empty again.
"""
from __future__ import annotations

import warnings

from pv.ctx import fingerprint

META = {
    "id": "C41",
    "level": "exploration",
    "technique": "ambient shadow-stack invariant monitor on QueuingManager (M-QSTACK) + generated quantum functions executed for real "
                 "beside a list-based model interpreter of the documented queuing rules; queues compared by object identity",
    "level_text": "Random structured quantum functions (nesting <= 4, wrappers, stop_recording, apply, exceptions) are recorded through "
                  "AnnotatedQueue, QuantumTape, make_qscript and QNode construction; every queue that existed during the program is compared, "
                  "element by element and by identity, with the list predicted by an independent interpreter, and every push/pop of the real "
                  "context stack is checked against a shadow stack.",
    "level_note": "The model shares only the documented rules with the implementation; operand lists come from the generated AST, never from "
                  "operator attributes. Not driven: program capture (capture.enabled()), multi-threaded recording (the global RLock), the "
                  "repository doctests under M-QSTACK (planned thorough-tier extra in DESIGN.md; no pytest plugin exists in the harness), "
                  "template/decomposition-internal queuing beyond the small ambient QNode workload. Eager / flattening constructors (lazy=False forms, the "
                  "dunders @ + * and unary minus, qp.ctrl which merges nested Controlled operators, and the bodies of ctrl(fn)) are only "
                  "given freshly created operands, because for re-used operands the statement does not say which of the flattened "
                  "constituents leave the queue; qp.apply(wrapper) is skipped while one of the wrapper's own operands sits in the target "
                  "queue (classes differ in how deep they copy; counter apply_skipped_operand_in_queue). Known and deliberately outside "
                  "the statement's quantifier (programs, not schedules): QueuingManager.stop_recording() swaps the global stack without "
                  "taking AnnotatedQueue's lock, so a stop_recording in ANOTHER thread makes a recording queue lose operators / raise "
                  "IndexError in __exit__ and leaves the class-level RLock held.",
    "design_ref": "7/C41",
    "shards": {"quick": 4, "thorough": 16},
    "budget_s": {"quick": 60, "thorough": 420},
    "min_evals": {"quick": 20000, "thorough": 100000},
    "min_nontrivial": {"quick": 1000, "thorough": 5000},
    "deciding": ["queue.model", "queue.from_queue", "queue.apply", "qstack.push", "qstack.pop", "qstack.stop_restore", "qstack.quiescent"],
    "rule": "case = one generated quantum function (statement AST) run in one of four recording modes; distinct = AST + mode; non-trivial = "
            "the program has a nested context or stop_recording block AND a wrapper/apply that de-queues or re-queues something",
    "assumptions": ["the list model encodes the documented queuing rules correctly",
                    "object identity of queued objects is observable through AnnotatedQueue.queue"],
}


class PvBoom(Exception):
    """Exception raised on purpose by generated programs."""


# ============================================================================ M-QSTACK
class QStack:
    """Shadow of QueuingManager._active_contexts: a stack of frames (stop_recording opens a new empty frame)."""

    def __init__(self, ctx, qp):
        self.ctx = ctx
        self.qp = qp
        self.QM = qp.QueuingManager
        self.frames = [[]]
        self.enabled = True
        self._orig = {}

    # -- helpers
    def _real(self):
        return list(self.QM._active_contexts)  # pylint: disable=protected-access

    def _same(self, real, shadow):
        return len(real) == len(shadow) and all(a is b for a, b in zip(real, shadow))

    def _bad(self, mon, msg, mech):
        self.ctx.violation(mon, msg, case={"program": getattr(self, "current", None), "shadow_depths": [len(f) for f in self.frames],
                                           "real_depth": len(self._real())}, mech=mech)

    def install(self):
        from contextlib import contextmanager

        QM = self.QM
        me = self
        orig_add = QM.__dict__["add_active_queue"].__func__
        orig_rem = QM.__dict__["remove_active_queue"].__func__
        orig_stop = QM.__dict__["stop_recording"].__func__  # contextmanager-wrapped function taking cls
        self._orig = {k: QM.__dict__[k] for k in ("add_active_queue", "remove_active_queue", "stop_recording")}

        def add_active_queue(cls, queue):
            r = orig_add(cls, queue)
            if me.enabled:
                me.frames[-1].append(queue)
                me.ctx.ev("qstack.push")
                real = me._real()
                if not real or real[-1] is not queue:
                    me._bad("qstack.push", "add_active_queue did not leave the new queue on top of the stack", "push-not-on-top")
                elif not me._same(real, me.frames[-1]):
                    me._bad("qstack.push", f"real context stack (depth {len(real)}) differs from the shadow stack "
                                           f"(depth {len(me.frames[-1])}) after a push", "push-stack-mismatch")
            return r

        def remove_active_queue(cls):
            r = orig_rem(cls)
            if me.enabled:
                me.ctx.ev("qstack.pop")
                if not me.frames[-1]:
                    me._bad("qstack.pop", "remove_active_queue popped although the shadow frame is empty", "pop-empty")
                else:
                    exp = me.frames[-1].pop()
                    if r is not exp:
                        me._bad("qstack.pop", "remove_active_queue returned a queue that is not the innermost one (LIFO identity broken)",
                                "pop-not-lifo")
                    elif not me._same(me._real(), me.frames[-1]):
                        me._bad("qstack.pop", "real context stack differs from the shadow stack after a pop", "pop-stack-mismatch")
            return r

        @contextmanager
        def stop_recording(cls):
            if not me.enabled:
                with orig_stop(cls):
                    yield
                return
            before = me._real()
            me.frames.append([])
            ok_inside = None
            try:
                with orig_stop(cls):
                    ok_inside = len(me._real()) == 0
                    yield
            finally:
                inner = me.frames.pop()
                me.ctx.ev("qstack.stop_restore")
                if ok_inside is False:
                    me._bad("qstack.stop_restore", "stop_recording left a recording context active inside its body", "stop-still-recording")
                if inner:
                    me._bad("qstack.stop_restore", f"{len(inner)} context(s) opened inside stop_recording were never closed", "stop-inner-open")
                after = me._real()
                if not me._same(after, before):
                    me._bad("qstack.stop_restore", f"stop_recording did not restore the context stack it found "
                                                   f"(depth {len(before)} before, {len(after)} after)", "stop-not-restored")
                    # resynchronise the shadow with reality so that one defect yields one alarm, not a cascade
                    me.frames[-1][:] = after

        QM.add_active_queue = classmethod(add_active_queue)
        QM.remove_active_queue = classmethod(remove_active_queue)
        QM.stop_recording = classmethod(stop_recording)
        return self

    def uninstall(self):
        for k, v in self._orig.items():
            setattr(self.QM, k, v)

    def quiescent(self, where):
        """Stack must be empty between programs."""
        self.ctx.ev("qstack.quiescent")
        real = self._real()
        ok = True
        if real or self.QM.recording():
            self._bad("qstack.quiescent", f"{len(real)} recording context(s) still active {where}", "not-quiescent")
            ok = False
        if len(self.frames) != 1 or self.frames[0]:
            if ok:
                self._bad("qstack.quiescent", f"shadow stack not empty {where}: {[len(f) for f in self.frames]}", "shadow-not-quiescent")
            ok = False
        if not ok:  # clean up for the next program
            self.QM._active_contexts = []  # pylint: disable=protected-access
            self.frames = [[]]
        return ok


# ============================================================================ program generator
LEAVES1 = ["RX", "RY", "RZ", "PhaseShift"]
LEAVES2 = ["IsingXX", "IsingZZ", "IsingXY", "CRX"]
NWIRES = 6


def _wires(rng, k, avoid=()):
    pool = [w for w in range(NWIRES) if w not in avoid]
    return [int(w) for w in rng.choice(pool, size=k, replace=False)]


def gen_leaf(rng):
    if rng.random() < 0.75:
        return ["leaf", LEAVES1[int(rng.integers(len(LEAVES1)))], _wires(rng, 1)]
    return ["leaf", LEAVES2[int(rng.integers(len(LEAVES2)))], _wires(rng, 2)]


class Gen:
    """Generates statement ASTs.  Generation order == execution order (there is no branching), so the set of defined
    variable names is exact; a block that raises ends there (everything after would be dead code)."""

    def __init__(self, rng, quick):
        self.rng = rng
        self.nvar = 0
        self.ncw = 0
        self.vars = []  # names bound so far (all kinds of operators)
        self.mvars = []  # measurement variables
        self.features = set()
        self.maxdepth = 4
        self.budget = int(rng.integers(6, 30 if quick else 45))

    # ---- expressions
    def expr(self, depth=0, fresh_only=False, allow_ctrl=True, no_exp=False):
        rng = self.rng
        r = rng.random()
        if depth >= 3 or r < 0.30:
            if not fresh_only and self.vars and rng.random() < 0.45:
                self.features.add("ref")
                return ["ref", self.vars[int(rng.integers(len(self.vars)))]]
            return gen_leaf(rng)
        self.features.add("wrapper")
        sub = lambda: self.expr(depth + 1, fresh_only, allow_ctrl, no_exp)  # noqa: E731
        kinds = ["adjoint", "pow", "ctrl", "prod", "sum", "sprod", "exp", "matmul", "add", "mul", "dpow", "neg",
                 "adjoint_eager", "pow_eager", "prod_eager", "sum_eager", "sprod_eager"]
        k = kinds[int(rng.integers(len(kinds)))]
        if k == "ctrl" and not allow_ctrl:
            k = "adjoint"
        if k == "exp" and no_exp:
            k = "sprod"
        if k == "adjoint":
            return ["adjoint", sub()]
        if k == "pow":
            return ["pow", sub(), [2, 3, 0.5, -1, 1.5][int(rng.integers(5))]]
        if k == "dpow":
            return ["dpow", sub(), [2, 3, 0.5, -1][int(rng.integers(4))]]
        if k == "ctrl":
            nc = int(rng.integers(1, 3))
            cw = []
            for _ in range(nc):  # control wires are unique per program: nested ctrl must not repeat a control wire
                self.ncw += 1
                cw.append(100 + self.ncw)
            cv = [bool(rng.integers(2)) for _ in range(nc)]
            # qp.ctrl flattens a Controlled operand (ctrl(ctrl(x)) -> Controlled(x, both controls)), so like the eager forms it
            # only gets freshly created operands (for a re-used nested ctrl the statement does not say whether x leaves the queue)
            return ["ctrl", self.expr(depth + 1, True, allow_ctrl, no_exp), cw, cv]
        if k in ("prod", "sum"):
            return [k, [sub() for _ in range(int(rng.integers(2, 4)))]]
        if k == "sprod":
            return ["sprod", float(rng.integers(2, 9)), sub()]
        if k == "exp":
            return ["exp", sub(), [0.5, 1.5, 2.0][int(rng.integers(3))]]
        # eager forms: operands are fresh sub-trees (see level_note)
        self.features.add("eager")
        fsub = lambda: self.expr(depth + 1, True, allow_ctrl, no_exp)  # noqa: E731
        # the dunder forms @ + * and unary minus are eager too (Operator.__matmul__ etc. call the lazy=False constructors)
        if k == "mul":
            return ["mul", float(rng.integers(2, 9)), fsub(), int(rng.integers(2))]
        if k == "neg":
            return ["neg", fsub()]
        if k in ("matmul", "add"):
            return [k, fsub(), fsub()]
        if k == "adjoint_eager":
            return ["adjoint_eager", fsub()]
        if k == "pow_eager":
            # Exp.pow returns a bare operator instead of a list, so qp.pow(Exp(...), z, lazy=False) raises TypeError on this
            # tree (an operator-arithmetic defect unrelated to queuing): no Exp below an eager pow
            return ["pow_eager", self.expr(depth + 1, True, allow_ctrl, True), [2, 3, 0.5][int(rng.integers(3))]]
        if k in ("prod_eager", "sum_eager"):
            return [k, [fsub() for _ in range(int(rng.integers(2, 4)))]]
        return ["sprod_eager", float(rng.integers(2, 9)), fsub()]

    def newvar(self, meas=False):
        self.nvar += 1
        name = f"v{self.nvar}"
        (self.mvars if meas else self.vars).append(name)
        return name

    # ---- statements
    def simple_stmt(self, recording, in_fn=False, allow_ctrl=True):
        """expr / bind / apply / requeue (no contexts)."""
        rng = self.rng
        r = rng.random()
        if in_fn and not allow_ctrl:
            # body of ctrl(fn): qp.ctrl flattens a recorded Controlled (also a copy of one, which shares its base), so these
            # bodies only create fresh operators (directly or through apply) - no references to existing objects
            e = self.expr(fresh_only=True, allow_ctrl=False)
            if r < 0.3:
                self.features.add("apply")
                return ["apply", e, None]
            return ["expr", e]
        if r < 0.38:
            return ["expr", self.expr(allow_ctrl=allow_ctrl)]
        if r < 0.62 and not in_fn:
            e = self.expr(allow_ctrl=allow_ctrl)
            return ["bind", self.newvar(), e]
        if r < 0.85 and self.vars:
            self.features.add("apply")
            return ["apply", ["ref", self.vars[int(rng.integers(len(self.vars)))]], None]
        if r < 0.93 and self.vars and allow_ctrl:  # (bodies of ctrl(fn) never re-queue: ctrl would flatten a re-queued Controlled)
            self.features.add("requeue")
            return ["requeue", self.vars[int(rng.integers(len(self.vars)))]]
        if in_fn:
            return ["expr", self.expr(allow_ctrl=allow_ctrl)]
        self.features.add("apply")
        return ["apply", self.expr(depth=2), None]

    def fn_body(self, allow_ctrl):
        """Body of a quantum function handed to adjoint(fn)/ctrl(fn)/cond(m, fn): simple statements and stop blocks."""
        out = []
        for _ in range(int(self.rng.integers(1, 4))):
            self.budget -= 1
            if self.rng.random() < 0.15:
                out.append(["stop", [self.simple_stmt(False, True, allow_ctrl)], "ctx"])
            else:
                out.append(self.simple_stmt(True, True, allow_ctrl))
        return out

    def meas_section(self):
        rng = self.rng
        out = []
        for _ in range(int(rng.integers(0, 4))):
            r = rng.random()
            if r < 0.5:
                kind = ["expval", "var", "sample"][int(rng.integers(3))]
                st = ["meas", kind, self.expr(depth=1)]
            elif r < 0.75:
                st = ["meas_w", ["probs", "sample", "counts"][int(rng.integers(3))], _wires(rng, int(rng.integers(1, 3)))]
            elif r < 0.85 and self.mvars:
                self.features.add("apply")
                st = ["apply", ["mref", self.mvars[int(rng.integers(len(self.mvars)))]], None]
            else:
                st = ["meas_w", "state", []]
            if st[0] != "apply" and rng.random() < 0.4:
                st = ["mbind", self.newvar(meas=True), st]
            out.append(st)
        return out

    def block(self, depth, nq, recording, can_raise):
        """Returns (stmts, raises).  nq = number of enclosing real queues (targets for apply(context=...))."""
        rng = self.rng
        out = []
        n = int(rng.integers(1, 6))
        for _ in range(n):
            if self.budget <= 0:
                break
            self.budget -= 1
            r = rng.random()
            if r < 0.50 or depth >= self.maxdepth:
                st = self.simple_stmt(recording)
                if st[0] == "apply" and nq >= 2 and rng.random() < 0.3:
                    self.features.add("apply_ctx")
                    st[2] = int(rng.integers(nq))
                out.append(st)
            elif r < 0.64:
                self.features.add("nest")
                kind = "queue" if rng.random() < 0.6 else "tape"
                body, rz = self.block(depth + 1, nq + 1, True, can_raise)
                if not rz:
                    body += self.meas_section()
                out.append(["with", kind, body])
                if rz:
                    return out, True
            elif r < 0.76:
                self.features.add("stop")
                body, rz = self.block(depth + 1, nq, False, can_raise)
                out.append(["stop", body, "ctx" if rng.random() < 0.6 else "deco"])
                if rz:
                    return out, True
            elif r < 0.84:
                self.features.add("try")
                body, _ = self.block(depth + 1, nq, recording, True)
                out.append(["try", body])
            elif r < 0.90:
                self.features.add("fn")
                k = ["adjoint_fn", "ctrl_fn", "cond_fn"][int(rng.integers(3))]
                if k == "adjoint_fn":
                    out.append(["adjoint_fn", self.fn_body(True)])
                elif k == "ctrl_fn":
                    out.append(["ctrl_fn", self.fn_body(False), [200 + int(rng.integers(3))]])
                else:
                    out.append(["cond_fn", 300 + int(rng.integers(3)), self.fn_body(True)])
            elif can_raise and r < 0.96:
                self.features.add("raise")
                out.append(["raise"])
                return out, True
            else:
                out.append(self.simple_stmt(recording))
        return out, False


def gen_program(rng, quick):
    g = Gen(rng, quick)
    # operators / measurements created before any recording starts ("created outside, used inside")
    outside = []
    for _ in range(int(rng.integers(0, 4))):
        e = g.expr(depth=int(rng.integers(1, 3)), fresh_only=True)
        outside.append(["bind", g.newvar(), e])
    if rng.random() < 0.4:
        outside.append(["mbind", g.newvar(meas=True), ["meas", "expval", gen_leaf(rng)]])
    body, raises = g.block(1, 1, True, True)
    tail = [] if raises else g.meas_section()
    mode = ["queue", "tape", "make_qscript", "qnode"][int(rng.integers(4))]
    feats = g.features
    nontrivial = bool(feats & {"nest", "stop"}) and bool(feats & {"wrapper", "apply", "fn", "requeue"})
    return {"outside": outside, "body": body, "tail": tail, "raises": raises, "mode": mode,
            "features": sorted(feats), "nontrivial": nontrivial}


# ============================================================================ model + interpreter
class MObj:
    """Model-side record of one queuable object."""
    __slots__ = ("real", "operands", "kind", "uids", "not_obj", "txt")

    def __init__(self, real, operands, kind, uids, txt, not_obj=None):
        self.real, self.operands, self.kind, self.uids, self.txt, self.not_obj = real, operands, kind, uids, txt, not_obj


class MQueue:
    def __init__(self, real, label):
        self.real = real
        self.items = []  # MObj in order
        self.label = label

    def append(self, m):
        if not any(x is m for x in self.items):  # an object is in a queue at most once and keeps its position
            self.items.append(m)

    def remove(self, m):
        self.items = [x for x in self.items if x is not m]


class Interp:
    def __init__(self, ctx, qp, qstack):
        self.ctx, self.qp, self.qstack = ctx, qp, qstack
        self.frames = [[]]  # model context stack: frames of MQueue
        self.allq = []  # every MQueue ever opened (checked at the end)
        self.qstack_chain = []  # enclosing real queues (for apply(context=...)) - lexical, not affected by stop
        self.env = {}
        self.uid = 0
        self.problems = []

    # ---- model primitives
    def inner(self):
        return self.frames[-1][-1] if self.frames[-1] else None

    def m_queue_rule(self, m, target=None):
        """The queuing rule of object m: operands leave, m enters (target: explicit queue or innermost)."""
        q = target if target is not None else self.inner()
        if q is None:
            return
        for o in m.operands:
            q.remove(o)
        q.append(m)

    # ---- leaves / expressions: real execution and model update in lock-step
    def leaf(self, gate, wires):
        self.uid += 1
        uid = float(self.uid)
        real = getattr(self.qp, gate)(uid, wires=wires)
        m = MObj(real, [], "leaf", [uid], f"{gate}#{self.uid}")
        self.m_queue_rule(m)
        return m

    def ev_expr(self, e):
        qp = self.qp
        k = e[0]
        if k == "leaf":
            return self.leaf(e[1], e[2])
        if k in ("ref", "mref"):
            return self.env[e[1]]
        if k in ("adjoint", "adjoint_eager"):
            b = self.ev_expr(e[1])
            real = qp.adjoint(b.real, lazy=(k == "adjoint"))
            return self.wrap(real, [b], k)
        if k in ("pow", "pow_eager"):
            b = self.ev_expr(e[1])
            real = qp.pow(b.real, e[2], lazy=(k == "pow"))
            return self.wrap(real, [b], k)
        if k == "dpow":
            b = self.ev_expr(e[1])
            return self.wrap(b.real ** e[2], [b], k)
        if k == "ctrl":
            b = self.ev_expr(e[1])
            real = qp.ctrl(b.real, control=e[2], control_values=e[3])
            return self.wrap(real, [b], k)
        if k in ("prod", "sum", "prod_eager", "sum_eager"):
            ops = [self.ev_expr(x) for x in e[1]]
            f = qp.prod if k.startswith("prod") else qp.sum
            real = f(*[o.real for o in ops], lazy=not k.endswith("eager"))
            return self.wrap(real, ops, k)
        if k in ("sprod", "sprod_eager"):
            b = self.ev_expr(e[2])
            real = qp.s_prod(e[1], b.real, lazy=(k == "sprod"))
            return self.wrap(real, [b], k)
        if k == "mul":
            b = self.ev_expr(e[2])
            real = (e[1] * b.real) if e[3] else (b.real * e[1])
            return self.wrap(real, [b], k)
        if k == "neg":
            b = self.ev_expr(e[1])
            return self.wrap(-b.real, [b], k)
        if k == "exp":
            b = self.ev_expr(e[1])
            return self.wrap(qp.exp(b.real, e[2]), [b], k)
        if k in ("matmul", "add"):
            a = self.ev_expr(e[1])
            b = self.ev_expr(e[2])
            real = (a.real @ b.real) if k == "matmul" else (a.real + b.real)
            return self.wrap(real, [a, b], k)
        raise AssertionError(f"unknown expression {k}")

    def wrap(self, real, operands, kind):
        uids = [u for o in operands for u in o.uids]
        # leaf ids are re-read from the live result: eager constructors may rescale / negate the data of their operands
        uids = _uids(real) if real is not None else uids
        m = MObj(real, operands, kind, uids, f"{kind}({','.join(o.txt for o in operands)})")
        # eager constructors may hand back one of their own operands' constituents; identity is still what is queued
        self.m_queue_rule(m)
        return m

    def measure_stmt(self, st):
        qp = self.qp
        if st[0] == "meas":
            o = self.ev_expr(st[2])
            f = getattr(qp, st[1])
            real = f(op=o.real) if st[1] == "sample" else f(o.real)
            m = MObj(real, [o], "mp", list(o.uids), f"{st[1]}({o.txt})")
        else:
            kind, wires = st[1], st[2]
            if kind == "state":
                real = qp.state()
            elif kind == "counts":
                real = qp.counts(wires=wires)
            else:
                real = getattr(qp, kind)(wires=wires)
            m = MObj(real, [], "mp", [], f"{kind}{wires}")
        self.m_queue_rule(m)
        return m

    # ---- statements
    def run_block(self, stmts):
        for st in stmts:
            self.exec(st)

    def exec(self, st):  # noqa: C901
        qp, ctx = self.qp, self.ctx
        k = st[0]
        if k == "expr":
            self.ev_expr(st[1])
        elif k == "bind":
            self.env[st[1]] = self.ev_expr(st[2])
        elif k in ("meas", "meas_w"):
            self.measure_stmt(st)
        elif k == "mbind":
            self.env[st[1]] = self.measure_stmt(st[2])
        elif k == "requeue":
            m = self.env[st[1]]
            m.real.queue()
            self.m_queue_rule(m)
        elif k == "apply":
            src = self.ev_expr(st[1])
            target = None
            kwargs = {}
            if st[2] is not None and st[2] < len(self.qstack_chain) and self.qstack_chain[st[2]].real is not None:
                target = self.qstack_chain[st[2]]
                kwargs = {"context": target.real}
            recording = self.inner() is not None
            tq = target if target is not None else self.inner()
            if tq is not None and any(any(x is o for x in tq.items) for o in src.operands):
                # apply(wrapper) while one of the wrapper's operands sits in the target queue: whether the copy's queuing rule
                # also removes that operand depends on how deep the class copies itself; the statement does not say -> not driven
                ctx.count("apply_skipped_operand_in_queue")
                return
            ctx.ev("queue.apply")
            try:
                ret = qp.apply(src.real, **kwargs)
            except RuntimeError as e:
                if recording:
                    ctx.violation("queue.apply", f"qp.apply raised RuntimeError although a context is recording: {e}",
                                  case=self.case, mech="apply-raises-while-recording")
                return
            if not recording:
                ctx.violation("queue.apply", "qp.apply outside any recording context did not raise the documented RuntimeError",
                              case=self.case, mech="apply-no-error-when-not-recording")
                return
            if ret is src.real:
                ctx.violation("queue.apply", f"qp.apply returned/queued the very same object instead of a copy ({src.txt})",
                              case=self.case, mech="apply-no-copy")
            if type(ret) is not type(src.real) or _sig(qp, ret) != _sig(qp, src.real):
                ctx.violation("queue.apply", f"qp.apply queued something that is not a copy of its argument: {ret!r} vs {src.real!r}",
                              case=self.case, mech="apply-copy-differs")
            m = MObj(ret, list(src.operands), src.kind, list(src.uids), f"copy({src.txt})", not_obj=src.real)
            self.m_queue_rule(m, target)
        elif k == "with":
            real = qp.queuing.AnnotatedQueue() if st[1] == "queue" else qp.tape.QuantumTape()
            mq = MQueue(real, st[1])
            if st[1] == "tape":  # a QuantumTape is itself a queuable object: it enters the enclosing queue when it starts recording
                tm = MObj(real, [], "tape", [], "tape")
                self.m_queue_rule(tm)
            self.allq.append(mq)
            self.frames[-1].append(mq)
            self.qstack_chain.append(mq)
            try:
                with real:
                    self.run_block(st[2])
            finally:
                self.qstack_chain.pop()
                self.frames[-1].pop()
        elif k == "stop":
            self.frames.append([])
            try:
                if st[2] == "ctx":
                    with qp.QueuingManager.stop_recording():
                        self.run_block(st[1])
                else:
                    @qp.QueuingManager.stop_recording()
                    def body():
                        self.run_block(st[1])

                    body()
            finally:
                self.frames.pop()
        elif k == "try":
            try:
                self.run_block(st[1])
            except PvBoom:
                pass
        elif k == "raise":
            raise PvBoom()
        elif k in ("adjoint_fn", "ctrl_fn", "cond_fn"):
            self.exec_fn(st)
        else:
            raise AssertionError(f"unknown statement {k}")

    def exec_fn(self, st):
        """Functional transforms: the body is recorded in a private queue; the enclosing queue receives one wrapper per
        recorded operator (adjoint: in reverse order).  The wrappers are not handed back reliably, so they are
        identified by content signature (kind + leaf ids) instead of identity."""
        qp = self.qp
        k = st[0]
        body = st[-1] if k == "cond_fn" else st[1]
        sub = MQueue(None, "fn")
        mval = None
        if k == "cond_fn":
            mval = qp.measure(st[1])
            self.m_queue_rule(MObj(None, [], "MidMeasure", [], f"measure({st[1]})"))

        def fn():
            self.frames[-1].append(sub)  # make_qscript opens an AnnotatedQueue around fn
            try:
                self.run_block(body)
            finally:
                self.frames[-1].pop()

        if k == "adjoint_fn":
            qp.adjoint(fn)()
            rec, kind = list(reversed(sub.items)), "adjoint"
        elif k == "ctrl_fn":
            qp.ctrl(fn, control=st[2])()
            rec, kind = list(sub.items), "ctrl"
        else:
            qp.cond(mval, fn)()
            rec, kind = list(sub.items), "cond"
        for o in rec:
            # the new wrapper consumes the recorded operator like any wrapper constructor (matters when the body re-queued
            # an object that also sits in the enclosing queue)
            self.m_queue_rule(MObj(None, [o], kind, list(o.uids), f"{kind}({o.txt})"))


def _kind(qp, o):
    from pennylane.measurements import MeasurementProcess

    n = type(o).__name__
    if isinstance(o, MeasurementProcess) and n not in ("MidMeasure",):
        return "mp"
    if isinstance(o, qp.tape.QuantumScript):
        return "tape"
    if n == "MidMeasure":
        return "MidMeasure"
    if n == "Conditional":
        return "cond"
    if n.startswith("Adjoint"):
        return "adjoint"
    if hasattr(o, "control_values") and hasattr(o, "base"):
        return "ctrl"
    return n


def _uids(o, depth=0):
    """Leaf ids (first data entry of every primitive) of an operator tree, read from the live object."""
    if depth > 40:
        return []
    if getattr(o, "obs", None) is not None and not hasattr(o, "base") and not hasattr(o, "operands"):
        return _uids(o.obs, depth + 1)
    ops = getattr(o, "operands", None)
    if ops is not None:
        return [u for x in ops for u in _uids(x, depth + 1)]
    b = getattr(o, "base", None)
    if b is not None:
        return _uids(b, depth + 1)
    data = getattr(o, "data", ())
    try:
        return [abs(float(data[0]))] if len(data) else []
    except Exception:  # noqa: BLE001
        return []


def _sig(qp, o):
    return (_kind(qp, o), sorted(_uids(o)))


def _show(qp, o):
    try:
        return repr(o)[:90]
    except Exception:  # noqa: BLE001
        return type(o).__name__


# ============================================================================ comparison
def compare(ctx, qp, what, observed, model_items, case, monitor="queue.model"):
    """observed: list of live objects; model_items: list of MObj.  One oracle evaluation."""
    ctx.ev(monitor)
    exp_txt = [m.txt for m in model_items]
    obs_txt = [_show(qp, o) for o in observed]
    if len(observed) != len(model_items):
        mech = "extra-recorded" if len(observed) > len(model_items) else "missing-recorded"
        # refine: a consumed operand recorded beside its wrapper
        if len(observed) > len(model_items):
            exp_ids = {id(m.real) for m in model_items if m.real is not None}
            extra = [o for o in observed if id(o) not in exp_ids]
            consumed = {id(x.real) for m in model_items for x in _all_operands(m)}
            if any(id(o) in consumed for o in extra):
                mech = "consumed-operand-still-recorded"
        ctx.violation(monitor, f"{what}: recorded {len(observed)} objects, the program order model has {len(model_items)}",
                      case=case, mech=mech, observed=obs_txt, expected=exp_txt)
        return False
    for i, (o, m) in enumerate(zip(observed, model_items)):
        if m.real is not None and o is not m.real:
            ctx.violation(monitor, f"{what}: position {i} holds {_show(qp, o)}, the model expects the object {m.txt}",
                          case=case, mech="wrong-object-or-order", observed=obs_txt, expected=exp_txt)
            return False
        if m.not_obj is not None and o is m.not_obj:
            ctx.violation(monitor, f"{what}: position {i} holds the original object, a copy was expected ({m.txt})",
                          case=case, mech="apply-no-copy", observed=obs_txt, expected=exp_txt)
            return False
        if m.real is None:
            k, u = _sig(qp, o)
            if k != m.kind or u != sorted(m.uids):
                ctx.violation(monitor, f"{what}: position {i} holds {_show(qp, o)} (kind {k}, leaves {u}); expected {m.txt} "
                                       f"(kind {m.kind}, leaves {sorted(m.uids)})",
                              case=case, mech="fn-transform-wrong-content", observed=obs_txt, expected=exp_txt)
                return False
    return True


def _all_operands(m, depth=0):
    out = []
    if depth > 30:
        return out
    for o in m.operands:
        out.append(o)
        out.extend(_all_operands(o, depth + 1))
    return out


# ============================================================================ one program
def run_program(ctx, qp, qstack, prog, index):
    case = {"index": index, "mode": prog["mode"], "outside": prog["outside"], "body": prog["body"], "tail": prog["tail"]}
    qstack.current = {"index": index, "mode": prog["mode"]}
    qstack.quiescent("before the program")
    it = Interp(ctx, qp, qstack)
    it.case = case
    for st in prog["outside"]:
        it.exec(st)
    mode = prog["mode"]
    top = MQueue(None, mode)
    it.allq.append(top)
    returned = []

    def qfunc():
        it.frames[-1].append(top)
        it.qstack_chain.append(top)
        try:
            it.run_block(prog["body"])
            n0 = len(top.items)
            it.run_block(prog["tail"])
            returned.extend(x.real for x in top.items[n0:] if x.kind == "mp")
        finally:
            it.qstack_chain.pop()
            it.frames[-1].pop()
        return tuple(returned) if returned else None

    boom = False
    built = None
    try:
        if mode == "queue":
            top.real = qp.queuing.AnnotatedQueue()
            with top.real:
                qfunc()
        elif mode == "tape":
            top.real = qp.tape.QuantumTape()
            with top.real:
                qfunc()
            built = top.real
        elif mode == "make_qscript":
            built = qp.tape.make_qscript(qfunc)()
        else:
            dev = qp.device("default.qubit")
            qn = qp.QNode(qfunc, dev)
            built = qp.workflow.construct_tape(qn, level=0)()
    except PvBoom:
        boom = True
    if boom != prog["raises"]:
        ctx.inconclusive_case(f"program {index}: generator/interpreter disagree about raising ({boom} vs {prog['raises']})")
        qstack.quiescent("after a harness disagreement")
        return
    ok = qstack.quiescent("after the program" + (" (which ended by an exception)" if boom else ""))
    # every queue that was opened: contents vs the model
    for mq in it.allq:
        if mq.real is None:
            continue
        if isinstance(mq.real, qp.tape.QuantumTape):
            # a QuantumTape that exited normally has processed its queue; the raw queue is still there
            observed = list(mq.real.queue) if hasattr(mq.real, "queue") else None
        else:
            observed = mq.real.queue
        ok &= compare(ctx, qp, f"{mq.label} context", observed, mq.items, case)
        # from_queue = operator / measurement split of the same list
        if not isinstance(mq.real, qp.tape.QuantumTape):
            ops = [m for m in mq.items if m.kind != "mp"]
            mps = [m for m in mq.items if m.kind == "mp"]
            try:
                qs = qp.tape.QuantumScript.from_queue(mq.real)
            except Exception as e:  # noqa: BLE001
                ctx.ev("queue.from_queue")
                ctx.violation("queue.from_queue", f"from_queue raised {type(e).__name__}: {e}", case=case, mech="from_queue-raises")
                continue
            ok &= compare(ctx, qp, f"from_queue({mq.label}).operations", list(qs.operations), ops, case, "queue.from_queue")
            ok &= compare(ctx, qp, f"from_queue({mq.label}).measurements", list(qs.measurements), mps, case, "queue.from_queue")
    if built is not None and not boom:
        ops = [m for m in top.items if m.kind != "mp"]
        mps = [m for m in top.items if m.kind == "mp"]
        ok &= compare(ctx, qp, f"{mode} tape.operations", list(built.operations), ops, case, "queue.from_queue")
        ok &= compare(ctx, qp, f"{mode} tape.measurements", list(built.measurements), mps, case, "queue.from_queue")
    return ok


# ============================================================================ ambient workload (real library code under M-QSTACK)
def ambient(ctx, qp, qstack, rng):
    """Real QNode executions whose preprocessing / decompositions use nested queues and stop_recording heavily."""
    import numpy as np

    dev = qp.device("default.qubit")

    def sub(x, w):
        qp.RX(x, w)
        qp.Hadamard(w)

    @qp.qnode(dev)
    def c1(x):
        qp.QFT(wires=[0, 1, 2])
        qp.adjoint(sub)(x, 0)
        qp.ctrl(sub, control=3)(x, 1)
        qp.adjoint(qp.QFT(wires=[0, 1, 2]))
        qp.exp(qp.X(0) @ qp.Y(1), 0.3j)
        return qp.expval(qp.Z(0) @ qp.Z(1)), qp.probs(wires=[2, 3])

    @qp.qnode(dev)
    def c2(x):
        qp.BasisState(np.array([1, 0, 1]), wires=[0, 1, 2])
        qp.StronglyEntanglingLayers(np.full((1, 3, 3), x), wires=[0, 1, 2])
        m = qp.measure(0)
        qp.cond(m, sub)(x, 1)
        qp.TrotterProduct(qp.X(0) + qp.Z(1), 0.4, n=2, order=2)
        return qp.expval(qp.Z(1))

    for f in (c1, c2):
        for _ in range(2):
            x = float(rng.uniform(-3, 3))
            qstack.current = {"ambient": f.__name__}
            qstack.quiescent("before an ambient QNode call")
            with ctx.guard("qstack.quiescent", "ambient QNode call"):
                f(x)
                qp.draw(f)(x)
                qp.specs(f)(x)
            qstack.quiescent("after an ambient QNode call")
            ctx.count("ambient_qnode_calls")


# ============================================================================ driver
def run(ctx):
    warnings.simplefilter("ignore")
    import pennylane as qp

    qstack = QStack(ctx, qp).install()
    rng0 = ctx.stream(1)
    try:
        ambient(ctx, qp, qstack, rng0)
    except Exception as e:  # noqa: BLE001
        ctx.inconclusive_case(f"ambient workload failed: {type(e).__name__}: {e}")
    N = ctx.n(9600, 320000)
    base = ctx.shard * N
    for j in range(N):
        # programs cost ~4 ms each: the first half of the plan always runs (a loaded machine must not turn the soft budget
        # into an inconclusive verdict); the budget only trims the rest
        if j >= N // 2 and j % 32 == 0 and not ctx.more():
            break
        i = base + j
        if ctx.only_case is not None and i != ctx.only_case:
            continue
        ctx.case_index = i
        rng = ctx.case_rng(i)
        prog = gen_program(rng, ctx.quick)
        fp = fingerprint(repr((prog["outside"], prog["body"], prog["tail"], prog["mode"])))
        ctx.case(fp, nontrivial=prog["nontrivial"], cls=prog["mode"],
                 sample={"mode": prog["mode"], "features": prog["features"], "body": prog["body"][:4]})
        for f in prog["features"]:
            ctx.cover("feature:" + f)
        if prog["raises"]:
            ctx.cover("feature:ends-by-exception")
        try:
            run_program(ctx, qp, qstack, prog, i)
        except Exception as e:  # noqa: BLE001 - an exception of the real code on an admitted program
            import traceback

            tb = traceback.format_exc()[-900:]
            qstack.quiescent("after an unexpected exception")
            ctx.inconclusive_case(f"program {i}: unexpected {type(e).__name__}: {e} @ {tb}")
    ctx.note("programs_run", ctx.ncases)
    qstack.uninstall()
