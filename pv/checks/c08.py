"""C08 — Commutation checks are sound.

Deciding monitors (post-conditions on the real ``qp.is_commuting``):

* ``commute.sound``  — whenever ``qp.is_commuting(a, b)`` is True on *overlapping* wires, the matrices of a and b, embedded
  on the union of their wires by explicit tensor re-indexing (pv.ref.sv.embed; matrices from the documented-formula table
  via pv.ref.bridge.op_matrix where tabulated, else from qp.matrix), have commutator norm ~ 0.
* ``commute.pauli_exact`` — for two Pauli words (single Paulis, Prod/SProd forms, identities inside) the answer equals
  the symplectic parity rule written here, in both argument orders.
* ``dag.pair`` / ``dag.linear_extension`` — in ``qp.transforms.commutation_dag(tape)`` every pair (i<j) with j not a
  successor of i has commuting matrices, and a random linear extension of the DAG has the same unitary as the tape.

Workload: exhaustive over ordered pairs of ~110 operator *types* (all tabulated named gates incl. variable arities,
controlled / adjoint / pow / evolution forms, unitaries, permutations, Pauli-word and Pauli-sum observables, Hermitian)
× every wire-overlap pattern of their arities (each position of b is one of a's wires or a fresh wire) × special and
random angles.  Only soundness is demanded for non-Pauli operators; documented unsupported operations are rejections.
"""
import itertools

import numpy as np

from pv.ctx import fingerprint

META = {
    "id": "C08",
    "level": "exploration",
    "technique": "runtime post-condition on qp.is_commuting over an exhaustive sweep of operator-type pairs x wire-overlap patterns: "
                 "True => dense commutator of independently embedded matrices vanishes; Pauli words: equality with the symplectic rule; "
                 "commutation-DAG pairs and random linear extensions re-validated by dense unitaries",
    "level_text": "Exhaustive over type pairs and overlap patterns (quick: all ordered type pairs, all overlap patterns for "
                  "arities <= 2 and one sampled pattern otherwise; thorough: all ordered pairs, all patterns (<= 40 sampled when more), 3 angle draws); sampled over angles (random + boundary values). Held on the "
                  "pairs observed.",
    "level_note": "Matrices of tabulated gates come from the documented formulas (pv.ref.gates) and symbolic structure (ctrl/adjoint/"
                  "integer pow/prod/sum) is rebuilt by the bridge; untabulated operators (QubitUnitary data is read directly; Permute, "
                  "Evolution, fractional Pow, Hermitian) use qp.matrix. Commutator tolerance is 1e-4 (Frobenius) because is_commuting "
                  "itself decides rotation pairs with allclose(rtol=1e-5, atol=1e-8): pairs that commute only to ~1e-5 are accepted. "
                  "False answers on commuting non-Pauli pairs are allowed by the statement and only counted.",
    "shards": {"quick": 4, "thorough": 16},
    "budget_s": {"quick": 100, "thorough": 120},
    "min_evals": {"quick": 1500, "thorough": 30000},
    "deciding": ["commute.sound", "commute.pauli_exact", "dag.pair"],
    "rule": "case = (type a, type b, overlap pattern, parameters); distinct = distinct (types, pattern, rounded parameters); non-trivial = "
            "wires overlap and is_commuting answered True (soundness actually at stake), or a Pauli-word pair on overlapping wires",
    "assumptions": ["pv.ref.gates transcribes the documented unitaries (validated against the code by C02)"],
    "exhaustive": True,
}

TOL = 1e-4


def patterns(k1, k2):
    """All placements of b's k2 wires relative to a's k1 wires: each position is an index 0..k1-1 of a's wires or a fresh wire
    (fresh wires are interchangeable → numbered in order of appearance).  The disjoint placement is excluded."""
    out = []

    def rec(pos, used, nfresh, cur):
        if pos == k2:
            if any(c < k1 for c in cur):
                out.append(tuple(cur))
            return
        for c in range(k1):
            if c not in used:
                rec(pos + 1, used | {c}, nfresh, cur + [c])
        rec(pos + 1, used, nfresh + 1, cur + [k1 + nfresh])

    rec(0, frozenset(), 0, [])
    return out


def symplectic_commute(w1, w2):
    """w: dict wire -> 'X'|'Y'|'Z' (identity omitted).  Two Pauli words commute iff they differ on an even number of shared wires."""
    return sum(1 for k in w1 if k in w2 and w1[k] != w2[k]) % 2 == 0


def run(ctx):
    import pennylane as qp
    from pennylane.exceptions import QuantumFunctionError

    from pv.gen import num, ops
    from pv.ref import bridge, sv

    ctx.budget_s += ctx.elapsed()  # the soft budget counts work, not the (load-dependent) import of pennylane
    _viol = ctx.violation

    def _counted_violation(*a, **k):  # every violation is also counted per mechanism (the witness list itself is capped)
        ctx.count("mech:" + str(k.get("mech")))
        return _viol(*a, **k)

    ctx.violation = _counted_violation
    rng = ctx.rng
    ang = lambda: num.angle(rng)  # noqa: E731

    # ------------------------------------------------------------------ type table: name -> (arity, builder(wires))
    T = {}
    for name, (npar, nw) in ops.NAMED.items():
        if nw in (None, 0):
            continue
        T[name] = (nw, (lambda w, name=name: ops.make_named(qp, name, rng, wires=list(w))[0]))
    for k in (1, 2):
        T[f"Identity/{k}"] = (k, lambda w: qp.Identity(wires=list(w)))
    for k in (1, 2, 3):
        T[f"MultiRZ/{k}"] = (k, lambda w: qp.MultiRZ(ang(), wires=list(w)))
    for k in (1, 2):
        T[f"PCPhase/{k}"] = (k, lambda w: qp.PCPhase(ang(), dim=int(rng.integers(0, 2 ** len(w) + 1)), wires=list(w)))
    for k in (2, 3, 4):
        T[f"MultiControlledX/{k}"] = (k, lambda w: qp.MultiControlledX(wires=list(w), control_values=[int(x) for x in rng.integers(0, 2, len(w) - 1)]))
    T["IntegerComparator/3"] = (3, lambda w: qp.IntegerComparator(int(rng.integers(0, 5)), geq=bool(rng.integers(2)), wires=list(w)))
    T["PauliRot/2"] = (2, lambda w: qp.PauliRot(ang(), "".join(rng.choice(list("XYZ"), 2)), wires=list(w)))

    def cv(n):
        return [int(x) for x in rng.integers(0, 2, n)]

    def C(base_name, nb, nc, param=False, use_cv=True):
        def mk(w):
            cls = getattr(qp, base_name)
            base = cls(ang(), wires=list(w[nc:])) if param else cls(wires=list(w[nc:]))
            return qp.ctrl(base, control=list(w[:nc]), control_values=cv(nc) if use_cv else None)
        return (nb + nc, mk)

    for bn, nb, nc, p in [("RX", 1, 2, True), ("RY", 1, 1, True), ("RZ", 1, 2, True), ("IsingXX", 2, 1, True), ("IsingYY", 2, 1, True),
                          ("IsingZZ", 2, 1, True), ("IsingXY", 2, 1, True), ("MultiRZ", 2, 1, True), ("SWAP", 2, 2, False), ("ISWAP", 2, 1, False),
                          ("SISWAP", 2, 1, False), ("Hadamard", 1, 2, False), ("S", 1, 1, False), ("T", 1, 2, False), ("SX", 1, 1, False),
                          ("PhaseShift", 1, 2, True), ("U1", 1, 1, True), ("PauliY", 1, 2, False), ("PauliZ", 1, 3, False), ("PauliX", 1, 1, False),
                          ("ECR", 2, 1, False), ("U2", 1, 1, None), ("SingleExcitation", 2, 1, True)]:
        if p is None:
            T[f"C({bn})x{nc}"] = (nb + nc, lambda w, nc=nc: qp.ctrl(qp.U2(ang(), ang(), wires=w[nc]), control=list(w[:nc]), control_values=cv(nc)))
        else:
            T[f"C({bn})x{nc}"] = C(bn, nb, nc, p)
    T["C(Rot)x2"] = (3, lambda w: qp.ctrl(qp.Rot(ang(), ang(), ang(), wires=w[2]), control=list(w[:2]), control_values=cv(2)))
    T["C(U3)x1"] = (2, lambda w: qp.ctrl(qp.U3(ang(), ang(), ang(), wires=w[1]), control=[w[0]]))
    T["C(QubitUnitary)"] = (2, lambda w: qp.ControlledQubitUnitary(sv.haar_unitary(rng, 2), wires=list(w), control_values=cv(1)))
    T["C(CNOT)"] = (3, lambda w: qp.ctrl(qp.CNOT(wires=list(w[1:])), control=[w[0]], control_values=cv(1)))
    T["C(CRX)"] = (3, lambda w: qp.ctrl(qp.CRX(ang(), wires=list(w[1:])), control=[w[0]]))
    T["C(Permute)"] = (4, lambda w: qp.ctrl(qp.Permute([w[1:][int(x)] for x in rng.permutation(3)], wires=list(w[1:])), control=[w[0]]))
    # adjoint / pow / evolution forms
    for bn, nb in [("S", 1), ("T", 1), ("SX", 1), ("ISWAP", 2), ("SISWAP", 2), ("CNOT", 2), ("Toffoli", 3), ("CSWAP", 3), ("ECR", 2), ("Hadamard", 1)]:
        T[f"Adjoint({bn})"] = (nb, lambda w, bn=bn: qp.adjoint(getattr(qp, bn)(wires=list(w))))
    for bn, nb in [("RX", 1), ("CRY", 2), ("IsingXX", 2), ("Rot", 1), ("CRot", 2), ("U3", 1), ("PhaseShift", 1), ("SingleExcitation", 2)]:
        def mk(w, bn=bn):
            cls = getattr(qp, bn)
            return qp.adjoint(cls(*[ang() for _ in range(ops.NAMED[bn][0])], wires=list(w)))
        T[f"Adjoint({bn})"] = (nb, mk)
    T["Adjoint(C(S))"] = (2, lambda w: qp.adjoint(qp.ctrl(qp.S(w[1]), control=[w[0]])))
    T["Adjoint(C(SX))"] = (2, lambda w: qp.adjoint(qp.ctrl(qp.SX(w[1]), control=[w[0]])))
    T["Adjoint(C(ISWAP))"] = (3, lambda w: qp.adjoint(qp.ctrl(qp.ISWAP(wires=list(w[1:])), control=[w[0]])))
    T["Adjoint(QubitUnitary)"] = (1, lambda w: qp.adjoint(qp.QubitUnitary(sv.haar_unitary(rng, 2), wires=list(w))))
    for bn, nb, z in [("PauliX", 1, 0.5), ("PauliX", 1, 3), ("PauliZ", 1, 0.25), ("Hadamard", 1, 0.5), ("T", 1, 3), ("S", 1, -1), ("ISWAP", 2, 2), ("SWAP", 2, 3),
                      ("CNOT", 2, 3), ("CZ", 2, 0.5), ("CSWAP", 3, 3), ("SX", 1, 2)]:
        T[f"Pow({bn},{z})"] = (nb, lambda w, bn=bn, z=z: qp.pow(getattr(qp, bn)(wires=list(w)), z))
    T["Pow(RX,2)"] = (1, lambda w: qp.pow(qp.RX(ang(), wires=w[0]), 2))
    T["Pow(CRX,-2)"] = (2, lambda w: qp.pow(qp.CRX(ang(), wires=list(w)), -2))
    T["Pow(IsingZZ,3)"] = (2, lambda w: qp.pow(qp.IsingZZ(ang(), wires=list(w)), 3))
    T["Evolution(Z)"] = (1, lambda w: qp.evolve(qp.Z(w[0]), ang()))
    T["Evolution(X)"] = (1, lambda w: qp.evolve(qp.X(w[0]), ang()))
    T["Evolution(XX)"] = (2, lambda w: qp.evolve(qp.X(w[0]) @ qp.X(w[1]), ang()))
    T["Evolution(X+Z)"] = (2, lambda w: qp.evolve(qp.X(w[0]) + qp.Z(w[1]), ang()))
    # unitaries, permutations
    for k in (1, 2):
        T[f"QubitUnitary/{k}"] = (k, lambda w: qp.QubitUnitary(sv.haar_unitary(rng, 2 ** len(w)), wires=list(w)))
        T[f"DiagonalQubitUnitary/{k}"] = (k, lambda w: qp.DiagonalQubitUnitary(np.exp(1j * rng.uniform(-3, 3, 2 ** len(w))), wires=list(w)))
    T["QubitUnitary/diag"] = (1, lambda w: qp.QubitUnitary(np.diag(np.exp(1j * rng.uniform(-3, 3, 2))), wires=list(w)))
    for k in (2, 3):
        T[f"Permute/{k}"] = (k, lambda w: qp.Permute([w[int(x)] for x in rng.permutation(len(w))], wires=list(w)))
    # observables
    P1 = {"X": qp.X, "Y": qp.Y, "Z": qp.Z, "I": qp.Identity}

    def word(w, allow_id=True):
        letters = [str(rng.choice(list("XYZI" if allow_id else "XYZ"))) for _ in w]
        if all(c == "I" for c in letters):
            letters[0] = "Z"
        return letters

    def word_op(letters, w, form=None):
        facs = [P1[c](x) for c, x in zip(letters, w)]
        form = form if form is not None else int(rng.integers(4))
        if len(facs) == 1 and form in (0, 1):
            o = facs[0]
        elif form in (0, 2):
            o = qp.prod(*facs)
        else:
            o = facs[0]
            for f in facs[1:]:
                o = o @ f
        if form in (2, 3) and rng.random() < 0.5:
            o = qp.s_prod(float(rng.uniform(-2, 2)) or 1.0, o)
        return o

    for k in (1, 2, 3):
        T[f"PauliWord/{k}"] = (k, lambda w: word_op(word(w), w))

    def pauli_sum(w):
        terms = [qp.s_prod(float(rng.normal()), word_op(word(w), w, form=0)) for _ in range(int(rng.integers(2, 4)))]
        return qp.sum(*terms)

    T["PauliSum/2"] = (2, pauli_sum)
    T["LinearCombination/2"] = (2, lambda w: qp.Hamiltonian([float(rng.normal()) for _ in range(2)], [word_op(word(w), w, form=0) for _ in range(2)]))

    def herm(w):
        d = 2 ** len(w)
        A = rng.normal(size=(d, d)) + 1j * rng.normal(size=(d, d))
        return qp.Hermitian(A + A.conj().T, wires=list(w))

    T["Hermitian/1"] = (1, herm)
    T["Hermitian/2"] = (2, herm)
    T["Projector/1"] = (1, lambda w: qp.Projector([int(rng.integers(2))], wires=list(w)))

    names = sorted(T)
    ctx.note("n_types", len(names))
    ctx.note("types", names)

    # ------------------------------------------------------------------ helpers
    SWAPS = {"SWAP", "ISWAP", "SISWAP", "Permute"}

    def base_name(op):
        b = getattr(op, "base", None)
        if b is not None and isinstance(op, qp.ops.op_math.SymbolicOp):
            return base_name(b)
        return op.name

    def inner_controls(op):
        """control wires hidden inside a non-Controlled symbolic wrapper (Adjoint/Pow of a controlled operator)"""
        if isinstance(op, qp.ops.op_math.Controlled) or not isinstance(op, qp.ops.op_math.SymbolicOp):
            return set()
        b, out = op.base, set()
        while b is not None:
            if isinstance(b, qp.ops.op_math.Controlled):
                out |= set(b.control_wires)
            b = getattr(b, "base", None) if isinstance(b, qp.ops.op_math.SymbolicOp) else None
        return out

    def mech(a, b):
        """mechanism tag of an unsound True (stable, computed from the structure of the pair as is_commuting sees it, i.e. after simplify)"""
        def simp(o):
            try:
                with qp.QueuingManager.stop_recording():
                    return qp.simplify(o)  # is_commuting looks names up after simplification (e.g. PSWAP(2πk) -> SWAP, Adjoint(CSWAP) -> CSWAP)
            except Exception:  # noqa: BLE001
                return o

        sa, sb = simp(a), simp(b)
        if (inner_controls(sa) & set(sb.wires)) or (inner_controls(sb) & set(sa.wires)):
            return "unsound:wrapped-controlled"  # Adjoint/Pow wrapper hides control_wires: a control wire is looked up as a target wire
        na, nb = sorted([base_name(sa), base_name(sb)])
        if na in SWAPS and nb in SWAPS:
            return "unsound:swap-group"  # SWAP_GROUP members are treated as commuting on ANY target overlap
        ta, tb = sorted([a.name, b.name])
        return f"unsound:{ta}|{tb}"

    mats = {}

    def M(op):
        k = id(op)
        if k not in mats:
            mats[k] = (op, bridge.op_matrix(op)[0])
        return mats[k][1]

    def commutator(a, b):
        W = list(dict.fromkeys(list(a.wires) + list(b.wires)))
        A = sv.embed(M(a), list(a.wires), W)
        B = sv.embed(M(b), list(b.wires), W)
        return float(np.linalg.norm(A @ B - B @ A))

    def describe(op):
        try:
            data = [np.asarray(d).tolist() for d in op.data if np.size(d) <= 16]
        except Exception:  # noqa: BLE001
            data = "?"
        return {"op": repr(op)[:160], "name": op.name, "wires": list(op.wires), "data": data}

    def call(a, b):
        try:
            return bool(qp.is_commuting(a, b)), None
        except QuantumFunctionError as e:
            ctx.reject("QuantumFunctionError:" + ("not supported" if "not supported" in str(e) else "other"))
            return None, e
        except Exception as e:  # noqa: BLE001
            return None, e

    def check_pair(a, b, ta, tb, pat):
        ans, err = call(a, b)
        case = {"a": describe(a), "b": describe(b), "types": [ta, tb], "pattern": list(pat) if pat is not None else None}
        if err is not None:
            if not isinstance(err, QuantumFunctionError):
                ctx.ev("commute.raise")
                ctx.violation("commute.raise", f"is_commuting({ta}, {tb}) raised {type(err).__name__}: {err}", case=case,
                              mech=f"raise:{type(err).__name__}:{'|'.join(sorted([a.name, b.name]))}")
            return
        overlap = bool(set(a.wires) & set(b.wires))
        fp = fingerprint(ta, tb, pat, [np.round(np.asarray(d, dtype=complex), 9) for d in list(a.data) + list(b.data) if np.size(d) <= 64])
        if not ans:
            ctx.count("answer_false")
            ctx.case(fp, False, cls=ta)
            return
        ctx.count("answer_true_overlap" if overlap else "answer_true_disjoint")
        ctx.case(fp, overlap, cls=ta, sample=case if overlap else None)
        try:
            c = commutator(a, b)
        except Exception as e:  # noqa: BLE001 - no matrix (utility ops): nothing to decide
            ctx.inconclusive_case(f"no matrix for {ta}/{tb}: {type(e).__name__}: {e}")
            return
        ctx.ev("commute.sound")
        if not c < TOL:
            ctx.violation("commute.sound", f"is_commuting({a!r:.80}, {b!r:.80}) is True but ‖[A,B]‖ = {c:.4g}", case=case, mech=mech(a, b),
                          observed=c, expected=0.0)

    t_start = ctx.elapsed()
    work_budget = ctx.budget_s - t_start

    # ------------------------------------------------------------------ 2. Pauli words: exact
    idx = 0
    nP = ctx.n(1200, 60000)
    for i in range(nP):
        if ctx.elapsed() > t_start + 0.2 * work_budget or not ctx.more():
            break
        idx += 1
        ctx.case_index = idx
        n = int(rng.integers(1, 5))
        pool = num.wire_labels(rng, n + 2)
        wa = [pool[int(j)] for j in rng.choice(len(pool), size=int(rng.integers(1, n + 1)), replace=False)]
        wb = [pool[int(j)] for j in rng.choice(len(pool), size=int(rng.integers(1, n + 1)), replace=False)]
        la, lb = word(wa), word(wb)
        a, b = word_op(la, wa), word_op(lb, wb)
        da = {w: c for w, c in zip(wa, la) if c != "I"}
        db = {w: c for w, c in zip(wb, lb) if c != "I"}
        exp = symplectic_commute(da, db)
        case = {"a": repr(a)[:200], "b": repr(b)[:200], "word_a": da, "word_b": db}
        ctx.case(fingerprint("pw", sorted(da.items(), key=str), sorted(db.items(), key=str), type(a).__name__, type(b).__name__),
                 bool(set(da) & set(db)), cls="PauliWordPair", sample=case)
        for x, y in ((a, b), (b, a)):
            ans, err = call(x, y)
            ctx.ev("commute.pauli_exact")
            if err is not None:
                ctx.violation("commute.pauli_exact", f"is_commuting raised {type(err).__name__}: {err} on Pauli words", case=case, mech="pauli:raise")
                break
            if ans != exp:
                ctx.violation("commute.pauli_exact", f"is_commuting({x!r:.60}, {y!r:.60}) = {ans}, symplectic rule says {exp}", case=case,
                              mech="pauli:inexact", observed=ans, expected=exp)
                break
        # dense confirmation of the rule itself on small cases (guards the oracle)
        if i % 16 == 0:
            mats.clear()
            c = commutator(a, b)
            ctx.ev("oracle.selfcheck")
            if (c < 1e-9) != exp:
                ctx.inconclusive_case(f"symplectic oracle disagrees with dense matrices on {case}")

    # ------------------------------------------------------------------ 3. commutation DAG
    pool_names = ["PauliX", "PauliZ", "Hadamard", "S", "T", "SX", "RX", "RY", "RZ", "PhaseShift", "Rot", "U3", "CNOT", "CZ", "CY", "CH", "SWAP", "ISWAP",
                  "CRX", "CRZ", "CRot", "IsingXX", "IsingZZ", "IsingYY", "Toffoli", "CCZ", "CSWAP", "MultiRZ/2", "C(RX)x2", "C(S)x1", "C(Hadamard)x2",
                  "ControlledPhaseShift", "Adjoint(S)", "Pow(RX,2)", "C(IsingZZ)x1", "SISWAP", "C(SWAP)x2"]
    nD = ctx.n(60, 4000)
    for i in range(nD):
        if ctx.elapsed() > t_start + 0.4 * work_budget or not ctx.more():
            break
        idx += 1
        ctx.case_index = idx
        nw = int(rng.integers(2, 5))
        labels = num.wire_labels(rng, nw)
        oplist = []
        for _ in range(int(rng.integers(4, 10))):
            tn = pool_names[int(rng.integers(len(pool_names)))]
            k, mk = T[tn]
            if k > nw:
                continue
            w = [labels[int(j)] for j in rng.choice(nw, size=k, replace=False)]
            oplist.append(mk(w))
        if len(oplist) < 3:
            continue
        tape = qp.tape.QuantumScript(oplist, [qp.expval(qp.Z(labels[0]))])
        try:
            dag = qp.transforms.commutation_dag(tape)
        except Exception as e:  # noqa: BLE001
            ctx.ev("dag.raise")
            ctx.violation("dag.raise", f"commutation_dag raised {type(e).__name__}: {e}", case={"ops": [repr(o)[:80] for o in oplist]},
                          mech=f"dag-raise:{type(e).__name__}")
            continue
        mats.clear()
        n = len(oplist)
        succ = {j: set(dag.get_node(j).successors) for j in range(n)}
        edges = sorted(set((u, v) for u, v in dag.graph.edges()))
        case = {"ops": [repr(o)[:80] for o in oplist], "edges": edges}
        ctx.case(fingerprint("dag", [repr(o) for o in oplist]), len(edges) < n * (n - 1) // 2, cls="dag", sample=case)
        bad = None
        for u in range(n):
            for v in range(u + 1, n):
                if v in succ[u]:
                    continue
                if not (set(oplist[u].wires) & set(oplist[v].wires)):
                    continue
                ctx.ev("dag.pair")
                c = commutator(oplist[u], oplist[v])
                if not c < TOL:
                    bad = (u, v, c)
                    ctx.violation("dag.pair", f"DAG has no path {u}->{v} but {oplist[u]!r:.60} and {oplist[v]!r:.60} do not commute (‖[A,B]‖={c:.3g})",
                                  case={**case, "pair": [u, v]}, mech=mech(oplist[u], oplist[v]), observed=c, expected=0.0)
                    break
            if bad:
                break
        # node ops must be the tape's ops in order (wires relabelled consecutively)
        # random linear extension
        indeg = {j: 0 for j in range(n)}
        for u, v in edges:
            indeg[v] += 1
        avail = [j for j in range(n) if indeg[j] == 0]
        lin = []
        adj = {j: [v for (u, v) in edges if u == j] for j in range(n)}
        while avail:
            j = avail.pop(int(rng.integers(len(avail))))
            lin.append(j)
            for v in adj[j]:
                indeg[v] -= 1
                if indeg[v] == 0:
                    avail.append(v)
        ctx.ev("dag.linear_extension")
        if len(lin) != n:
            ctx.violation("dag.linear_extension", "DAG edges contain a cycle", case=case, mech="dag:cycle")
            continue
        if bad is None and lin != list(range(n)):
            W = labels
            U0 = sv.unitary([(M(o), list(o.wires)) for o in oplist], W)
            U1 = sv.unitary([(M(oplist[j]), list(oplist[j].wires)) for j in lin], W)
            d = float(np.linalg.norm(U0 - U1))
            if not d < TOL * 10:
                ctx.violation("dag.linear_extension", f"linear extension {lin} of the commutation DAG has a different unitary (distance {d:.3g})",
                              case={**case, "order": lin}, mech="dag:order", observed=d, expected=0.0)

    # ------------------------------------------------------------------ 1. type pairs x overlap patterns
    pairs = [(x, y) for x in names for y in names]
    mine = ctx.my(pairs)
    order = rng.permutation(len(mine))
    draws = 1 if ctx.quick else 3
    for oi in order:
        ta, tb = mine[int(oi)]
        if not ctx.more():
            break
        k1, mk1 = T[ta]
        k2, mk2 = T[tb]
        pats = patterns(k1, k2)
        if ctx.quick and (k1 > 2 or k2 > 2):
            sel = [pats[int(i)] for i in rng.choice(len(pats), size=1, replace=False)]
        elif len(pats) > 40:
            sel = [pats[int(i)] for i in rng.choice(len(pats), size=40, replace=False)]
        else:
            sel = pats
        for pat in sel:
            for _ in range(draws):
                idx += 1
                ctx.case_index = idx
                labels = num.wire_labels(rng, k1 + k2)
                w1 = labels[:k1]
                w2 = [labels[c] for c in pat]
                mats.clear()
                try:
                    a, b = mk1(w1), mk2(w2)
                except Exception as e:  # noqa: BLE001
                    ctx.inconclusive_case(f"constructor {ta}/{tb}: {type(e).__name__}: {e}")
                    continue
                check_pair(a, b, ta, tb, pat)
    ctx.note("pairs_planned_this_shard", len(mine))

