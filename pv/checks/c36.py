"""C36 — Finite-difference coefficients have their stated accuracy.

Deciding monitors (post-conditions on the real ``qp.gradients.finite_diff_coeffs``):

* ``fd.moments``      Σ cᵢ sᵢ^k = n!·δ_kn for k = 0 … n+approx_order−1, evaluated in exact rational arithmetic on the
                       returned float64 numbers (``Fraction(float)`` is exact), residual bounded by the stated backward
                       error bound 1e-9·max(1, Σ|cᵢ||sᵢ|^k);
* ``fd.exact_coeffs`` the returned shift set admits, in exact arithmetic (own Gaussian elimination over ``Fraction``),
                       exactly one stencil satisfying all n+approx_order moment conditions, and – for stencils with at most
                       8 points, where the float64 Vandermonde solve is well conditioned – the returned coefficients equal
                       that exact rational stencil to 1e-9·max(1,|c|);
* ``fd.poly``         random polynomials of degree < n+approx_order (exact rational coefficients, expansion point and step
                       size) are differentiated exactly by the returned stencil (same backward-error bound);
* ``fd.layout``       (2, N) array, distinct integer shifts on the documented side(s) of x0;
* ``fd.invalid``      documented ValueError for n < 1, approx_order < 1, non-integers, odd centred order, unknown strategy.
"""
from fractions import Fraction
from math import factorial

from pv.ctx import fingerprint

N_MAX, AO_MAX = 6, 8            # the claimed, exhaustively enumerated space (both tiers)
STRATS = ["forward", "backward", "center"]

META = {
    "id": "C36",
    "level": "exploration",
    "technique": "exhaustive enumeration of (n, approx_order, strategy) with exact-rational moment conditions, an exact "
                 "Vandermonde reference stencil and exact differentiation of random polynomials",
    "level_text": f"All (n, approx_order, strategy) with n ≤ {N_MAX}, approx_order ≤ {AO_MAX} and the three strategies are "
                  "enumerated in every run (exhaustive over that claimed space); each returned stencil is checked against the "
                  "n+approx_order moment conditions in exact rational arithmetic, against the unique exact rational stencil on "
                  "its own shift set, and by differentiating random rational polynomials of every degree below n+approx_order.",
    "level_note": "The coefficients are produced by a float64 linear solve, so 'exactly' is decided with the stated backward-error "
                  "bound 1e-9·max(1, Σ|c_i||s_i|^k) per moment (largest value seen on the unchanged tree: 1.2e-10 at "
                  "(6, 8, forward), ≤ 7e-14 for n ≤ 4, approx_order ≤ 6); coefficient-wise agreement with the exact rational "
                  "stencil to 1e-9 is demanded only for ≤ 8-point stencils (largest error seen there 2.5e-11) because the forward "
                  "Vandermonde solve loses up to 1.8e-4 relative accuracy at 14 points (recorded in evidence notes, not a verdict). "
                  "Orders beyond the claimed space are explored in the thorough tier as notes only.",
    "design_ref": "7/C36",
    "exhaustive": True,
    "shards": {"quick": 1, "thorough": 4},
    "budget_s": {"quick": 40, "thorough": 200},
    "min_evals": {"quick": 2500, "thorough": 20000},
    "min_nontrivial": 100,
    "deciding": ["fd.moments", "fd.exact_coeffs", "fd.poly", "fd.layout", "fd.invalid"],
    "rule": f"every (n, approx_order, strategy) with 1 ≤ n ≤ {N_MAX}, 1 ≤ approx_order ≤ {AO_MAX}; distinct = distinct triple that "
            "returned a stencil; non-trivial = stencil has ≥ 2 points; per triple all moments + random rational polynomials",
    "assumptions": ["Fraction arithmetic is exact", "float64 solve admits backward error ≤ 1e-9 (stated bound)"],
}

TOL = 1e-9


def exact_stencil(n, shifts, K):
    """Unique exact solution c of Σ c_i s_i^k = n! δ_kn for k < K on the given integer shifts (None if inconsistent,
    'under' if under-determined).  Own Gauss-Jordan elimination over Fraction."""
    m = len(shifts)
    rows = [[Fraction(s) ** k for s in shifts] + [Fraction(factorial(n) if k == n else 0)] for k in range(K)]
    piv_cols, r = [], 0
    for c in range(m):
        p = next((t for t in range(r, K) if rows[t][c] != 0), None)
        if p is None:
            continue
        rows[r], rows[p] = rows[p], rows[r]
        pv = rows[r][c]
        rows[r] = [x / pv for x in rows[r]]
        for t in range(K):
            if t != r and rows[t][c] != 0:
                f = rows[t][c]
                rows[t] = [x - f * y for x, y in zip(rows[t], rows[r])]
        piv_cols.append(c)
        r += 1
        if r == K:
            break
    for t in range(r, K):
        if rows[t][m] != 0:
            return None
    if len(piv_cols) < m:
        return "under"
    sol = [Fraction(0)] * m
    for t, c in enumerate(piv_cols):
        sol[c] = rows[t][m]
    return sol


def check_triple(ctx, fdc, np, n, ao, strat, rng, npoly, deciding=True):
    """Returns the largest normalised moment residual (None if rejected)."""
    tag = f"({n},{ao},{strat})"
    case = {"n": n, "approx_order": ao, "strategy": strat}
    pre = "" if deciding else "ext."
    try:
        out = fdc(n, ao, strat)
    except ValueError as e:
        if strat == "center" and ao % 2 == 1 and "even order" in str(e):
            ctx.reject("center-odd-approx-order")
            return None
        ctx.violation(pre + "fd.moments", f"finite_diff_coeffs{tag} raised ValueError: {e}", case=case, mech="reject-valid")
        return None
    except Exception as e:  # noqa: BLE001
        ctx.violation(pre + "fd.moments", f"finite_diff_coeffs{tag} raised {type(e).__name__}: {e}", case=case, mech="raise")
        return None
    if strat == "center" and ao % 2 == 1:
        ctx.violation(pre + "fd.invalid", f"finite_diff_coeffs{tag}: odd centred approximation order accepted", case=case,
                      mech="center-odd-accepted")
        return None
    K = n + ao
    # ---------------------------------------------------------------- layout
    ctx.ev(pre + "fd.layout")
    out = np.asarray(out)
    if out.ndim != 2 or out.shape[0] != 2 or out.shape[1] < 1 or not np.all(np.isfinite(out)):
        ctx.violation(pre + "fd.layout", f"finite_diff_coeffs{tag} returned shape {out.shape} / non-finite values", case=case,
                      mech="layout:shape", observed=out)
        return None
    c = [float(x) for x in out[0]]
    s = [float(x) for x in out[1]]
    case["coeffs"], case["shifts"] = c, s
    bad = None
    if any(not x.is_integer() for x in s):
        bad = "non-integer shifts"
    elif len(set(s)) != len(s):
        bad = "repeated shifts"
    elif strat == "forward" and min(s) < 0:
        bad = "forward stencil uses points behind x0"
    elif strat == "backward" and max(s) > 0:
        bad = "backward stencil uses points ahead of x0"
    elif strat == "center" and set(x for x in s if x) != set(-x for x in s if x):
        bad = "centred stencil is not symmetric around x0"
    if bad:
        ctx.violation(pre + "fd.layout", f"finite_diff_coeffs{tag}: {bad}: shifts {s}", case=case, mech="layout:" + bad.split()[0],
                      observed=s)
        return None
    si = [int(x) for x in s]
    ctx.case(fingerprint(n, ao, strat), nontrivial=len(c) >= 2, cls=strat,
             sample={"n": n, "approx_order": ao, "strategy": strat, "coeffs": c, "shifts": si})

    # ---------------------------------------------------------------- moment conditions (exact arithmetic on the floats)
    cf = [Fraction(x) for x in c]
    worst = 0.0
    for k in range(K):
        ctx.ev(pre + "fd.moments")
        mom = sum(ci * Fraction(sv) ** k for ci, sv in zip(cf, si))
        ref = factorial(n) if k == n else 0
        scale = max(1.0, float(sum(abs(ci) * abs(Fraction(sv)) ** k for ci, sv in zip(cf, si))))
        res = abs(float(mom - ref)) / scale
        worst = max(worst, res)
        if res > TOL:
            ctx.violation(pre + "fd.moments", f"finite_diff_coeffs{tag}: moment k={k}: Σ c_i s_i^k = {float(mom)!r}, must be {ref} "
                          f"(normalised residual {res:.3g} > {TOL})", case=case, mech=f"moment:{strat}", observed=float(mom), expected=ref)
            break
    # ---------------------------------------------------------------- exact reference stencil on the returned shifts
    ctx.ev(pre + "fd.exact_coeffs")
    ex = exact_stencil(n, si, K)
    if ex is None:
        ctx.violation(pre + "fd.exact_coeffs", f"finite_diff_coeffs{tag}: NO stencil on the returned shifts {si} satisfies the "
                      f"{K} moment conditions (exact arithmetic)", case=case, mech=f"shift-set:{strat}", observed=si)
    elif ex == "under":
        # more points than conditions: coefficients are not pinned down by the statement (never happens on the pinned tree)
        ctx.count("underdetermined_shift_sets")
    else:
        relerr = max(abs(float(e) - ci) / max(1.0, abs(float(e))) for e, ci in zip(ex, c))
        if relerr > TOL:
            ctx.note_add("coeff_relerr_vs_exact_above_1e-9", f"{tag} N={len(c)} relerr={relerr:.2e}", cap=200)
        if len(c) <= 8 and relerr > TOL:
            ctx.violation(pre + "fd.exact_coeffs", f"finite_diff_coeffs{tag}: coefficients {c} differ from the exact rational "
                          f"stencil {[str(e) for e in ex]} by {relerr:.3g} (relative)", case=case, mech=f"coeffs:{strat}",
                          observed=c, expected=[str(e) for e in ex])
    # ---------------------------------------------------------------- random polynomials, exact evaluation
    for t in range(npoly):
        deg = (t % K) if t < K else int(rng.integers(0, K))         # every degree 0..K-1 at least once
        kind = int(rng.integers(3))
        if kind == 0:
            a = [Fraction(int(v)) for v in rng.integers(-9, 10, size=deg + 1)]
        elif kind == 1:
            a = [Fraction(int(v), int(d)) for v, d in zip(rng.integers(-50, 51, size=deg + 1), rng.integers(1, 12, size=deg + 1))]
        else:
            a = [Fraction(float(v)) for v in rng.normal(size=deg + 1)]
        if a[deg] == 0:
            a[deg] = Fraction(1)
        x0 = Fraction(int(rng.integers(-20, 21)), int(rng.integers(1, 8)))
        h = [Fraction(1), Fraction(1, 2), Fraction(1, 10), Fraction(1, 1000), Fraction(3, 7), Fraction(2)][int(rng.integers(6))]

        def p(x):
            acc = Fraction(0)
            for coef in reversed(a):
                acc = acc * x + coef
            return acc

        ctx.ev(pre + "fd.poly")
        vals = [p(x0 + sv * h) for sv in si]
        approx = sum(ci * v for ci, v in zip(cf, vals)) / h ** n
        # exact n-th derivative at x0
        true = sum((a[j] * Fraction(factorial(j), factorial(j - n)) * x0 ** (j - n) for j in range(n, deg + 1)), Fraction(0))
        # backward-error scale consistent with the per-moment bound: p(x0+s h) = Σ_k b_k (s h)^k with b_k = p^(k)(x0)/k!,
        # so |approx − true| ≤ Σ_k |b_k| h^(k−n) |M_k − n! δ_kn| ≤ TOL · Σ_k |b_k| h^(k−n) Σ_i |c_i||s_i|^k
        from math import comb
        bk = [sum((a[j] * comb(j, k) * x0 ** (j - k) for j in range(k, deg + 1)), Fraction(0)) for k in range(deg + 1)]
        scale = max(1.0, abs(float(true)),
                    float(sum(abs(bk[k]) * h ** k * sum(abs(ci) * abs(Fraction(sv)) ** k for ci, sv in zip(cf, si))
                              for k in range(deg + 1)) / h ** n))
        res = abs(float(approx - true)) / scale
        if res > TOL:
            ctx.violation(pre + "fd.poly", f"finite_diff_coeffs{tag}: degree-{deg} polynomial (< n+approx_order = {K}) is not "
                          f"differentiated exactly: stencil gives {float(approx)!r}, derivative is {float(true)!r} (normalised "
                          f"residual {res:.3g})", case={**case, "poly": [str(v) for v in a], "x0": str(x0), "h": str(h)},
                          mech=f"poly:{strat}", observed=float(approx), expected=float(true))
            break
    return worst


def run(ctx):
    import warnings

    import numpy as np
    from pennylane.gradients import finite_diff_coeffs as fdc

    warnings.simplefilter("ignore")       # scipy's LinAlgWarning (ill-conditioned) at 13/14-point forward stencils
    rng = ctx.rng
    triples = [(n, ao, st) for n in range(1, N_MAX + 1) for ao in range(1, AO_MAX + 1) for st in STRATS]
    npoly = 14 if ctx.quick else 250
    worst = {}
    for i, (n, ao, st) in enumerate(triples):       # every shard enumerates the whole claimed space (cheap); polys differ
        ctx.case_index = i
        if ctx.only_case is not None and i != ctx.only_case:
            continue
        ctx.more()
        w = check_triple(ctx, fdc, np, n, ao, st, rng, npoly)
        if w is not None:
            worst[st] = max(worst.get(st, 0.0), w)
    ctx.note("claimed_space", f"n in 1..{N_MAX}, approx_order in 1..{AO_MAX}, strategies {STRATS}: {len(triples)} triples, all enumerated")
    for st, w in worst.items():
        ctx.note(f"worst_normalised_moment_residual_{st}", w)

    # ---------------------------------------------------------------- documented rejections
    # (finite_diff_coeffs is wrapped in functools.cache: 1.0 and 1 are the same cache key, so integral floats are served from
    #  the cache once the int call has been made - only non-integral floats are driven here)
    invalid = [((0, 1, "forward"), "n<1"), ((-1, 2, "center"), "n<1"), ((2.5, 2, "backward"), "n-not-int"), ((1.5, 1, "forward"), "n-not-int"), ((1, 0, "forward"), "ao<1"), ((2, -2, "center"), "ao<1"),
               ((1, 2.5, "center"), "ao-not-int"), ((1, 1.5, "forward"), "ao-not-int"), ((1, 2, "centre"), "strategy"),
               ((1, 1, "Forward"), "strategy"), ((2, 2, ""), "strategy"), ((3, 4, None), "strategy")]
    invalid += [((n, ao, "center"), "center-odd") for n in range(1, N_MAX + 1) for ao in range(1, AO_MAX + 1, 2)]
    for args, kind in invalid:
        ctx.ev("fd.invalid")
        try:
            r = fdc(*args)
            ctx.violation("fd.invalid", f"finite_diff_coeffs{args!r} must raise ValueError ({kind}) but returned {r!r}",
                          case={"args": args}, mech="accept-invalid:" + kind)
        except ValueError:
            ctx.reject("invalid:" + kind)
        except Exception as e:  # noqa: BLE001
            ctx.violation("fd.invalid", f"finite_diff_coeffs{args!r} raised {type(e).__name__} instead of ValueError: {e}",
                          case={"args": args}, mech="invalid-wrong-error:" + kind)

    # ---------------------------------------------------------------- beyond the claimed space: notes only (thorough)
    if not ctx.quick:
        ext = [(n, ao, st) for n in range(1, 9) for ao in range(1, 11) for st in STRATS if n > N_MAX or ao > AO_MAX]
        for (n, ao, st) in ctx.my(ext):
            try:
                out = np.asarray(fdc(n, ao, st))
            except ValueError:
                continue
            c, s = [Fraction(float(x)) for x in out[0]], [int(x) for x in out[1]]
            w = 0.0
            for k in range(n + ao):
                mom = sum(ci * Fraction(sv) ** k for ci, sv in zip(c, s))
                scale = max(1.0, float(sum(abs(ci) * abs(Fraction(sv)) ** k for ci, sv in zip(c, s))))
                w = max(w, abs(float(mom - (factorial(n) if k == n else 0))) / scale)
            ctx.count("extended_triples_explored")
            if w > TOL:
                ctx.note_add("extended_space_residual_above_1e-9", f"({n},{ao},{st}) N={len(s)} residual={w:.2e}", cap=100)
