"""C18 — Transforms never modify their input circuit.

Deciding monitor: M-PURE (pv/mon/pure.py) on ``Transform.tape_transform`` — deep structural fingerprint of the
input tape before / after every tape-level transform application (direct call, CompilePipeline, nested transforms,
QNode execution incl. device preprocessing and gradient transforms), again after the post-processing function ran,
plus a re-execution monitor: the original tape executed on default.qubit before and after gives equal results.
"""
import warnings

import numpy as np

from pv.ctx import fingerprint

META = {
    "id": "C18",
    "level": "exploration",
    "technique": "ambient runtime monitor on Transform.tape_transform (before/after structural fingerprint of the input tape, post-processing included) + re-execution differential; history = transform then reuse",
    "level_text": "Every public tape transform discovered by introspection is applied (directly, through CompilePipeline and through "
                  "QNode execution) to generated circuits carrying explicit trainable indices and shots; the monitor sits on the single "
                  "property every application goes through and compares the live input tape before/after, then the original is re-executed.",
    "level_note": "Fingerprint = class names, exact parameter bytes, wires, hyper-parameters (recursively), measurement structure, trainable "
                  "indices, shots; the repo's cached tape.hash is never trusted. Transforms needing arguments the recipes cannot build are listed uncovered.",
    "shards": {"quick": 4, "thorough": 16},
    "budget_s": {"quick": 70, "thorough": 500},
    "min_evals": {"quick": 300, "thorough": 5000},
    "deciding": ["pure.input_unchanged", "pure.reexecute"],
    "rule": "case = (transform, generated tape); distinct = (transform, tape fingerprint); non-trivial = the transform returned something "
            "other than the very same single tape object (it produced new tapes), so aliasing could matter",
    "assumptions": ["structural fingerprint captures every user-visible part of a tape"],
}


# ----------------------------------------------------------------------------- tape families
def t_generic(qp, rng, gen, **kw):
    tape, wires = gen.random_tape(qp, rng, nw=int(rng.integers(2, 5)), n_ops=int(rng.integers(2, 12)), kinds=("expval", "probs", "var"), **kw)
    return tape


def t_trainable(qp, rng, gen, pool=("RX", "RY", "RZ", "CNOT", "Hadamard", "CRX", "IsingXX", "PhaseShift", "Rot"), obs=("pauli",)):
    nw = int(rng.integers(2, 4))
    wires = list(range(nw))
    ops = gen.random_ops(qp, rng, wires, int(rng.integers(2, 8)), pool=list(pool), patterns=0.1)
    ops = [o for o in ops if type(o).__name__ not in ("Adjoint2", "Pow2", "Adjoint", "Pow")] or [qp.RX(0.3, 0)]
    if not any(o.num_params for o in ops):
        ops.append(qp.RY(float(rng.uniform(-3, 3)), wires=0))
    ms = []
    for _ in range(int(rng.integers(1, 3))):
        r = rng.random()
        if r < 0.45:
            ms.append(qp.expval(gen.random_observable(qp, rng, wires, obs if rng.random() < 0.5 else ("pauli", "herm", "proj", "sum", "sprod"))))
        elif r < 0.85:  # variances incl. non-involutory observables (var(A) -> expval(A^2) rewrites inside gradient transforms)
            ms.append(qp.var(gen.random_observable(qp, rng, wires, ("pauli", "herm", "proj", "sprod"))))
        else:
            ms.append(qp.probs(wires=wires[: int(rng.integers(1, nw + 1))]))
    tape = qp.tape.QuantumScript(ops, ms)
    npar = len(tape.get_parameters(trainable_only=False))
    k = int(rng.integers(1, npar + 1))
    tape.trainable_params = sorted(int(i) for i in rng.choice(npar, size=k, replace=False))
    return tape


def t_cnot_rz(qp, rng, gen):
    nw = int(rng.integers(2, 5))
    ops = []
    for _ in range(int(rng.integers(2, 10))):
        if rng.random() < 0.6:
            a, b = rng.choice(nw, size=2, replace=False)
            ops.append(qp.CNOT([int(a), int(b)]))
        else:
            ops.append(qp.RZ(float(rng.uniform(-3, 3)), int(rng.integers(nw))))
    return qp.tape.QuantumScript(ops, [qp.expval(qp.Z(0))])


def t_cnot(qp, rng, gen):
    nw = int(rng.integers(2, 5))
    ops = []
    for _ in range(int(rng.integers(2, 10))):
        a, b = rng.choice(nw, size=2, replace=False)
        ops.append(qp.CNOT([int(a), int(b)]))
    return qp.tape.QuantumScript(ops, [qp.expval(qp.Z(0))])


def t_mcm(qp, rng, gen, shots=None):
    nw = 3
    ops = [qp.RX(float(rng.uniform(0.2, 2.8)), 0), qp.RY(float(rng.uniform(0.2, 2.8)), 1), qp.CNOT([0, 1])]
    m0 = qp.measure(0, reset=bool(rng.integers(2)))
    ops += list(m0.measurements)
    ops.append(qp.ops.Conditional(m0, qp.RX(float(rng.uniform(-3, 3)), wires=2)))
    if rng.random() < 0.5:
        m1 = qp.measure(1)
        ops += list(m1.measurements)
        ops.append(qp.ops.Conditional(m0 & m1, qp.PauliX(2)))
    ms = [qp.expval(qp.Z(2)), qp.probs(wires=[1, 2])][: int(rng.integers(1, 3))]
    return qp.tape.QuantumScript(ops, ms, shots=shots)


def t_hamiltonian(qp, rng, gen):
    nw = int(rng.integers(2, 4))
    wires = list(range(nw))
    ops = gen.random_ops(qp, rng, wires, int(rng.integers(2, 8)), patterns=0.1)
    H = gen.random_observable(qp, rng, wires, ("sum",))
    ms = [qp.expval(H)] + ([qp.expval(gen.pauli_word_obs(qp, rng, wires))] if rng.random() < 0.5 else [])
    return qp.tape.QuantumScript(ops, ms)


def t_multi_obs(qp, rng, gen, shots=None):
    nw = int(rng.integers(2, 4))
    wires = list(range(nw))
    ops = gen.random_ops(qp, rng, wires, int(rng.integers(2, 8)), patterns=0.1)
    ms = [qp.expval(gen.pauli_word_obs(qp, rng, wires)) for _ in range(int(rng.integers(2, 6)))]
    if rng.random() < 0.4:
        ms.append(qp.var(gen.pauli_word_obs(qp, rng, wires)))
    if rng.random() < 0.3:
        ms.append(qp.probs(wires=wires[:2]))
    return qp.tape.QuantumScript(ops, ms, shots=shots)


def t_batched(qp, rng, gen):
    B = int(rng.integers(2, 4))
    ops = [qp.RX(rng.uniform(-3, 3, size=B), 0), qp.CNOT([0, 1]), qp.RY(float(rng.uniform(-3, 3)), 1), qp.RZ(rng.uniform(-3, 3, size=B), 1)]
    return qp.tape.QuantumScript(ops, [qp.expval(qp.Z(0) @ qp.X(1)), qp.probs(wires=[0])])


def t_alloc(qp, rng, gen):
    from pennylane.allocation import Allocate, Deallocate, DynamicWire
    ops = [qp.Hadamard(0)]
    w = DynamicWire()
    ops += [Allocate([w], state="zero", restored=True), qp.CNOT([0, w]), qp.CNOT([0, w]), Deallocate([w])]
    if rng.random() < 0.5:
        v = DynamicWire()
        ops += [Allocate([v], state="zero", restored=False), qp.CNOT([0, v]), Deallocate([v])]
    ops.append(qp.RX(float(rng.uniform(-3, 3)), 1))
    return qp.tape.QuantumScript(ops, [qp.expval(qp.Z(0)), qp.probs(wires=[1])])


def t_wirecut(qp, rng, gen):
    ops = [qp.RX(float(rng.uniform(-3, 3)), 0), qp.RY(float(rng.uniform(-3, 3)), 1), qp.CNOT([0, 1]), qp.WireCut(wires=1),
           qp.CNOT([1, 2]), qp.RZ(float(rng.uniform(-3, 3)), 2)]
    return qp.tape.QuantumScript(ops, [qp.expval(qp.Z(0) @ qp.Z(2))])


def t_unitary(qp, rng, gen):
    from pv.ref import sv
    ops = [qp.Hadamard(0), qp.QubitUnitary(sv.haar_unitary(rng, 2), wires=0), qp.CNOT([0, 1]), qp.QubitUnitary(sv.haar_unitary(rng, 4), wires=[0, 1]),
           qp.RX(float(rng.uniform(-3, 3)), 1)]
    return qp.tape.QuantumScript(ops, [qp.expval(qp.Z(0)), qp.probs(wires=[1])])


def t_barrier_swaps(qp, rng, gen):
    nw = 3
    ops = [qp.Hadamard(0), qp.Barrier(wires=[0, 1, 2]), qp.SWAP([0, 1]), qp.RX(float(rng.uniform(-3, 3)), 1), qp.SWAP([1, 2]), qp.GlobalPhase(0.3),
           qp.Barrier(wires=[0]), qp.GlobalPhase(float(rng.uniform(-3, 3))), qp.Toffoli([0, 1, 2]), qp.S(2), qp.Toffoli([0, 1, 2])]
    k = int(rng.integers(3, len(ops) + 1))
    return qp.tape.QuantumScript(ops[:k], [qp.expval(qp.Z(0)), qp.probs(wires=[1, 2])])


def t_snap(qp, rng, gen):
    ops = [qp.Hadamard(0), qp.Snapshot(), qp.CNOT([0, 1]), qp.Snapshot("tag", measurement=qp.expval(qp.Z(0))), qp.RX(float(rng.uniform(-3, 3)), 1)]
    return qp.tape.QuantumScript(ops, [qp.expval(qp.Z(1))])


def t_amp(qp, rng, gen):
    from pv.ref import sv
    ops = [qp.AmplitudeEmbedding(sv.random_state(rng, 1), wires=0), qp.AmplitudeEmbedding(sv.random_state(rng, 1), wires=1), qp.CNOT([0, 1]),
           qp.RX(float(rng.uniform(-3, 3)), 0)]
    return qp.tape.QuantumScript(ops, [qp.expval(qp.Z(0) @ qp.Z(1))])


def t_cliff_t(qp, rng, gen):
    ops = [qp.Hadamard(0), qp.RZ(float(rng.uniform(-3, 3)), 0), qp.CNOT([0, 1]), qp.T(1), qp.RX(float(rng.uniform(-3, 3)), 1)]
    return qp.tape.QuantumScript(ops[: int(rng.integers(2, 6))], [qp.expval(qp.Z(0))])


def t_mbqc(qp, rng, gen):
    ops = [[qp.H, qp.S, qp.X, qp.Y, qp.Z][int(rng.integers(5))](int(rng.integers(2))) for _ in range(int(rng.integers(1, 4)))]
    ops.append(qp.CNOT([0, 1]))
    ops.append(qp.RZ(float(rng.uniform(-3, 3)), 0))
    return qp.tape.QuantumScript(ops, [qp.sample(wires=[0, 1])], shots=20)


def recipes(qp):
    """name -> (transform, tape family, args factory(rng, tape) -> (args, kwargs))."""
    import pennylane.ftqc, pennylane.fourier, pennylane.shadows, pennylane.devices.preprocess  # noqa: F401
    T, G, N, P, Q = qp.transforms, qp.gradients, qp.noise, qp.devices.preprocess, qp
    na = lambda rng, t: ((), {})  # noqa: E731

    def dq_stop(op):
        return op.has_matrix and len(op.wires) <= 2

    R = {
        "cancel_inverses": (T.cancel_inverses, t_generic, lambda r, t: ((), {"recursive": bool(r.integers(2))})),
        "merge_rotations": (T.merge_rotations, t_generic, na),
        "commute_controlled": (T.commute_controlled, t_generic, lambda r, t: ((), {"direction": ["left", "right"][int(r.integers(2))]})),
        "single_qubit_fusion": (T.single_qubit_fusion, t_generic, na),
        "undo_swaps": (T.undo_swaps, t_barrier_swaps, na),
        "remove_barrier": (T.remove_barrier, t_barrier_swaps, na),
        "combine_global_phases": (T.combine_global_phases, t_barrier_swaps, na),
        "unitary_to_rot": (T.unitary_to_rot, t_unitary, na),
        "convert_to_numpy_parameters": (T.convert_to_numpy_parameters, t_generic, na),
        "compile": (Q.compile, t_generic, lambda r, t: ((), {"num_passes": int(r.integers(1, 3))})),
        "compile.basis": (Q.compile, t_generic, lambda r, t: ((), {"basis_set": ["CNOT", "RX", "RY", "RZ"]})),
        "decompose": (Q.decompose, t_generic, lambda r, t: ((), {"gate_set": [{"RX", "RY", "RZ", "CNOT", "GlobalPhase"}, {"Rot", "CNOT", "GlobalPhase"}, {"H", "T", "S", "CNOT", "RZ", "RY", "GlobalPhase", "RX"}][int(r.integers(3))]})),
        "decompose.barrier": (Q.decompose, t_barrier_swaps, lambda r, t: ((), {"gate_set": {"RX", "RY", "RZ", "CNOT", "GlobalPhase"}})),
        "match_controlled_iX_gate": (T.match_controlled_iX_gate, t_barrier_swaps, na),
        "match_relative_phase_toffoli": (T.match_relative_phase_toffoli, t_barrier_swaps, na),
        "merge_amplitude_embedding": (T.merge_amplitude_embedding, t_amp, na),
        "broadcast_expand": (T.broadcast_expand, t_batched, na),
        "split_non_commuting": (T.split_non_commuting, t_multi_obs, lambda r, t: ((), {"grouping_strategy": ["default", "wires", "qwc", None][int(r.integers(4))]})),
        "split_non_commuting.H": (T.split_non_commuting, t_hamiltonian, na),
        "split_to_single_terms": (T.split_to_single_terms, t_hamiltonian, na),
        "diagonalize_measurements": (T.diagonalize_measurements, _commuting, na),
        "sign_expand": (T.sign_expand, lambda q, r, g: _single_h(q, r, g), na),
        "transpile": (T.transpile, t_generic_2q, lambda r, t: ((_line_map(t),), {})),
        "map_wires": (Q.map_wires, t_generic, lambda r, t: ((), {"wire_map": {w: f"m{k}" for k, w in enumerate(t.wires)}})),
        "defer_measurements": (Q.defer_measurements, t_mcm, na),
        "dynamic_one_shot": (Q.dynamic_one_shot, lambda q, r, g: t_mcm(q, r, g, shots=10), na),
        "snapshots": (Q.snapshots, t_snap, na),
        "commutation_dag": (Q.commutation_dag, t_generic, na),
        "fold_global": (Q.fold_global, t_generic, lambda r, t: ((float(r.choice([1, 2, 2.5, 3])),), {})),
        "insert": (Q.insert, t_generic, lambda r, t: ((qp.AmplitudeDamping, 0.1), {"position": ["all", "start", "end"][int(r.integers(3))]})),
        "add_noise": (Q.add_noise, t_generic, lambda r, t: ((qp.NoiseModel({qp.noise.op_eq(qp.RX) | qp.noise.op_eq(qp.Hadamard): qp.noise.partial_wires(qp.PhaseDamping, 0.1)}),), {})),
        "mitigate_with_zne": (Q.mitigate_with_zne, lambda q, r, g: _single_expval(q, r, g), lambda r, t: (([1.0, 2.0, 3.0], qp.fold_global, qp.noise.richardson_extrapolate), {})),
        "cut_circuit": (Q.cut_circuit, t_wirecut, lambda r, t: ((), {"device_wires": qp.wires.Wires([0, 1, 2])})),
        "metric_tensor": (Q.metric_tensor, t_mt, lambda r, t: ((), {"approx": ["block-diag", "diag"][int(r.integers(2))]})),
        "adjoint_metric_tensor": (Q.adjoint_metric_tensor, t_mt, na),
        "param_shift": (G.param_shift, t_trainable, lambda r, t: ((), {"broadcast": False})),
        "finite_diff": (G.finite_diff, t_trainable, lambda r, t: ((), {"strategy": ["forward", "center", "backward"][int(r.integers(3))], "approx_order": 2})),
        "hadamard_grad": (G.hadamard_grad, lambda q, r, g: t_trainable(q, r, g, pool=("RX", "RY", "RZ", "CNOT", "Hadamard")), lambda r, t: ((), {"aux_wire": "aux"})),
        "spsa_grad": (G.spsa_grad, t_trainable, lambda r, t: ((), {"num_directions": 2, "sampler_rng": 7})),
        "param_shift_hessian": (G.param_shift_hessian, lambda q, r, g: t_trainable(q, r, g, pool=("RX", "RY", "RZ", "CNOT", "Hadamard", "CRX")), na),
        "batch_params": (Q.batch_params, lambda q, r, g: _batchable(q, r, g), na),
        "resolve_dynamic_wires": (T.resolve_dynamic_wires, t_alloc, lambda r, t: ((), {"zeroed": ("z1", "z2"), "any_state": ("a1",)} if r.random() < 0.5 else {"min_int": 5})),
        "parity_matrix": (T.parity_matrix, t_cnot, na),
        "phase_polynomial": (T.phase_polynomial, t_cnot_rz, na),
        "rowcol": (T.rowcol, t_cnot, na),
        "to_zx": (T.to_zx, t_cliff_t, na),
        "circuit_spectrum": (qp.fourier.circuit_spectrum, lambda q, r, g: _spectrum(q, r, g), na),
        "clifford_t_decomposition": (Q.clifford_t_decomposition, t_cliff_t, lambda r, t: ((), {"epsilon": 0.05})),
        "pattern_matching_optimization": (Q.pattern_matching_optimization, t_generic_2q, lambda r, t: ((), {"pattern_tapes": [qp.tape.QuantumScript([qp.S(0), qp.S(0), qp.Z(0)]), qp.tape.QuantumScript([qp.CNOT([0, 1]), qp.CNOT([0, 1])])]})),
        "P.decompose": (P.decompose, t_generic, lambda r, t: ((), {"stopping_condition": dq_stop, "name": "pv"})),
        "P.validate_device_wires": (P.validate_device_wires, t_generic, lambda r, t: ((), {"wires": None})),
        "P.validate_measurements": (P.validate_measurements, t_generic, na),
        "P.validate_observables": (P.validate_observables, t_generic, lambda r, t: ((), {"stopping_condition": lambda o: True})),
        "P.no_sampling": (P.no_sampling, t_generic, na),
        "P.measurements_from_samples": (P.measurements_from_samples, lambda q, r, g: _diag_shots(q, r, g), na),
        "P.measurements_from_counts": (P.measurements_from_counts, lambda q, r, g: _diag_shots(q, r, g), na),
        "P.device_resolve_dynamic_wires": (P.device_resolve_dynamic_wires, t_alloc, lambda r, t: ((), {"wires": qp.wires.Wires([0, 1, 2, 3, 4])} if r.random() < 0.5 else {"wires": None})),
        "P.validate_adjoint_trainable_params": (P.validate_adjoint_trainable_params, t_trainable, na),
        "ftqc.convert_to_mbqc_gateset": (qp.ftqc.convert_to_mbqc_gateset, t_mbqc, na),
        "ftqc.convert_to_mbqc_formalism": (qp.ftqc.convert_to_mbqc_formalism, lambda q, r, g: _mbqc_gateset(q, r, g), na),
        "ftqc.diagonalize_mcms": (qp.ftqc.diagonalize_mcms, lambda q, r, g: _param_mcm(q, r, g), na),
        "shadow_state": (qp.shadows.shadow_state, lambda q, r, g: _shadow(q, r, g), lambda r, t: ((), {"wires": [0]})),
    }
    return R


def t_generic_2q(qp, rng, gen):
    pool = gen.ONE_Q_FIXED + gen.ONE_Q_ROT + gen.TWO_Q_FIXED[:5] + ["CRX", "IsingZZ"]
    tape, _ = gen.random_tape(qp, rng, nw=int(rng.integers(3, 5)), n_ops=int(rng.integers(3, 10)), pool=pool, label_mode="range", patterns=0.2,
                              measurements=None, kinds=("expval",))
    ops = [o for o in tape.operations if len(o.wires) <= 2]
    return qp.tape.QuantumScript(ops, [qp.expval(qp.Z(0)), qp.expval(qp.X(1))])


def _line_map(t):
    ws = sorted(t.wires.tolist(), key=str)
    return [(ws[i], ws[i + 1]) for i in range(len(ws) - 1)] or [(0, 1)]


def _commuting(qp, rng, gen):
    nw = 3
    ops = gen.random_ops(qp, rng, list(range(nw)), int(rng.integers(2, 7)), patterns=0.1)
    basis = [["X", "Y", "Z"][int(rng.integers(3))] for _ in range(nw)]
    ms = []
    for _ in range(int(rng.integers(1, 4))):
        k = int(rng.integers(1, nw + 1))
        ws = sorted(int(i) for i in rng.choice(nw, size=k, replace=False))
        ob = None
        for w in ws:
            f = getattr(qp, "Pauli" + basis[w])(w)
            ob = f if ob is None else ob @ f
        ms.append(qp.expval(ob) if rng.random() < 0.7 else qp.var(ob))
    return qp.tape.QuantumScript(ops, ms)


def _single_h(qp, rng, gen):
    nw = 2
    ops = gen.random_ops(qp, rng, [0, 1], int(rng.integers(2, 6)), patterns=0.1)
    H = qp.Hamiltonian([float(x) for x in rng.normal(size=3)], [qp.Z(0), qp.Z(0) @ qp.Z(1), qp.X(1) @ qp.X(0)][:3])
    return qp.tape.QuantumScript(ops, [qp.expval(H)])


def _single_expval(qp, rng, gen):
    ops = gen.random_ops(qp, rng, [0, 1], int(rng.integers(2, 6)), pool=gen.ONE_Q_FIXED + gen.ONE_Q_ROT + ["CNOT", "CZ"], patterns=0.0)
    return qp.tape.QuantumScript(ops, [qp.expval(qp.Z(0) @ qp.Z(1))])


def t_mt(qp, rng, gen):
    ops = [qp.RX(float(rng.uniform(-3, 3)), 0), qp.RY(float(rng.uniform(-3, 3)), 1), qp.CNOT([0, 1]), qp.RZ(float(rng.uniform(-3, 3)), 1),
           qp.RX(float(rng.uniform(-3, 3)), 0)]
    t = qp.tape.QuantumScript(ops[: int(rng.integers(2, 6))], [qp.expval(qp.Z(0) @ qp.Z(1))])
    return t


def _batchable(qp, rng, gen):
    B = 3
    ops = [qp.RX(rng.uniform(-3, 3, size=B), 0), qp.CNOT([0, 1]), qp.RY(rng.uniform(-3, 3, size=B), 1)]
    return qp.tape.QuantumScript(ops, [qp.expval(qp.Z(0))])


def _spectrum(qp, rng, gen):
    ops = [qp.RX(0.3, 0), qp.RY(0.4, 1), qp.CNOT([0, 1]), qp.RX(0.3, 1), qp.RZ(0.5, 0)]
    return qp.tape.QuantumScript(ops, [qp.expval(qp.Z(0))])


def _diag_shots(qp, rng, gen):
    ops = gen.random_ops(qp, rng, [0, 1], int(rng.integers(2, 6)), patterns=0.0)
    return qp.tape.QuantumScript(ops, [qp.expval(qp.Z(0)), qp.probs(wires=[0, 1]), qp.var(qp.Z(1))][: int(rng.integers(1, 4))], shots=50)


def _mbqc_gateset(qp, rng, gen):
    ops = [qp.H(0), qp.S(0), qp.RZ(float(rng.uniform(-3, 3)), 0)][: int(rng.integers(1, 4))]
    return qp.tape.QuantumScript(ops, [qp.sample(wires=[0])], shots=10)


def _param_mcm(qp, rng, gen):
    from pennylane.ftqc import measure_x, measure_y
    ops = [qp.RX(float(rng.uniform(0.2, 2.8)), 0), qp.CNOT([0, 1])]
    m = measure_x(0) if rng.random() < 0.5 else measure_y(0)
    ops += list(m.measurements)
    ops.append(qp.ops.Conditional(m, qp.PauliX(1)))
    return qp.tape.QuantumScript(ops, [qp.expval(qp.Z(1))], shots=20)


def _shadow(qp, rng, gen):
    ops = [qp.Hadamard(0), qp.CNOT([0, 1])]
    return qp.tape.QuantumScript(ops, [qp.classical_shadow(wires=[0, 1], seed=3)], shots=30)


ALLOWED_REJECTIONS = ("DecompositionError", "DeviceError", "WireError", "TransformError", "QuantumFunctionError", "AllocationError",
                      "NotImplementedError", "ValueError", "DecompositionUndefinedError")


def _res_equal(a, b):
    try:
        if isinstance(a, dict) and isinstance(b, dict):
            return a.keys() == b.keys() and all(_res_equal(a[k], b[k]) for k in a)
        if isinstance(a, (tuple, list)) and isinstance(b, (tuple, list)):
            return len(a) == len(b) and all(_res_equal(x, y) for x, y in zip(a, b))
        return bool(np.allclose(np.asarray(a), np.asarray(b), atol=1e-10, rtol=0, equal_nan=True))
    except Exception:  # noqa: BLE001
        return False


def _executable(qp, tape):
    names = {type(o).__name__ for o in tape.operations}
    if names & {"WireCut", "Allocate", "Deallocate"}:
        return False
    if any("DynamicWire" in type(w).__name__ for w in tape.wires):
        return False
    if tape.shots and any(type(m).__name__ in ("ClassicalShadowMP",) for m in tape.measurements):
        return True
    return True


def run(ctx):
    import pennylane as qp
    from pennylane.core.transforms.transform import Transform

    from pv.gen import circ as gen
    from pv.mon import pure

    warnings.filterwarnings("ignore")
    pure.install(ctx, wrap_post=True)
    R = recipes(qp)
    names = ctx.my(sorted(R))
    # transforms discovered by introspection but without a recipe → uncovered (never "held")
    if ctx.shard == 0:
        seen = {}
        import importlib
        for m in ["pennylane", "pennylane.transforms", "pennylane.gradients", "pennylane.noise", "pennylane.qcut", "pennylane.devices.preprocess",
                  "pennylane.ftqc", "pennylane.debugging", "pennylane.fourier", "pennylane.shadows", "pennylane.pulse"]:
            mod = importlib.import_module(m)
            for n in dir(mod):
                x = getattr(mod, n, None)
                if isinstance(x, Transform):
                    seen[id(x)] = n
        have = {id(v[0]) for v in R.values()}
        for i, n in seen.items():
            if i not in have:
                ctx.uncovered(n, "no argument recipe (needs device / pulses / Catalyst / algorithm-specific wires)")
        ctx.note("transforms_discovered", len(seen))
        ctx.note("transforms_with_recipe", len(have))
    per = 6 if ctx.quick else 320
    dev = qp.device("default.qubit", seed=1234)
    idx = 0
    for name in names:
        tr, family, argf = R[name]
        for j in range(per):
            if not ctx.more():
                break
            idx += 1
            ctx.case_index = idx
            rng = ctx.case_rng(idx * 1000 + ctx.shard)
            try:
                tape = family(qp, rng, gen)
                if rng.random() < 0.5 and tape.num_params and name not in ("param_shift", "finite_diff", "hadamard_grad", "spsa_grad", "param_shift_hessian", "P.validate_adjoint_trainable_params", "metric_tensor", "adjoint_metric_tensor"):
                    npar = len(tape.get_parameters(trainable_only=False))
                    tape.trainable_params = sorted(int(i) for i in rng.choice(npar, size=int(rng.integers(0, npar + 1)), replace=False))
                args, kwargs = argf(rng, tape)
            except Exception as e:  # noqa: BLE001
                ctx.inconclusive_case(f"generator failed for {name}: {type(e).__name__}: {e}")
                continue
            fp0 = fingerprint(gen.tape_struct(tape))
            # re-execution monitor: results of the original before
            exe = _executable(qp, tape) and not tape.shots
            r_before = None
            if exe:
                try:
                    r_before = qp.execute([tape.copy()], dev)
                except Exception:  # noqa: BLE001
                    r_before = None
            n0 = ctx.evals.get("pure.input_unchanged", 0)
            via = int(rng.integers(3)) if not getattr(tr, "is_informative", False) and not name.startswith("ftqc.convert_to_mbqc_gateset") else 0
            try:
                if via == 1:
                    pipe = qp.CompilePipeline(_bound(qp, tr, args, kwargs))
                    out_tapes, fn = pipe((tape,))
                else:
                    graph_on = name.startswith("ftqc.convert_to_mbqc_gateset")
                    if graph_on:
                        qp.decomposition.enable_graph()
                    try:
                        out = tr(tape, *args, **kwargs)
                    finally:
                        if graph_on:
                            qp.decomposition.disable_graph()
                    if isinstance(out, tuple) and len(out) == 2 and callable(out[1]):
                        out_tapes, fn = out
                    else:  # informative transform: returns the processed value directly
                        ctx.count("informative_results")
                        out_tapes, fn = (), None
            except Exception as e:  # noqa: BLE001
                if type(e).__name__ in ALLOWED_REJECTIONS:
                    ctx.reject(f"{name}:{type(e).__name__}")
                else:
                    ctx.reject(f"{name}:unexpected:{type(e).__name__}")
                    ctx.note_add("unexpected_exceptions", f"{name}: {type(e).__name__}: {str(e)[:120]}")
                out_tapes, fn = None, None
            produced_new = out_tapes is not None and not (len(out_tapes) == 1 and out_tapes[0] is tape) and (len(out_tapes) > 0 or fn is None)
            ctx.case(fingerprint(name, fp0), nontrivial=bool(produced_new), cls=name,
                     sample={"transform": name, "via": ["direct", "pipeline", "direct"][via], "tape": gen.describe(tape), "n_out": None if out_tapes is None else len(out_tapes)})
            if out_tapes is not None and fn is not None:
                # run the post-processing on real results when the outputs are executable (closures may mutate late)
                try:
                    if all(hasattr(t, "operations") for t in out_tapes) and all(_executable(qp, t) for t in out_tapes):
                        res = qp.execute(list(out_tapes), qp.device("default.mixed") if name in ("insert", "add_noise") else dev)
                        fn(res)
                        ctx.count("post_processing_ran")
                except Exception as e:  # noqa: BLE001
                    ctx.count("post_processing_not_executable")
            # the monitor's own late look (after everything)
            after = fingerprint(gen.tape_struct(tape))
            ctx.ev("pure.final_look")
            if after != fp0 and ctx.evals.get("pure.input_unchanged", 0) == n0:
                ctx.violation("pure.final_look", f"{name}: input tape differs at the end of the case", case={"transform": name}, mech=f"mutates-input:{name}")
            if r_before is not None:
                try:
                    r_after = qp.execute([tape], dev)
                    ctx.ev("pure.reexecute")
                    if not _res_equal(r_before, r_after):
                        ctx.violation("pure.reexecute", f"{name}: re-executing the original tape after the transform gives different results",
                                      case={"transform": name, "tape": gen.describe(tape)}, observed=r_after, expected=r_before, mech=f"mutates-input:{name}")
                except Exception as e:  # noqa: BLE001
                    ctx.ev("pure.reexecute")
                    ctx.violation("pure.reexecute", f"{name}: original tape no longer executes after the transform: {type(e).__name__}: {e}",
                                  case={"transform": name, "tape": gen.describe(tape)}, mech=f"mutates-input:{name}")
    # ---- thorough tier: the repository's own doctests run with M-PURE on (independent workload)
    if not ctx.quick and ctx.shard == ctx.nshards - 1:
        _doctest_workload(ctx)
    # ---- ambient part: QNode executions (device preprocessing + gradient transforms all pass through M-PURE)
    if ctx.shard % 2 == 0:
        _qnode_workload(ctx, qp, gen)


def _bound(qp, tr, args, kwargs):
    from pennylane.core.transforms.transform import BoundTransform
    return BoundTransform(tr, args=args, kwargs=kwargs)


def _qnode_workload(ctx, qp, gen):
    from pennylane import numpy as pnp
    n = 4 if ctx.quick else 60
    for i in range(n):
        if not ctx.more():
            break
        rng = ctx.case_rng(900000 + i * 31 + ctx.shard)
        diff = ["parameter-shift", "backprop", "adjoint", "finite-diff", "hadamard"][int(rng.integers(5))]
        dev = qp.device("default.qubit")

        @qp.transforms.merge_rotations
        @qp.transforms.cancel_inverses
        @qp.qnode(dev, diff_method=diff)
        def circuit(x, y):
            qp.RX(x, 0)
            qp.RX(y, 0)
            qp.Hadamard(1)
            qp.Hadamard(1)
            qp.CNOT([0, 1])
            qp.RY(y, 1)
            return qp.expval(qp.Z(0) @ qp.Z(1))

        try:
            x, y = pnp.array(float(rng.uniform(-3, 3)), requires_grad=True), pnp.array(float(rng.uniform(-3, 3)), requires_grad=True)
            qp.grad(circuit)(x, y)
            ctx.count("qnode_gradients_run")
        except Exception as e:  # noqa: BLE001
            ctx.note_add("qnode_workload_errors", f"{diff}: {type(e).__name__}: {str(e)[:100]}")


def _doctest_workload(ctx):
    import json
    import os
    import subprocess
    import sys

    root = os.path.dirname(os.path.dirname(os.path.dirname(os.path.abspath(__file__))))
    work = os.path.join(root, "evidence", ".work", "C18")
    os.makedirs(work, exist_ok=True)
    out = os.path.join(work, "doctest_bus.json")
    if os.path.exists(out):
        os.remove(out)
    repo = os.path.dirname(os.path.dirname(os.path.abspath(sys.modules["pennylane"].__file__)))
    env = dict(os.environ, PV_AMBIENT="pure", PV_AMBIENT_OUT=out, PV_AMBIENT_PROP="C18")
    env["PYTHONPATH"] = root + os.pathsep + repo + os.pathsep + env.get("PYTHONPATH", "")
    try:
        subprocess.run([sys.executable, "-m", "pytest", "-q", "-p", "no:cacheprovider", "-p", "pv.pytest_plugin", "--timeout=900",
                        "--continue-on-collection-errors", "doc"], cwd=repo, env=env, stdout=subprocess.DEVNULL, stderr=subprocess.DEVNULL,
                       timeout=max(120, ctx.budget_s * 2))
    except subprocess.TimeoutExpired:
        ctx.note("doctest_workload", "timed out (not a verdict)")
        return
    if not os.path.exists(out):
        ctx.note("doctest_workload", "no bus produced")
        return
    from pv.ctx import absorb
    d = json.load(open(out))
    absorb(ctx, d, prefix="doctests.")
    ctx.note("doctest_workload", {"tests_collected": d.get("tests_collected"), "tests_failed": d.get("tests_failed"),
                                  "transform_applications_observed": d.get("evals", {}).get("pure.input_unchanged", 0)})
