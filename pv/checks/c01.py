"""C01 — Operator representations describe one and the same linear map.

For every generated operator instance (G-OP zoo: every concrete operator class, hostile parameters, arbitrary wire
labels, broadcast batches for broadcast-capable classes) the capability flags are read first, then every accessor is
invoked through the public API and

* the outcome (value / documented ``*UndefinedError`` / anything else) must agree with the flag           (``flag.*``)
* every produced representation is compared with ONE anchor  M = qp.matrix(op, wire_order=W)  where W is a random
  permutation / superset of the operator's wires:
    sparse.matrix    sparse_matrix(wire_order=W).toarray() == M  (and the requested scipy format is returned)
    eigvals.multiset qp.eigvals(op) == eigvals(M0) as multisets
    diag.gates       D M0 D† == diag(op.eigvals())  in the documented order, D built gate by gate with R-SV
    decomp.matrix    product of the decomposition's matrices (R-EMBED, reference gate table where tabulated) == M0
                     exactly, work wires projected on |0>
    pauli.rep        Σ c·kron(paulis) == M
    generator.exp    expm(i·θ·G) == M0 for one-parameter operators (both op.generator() and qp.generator prefactor form)
    adjoint.matrix   matrix(op.adjoint()) == M0†
    expand.embed     qp.math.expand_matrix(M0, wires, W) == R-EMBED(M0, wires, W)    (tensor re-indexing)
    matrix.method    op.matrix(wire_order=W) == M ;  batched: every slice equals the matrix of the operator rebuilt from the
                     sliced parameters
"""
import numpy as np

from pv.ctx import fingerprint

META = {
    "id": "C01",
    "level": "exploration",
    "technique": "runtime contract on the representation accessors of generated operator instances: capability flag vs. outcome, and "
                 "pairwise differential of every produced representation against one anchor matrix (numpy/R-SV/R-EMBED evaluation)",
    "level_text": "Every concrete operator class reachable from Operator.__subclasses__() is instantiated from a recipe table with hostile "
                  "parameters and wire labels; all exposed representations (dense, sparse, eigenvalues + diagonalizing gates, decomposition, "
                  "Pauli representation, generator exponential, adjoint) are produced by the real code and compared with the anchor "
                  "qp.matrix(op, wire_order=W) by independent numpy evaluation; flags are compared with the accessor outcomes. Held on the "
                  "instances observed.",
    "level_note": "Pairwise consistency only (the anchor itself is checked against documented formulas by C02). Dense comparison for <= 6 "
                  "wires (+ <= 3 work wires); larger instances are flag-checked only. Classes whose only matrix source is the "
                  "decomposition (has_matrix False) have no independent second path for decomp.matrix and are counted separately. "
                  "Fractional Pow instances only with base eigenphases strictly inside (-pi, pi). Trusts numpy/scipy and pv/ref. "
                  "Not implemented from the design: broadcast instances are only checked on the dense path (matrix shape, wire-order "
                  "embedding, slice == un-batched operator), not on sparse/eigvals/decomposition (scipy sparse has no batch dimension, "
                  "several decompositions document that they do not broadcast); decompositions that allocate dynamic wires or contain "
                  "mid-circuit measurements are skipped, decompositions whose gates hide work wires are counted as inconclusive cases; "
                  "ParametrizedEvolution (jitted ODE matrix, ~80 s) is instantiated in the thorough tier only; diagonalizing gates are "
                  "only demanded for normal matrices (O = U S U+), eig-based QubitUnitary gates with tolerance 1e-5.",
    "shards": {"quick": 4, "thorough": 16},
    "budget_s": {"quick": 150, "thorough": 300},
    "min_evals": {"quick": 2500, "thorough": 40000},
    "min_nontrivial": {"quick": 250, "thorough": 2500},
    "deciding": ["flag.outcome", "sparse.matrix", "eigvals.multiset", "diag.gates", "decomp.matrix", "pauli.rep", "generator.exp"],
    "rule": "case = one operator instance (class, parameters, hyper-parameters, wires, batch); distinct = distinct (class, data bytes, "
            "hyper reprs, wires); non-trivial = at least two representations besides the anchor were produced and compared, or the anchor "
            "is undefined and all flags were exercised",
    "assumptions": ["numpy/scipy dense linear algebra", "reference gate table for the gates inside decompositions / diagonalizing gates"],
}

MAXW = 6
TOL = 1e-9


def _undefined_errors(qp):
    E = qp.exceptions
    return {
        "matrix": E.MatrixUndefinedError, "sparse_matrix": E.SparseMatrixUndefinedError, "decomposition": E.DecompositionUndefinedError,
        "diagonalizing_gates": E.DiagGatesUndefinedError, "generator": E.GeneratorUndefinedError, "adjoint": E.AdjointUndefinedError,
        "eigvals": E.EigvalsUndefinedError,
    }


def _close(A, B, tol):
    A, B = np.asarray(A), np.asarray(B)
    if A.shape != B.shape:
        return False, float("inf")
    if A.size == 0:
        return True, 0.0
    err = float(np.max(np.abs(A - B)))
    return bool(err < tol), err


def _multiset_close(a, b, tol):
    a = np.asarray(a, dtype=complex).ravel()
    b = np.asarray(b, dtype=complex).ravel()
    if a.shape != b.shape:
        return False, float("inf")
    if a.size == 0:
        return True, 0.0
    if a.size <= 64:
        from scipy.optimize import linear_sum_assignment
        C = np.abs(a[:, None] - b[None, :])
        r, c = linear_sum_assignment(C)
        err = float(C[r, c].max())
    else:
        key = lambda z: (np.round(z.real, 7), np.round(z.imag, 7))  # noqa: E731
        err = float(np.max(np.abs(np.array(sorted(a, key=key)) - np.array(sorted(b, key=key)))))
    return bool(err < tol), err


def _limit_repeats(ctx, per_mech=2):
    """Record at most ``per_mech`` witnesses per (monitor, mechanism) and shard, so that frequent known mechanisms cannot
    exhaust the bus' witness buffer and hide a new one (all occurrences are still counted)."""
    orig, seen = ctx.violation, {}

    def violation(monitor, message, case=None, mech=None, observed=None, expected=None):
        k = (monitor, mech)
        seen[k] = seen.get(k, 0) + 1
        if seen[k] <= per_mech:
            orig(monitor, message, case=case, mech=mech, observed=observed, expected=expected)
        else:
            ctx.nviolations += 1
            ctx.count("witnesses_not_recorded_again")
    ctx.violation = violation


def run(ctx):
    import pennylane as qp

    _limit_repeats(ctx)

    from pv.gen import opzoo

    ctx.note("import_s", round(ctx.elapsed(), 1))
    UND = _undefined_errors(qp)
    classes = opzoo.classes(qp)
    names = [c.__name__ for c in classes]
    ctx.note("zoo_classes", len(names))
    per_class = 4 if ctx.quick else 40
    EXPENSIVE = {"ParametrizedEvolution"}  # matrix = jitted ODE solve (≈ 80 s per process): one instance, thorough tier only
    # work list: (class name, k) round-robin over shards; plus extra random instances weighted to the core (non-template) classes
    work = [(n, k) for k in range(per_class) for n in names if n not in EXPENSIVE]
    if ctx.quick:
        ctx.uncovered("ParametrizedEvolution", "matrix needs a jitted ODE solve (~80 s): instantiated in the thorough tier only")
    else:
        work.insert(0, ("ParametrizedEvolution", 0))
    core = [c.__name__ for c in classes if ".templates." not in c.__module__ and c.__name__ not in EXPENSIVE]
    extra = 2000 if ctx.quick else 16000
    rs = ctx.stream(3)
    work += [(core[int(rs.integers(len(core)))], per_class + j) for j in range(extra)]
    mine = [(i, w) for i, w in enumerate(work) if i % ctx.nshards == ctx.shard]
    slow = {}
    for i, (name, k) in mine:
        if not ctx.more():
            break
        if ctx.only_case is not None and i != ctx.only_case:
            continue
        ctx.case_index = i
        rng = ctx.case_rng(i)
        batch = None
        if opzoo.supports_broadcasting(qp, name) and rng.random() < 0.3:
            batch = int(rng.integers(1, 4))
        seed = [int(x) for x in rng.integers(0, 2**31 - 1, size=3)]
        try:
            op = opzoo.make(qp, name, np.random.default_rng(seed), batch=batch)
        except opzoo.NoRecipe as e:
            ctx.uncovered(name, str(e))
            continue
        info = opzoo.info_of(op)
        info.update(seed=seed, batch_req=batch)
        t1 = ctx.elapsed()
        try:
            _one(ctx, qp, opzoo, UND, op, info, rng)
        except Exception as e:  # noqa: BLE001 - harness error: inconclusive case, never silent
            import traceback
            ctx.inconclusive_case(f"{name}: harness: {type(e).__name__}: {e} @ {traceback.format_exc()[-400:]}")
        slow[name] = slow.get(name, 0.0) + ctx.elapsed() - t1
    ctx.note("total_s", round(ctx.elapsed(), 1))
    ctx.note("slowest_classes_s", [[k, round(v, 1)] for k, v in sorted(slow.items(), key=lambda kv: -kv[1])[:10]])


def _viol(ctx, mon, name, what, info, mech, **kw):
    ctx.violation(mon, f"{name}: {what}", case=info, mech=mech, **kw)


def _call(ctx, qp, UND, op, name, info, flagname, accessor, fn):
    """Read the flag, call the accessor, compare outcome with flag.  Returns (value or None, produced?)."""
    try:
        flag = getattr(op, flagname)
    except Exception as e:  # noqa: BLE001
        ctx.ev("flag.outcome")
        _viol(ctx, "flag.outcome", name, f"reading {flagname} raised {type(e).__name__}: {e}", info, f"flag-read:{flagname}:{name}")
        return None, False
    exp_err = UND[accessor]
    try:
        val = fn()
        outcome = "value"
    except exp_err as e:
        val, outcome = e, "undefined"
    except Exception as e:  # noqa: BLE001
        val, outcome = e, "other"
    ctx.ev("flag.outcome")
    ctx.count(f"flag:{flagname}:{bool(flag)}:{outcome}")
    if flag and outcome != "value":
        extra = f"{type(val).__name__}: {str(val)[:200]}"
        _viol(ctx, "flag.outcome", name, f"{flagname} is True but {accessor}() raised {extra}", info, f"flag-true-raises:{accessor}:{name}:{type(val).__name__}")
        return None, False
    if not flag and outcome == "value" and name.startswith("Tmp"):
        # private helper classes (e.g. special_unitary.TmpPauliRot, not exported by any public namespace) deliberately hide a
        # representation from the decomposition machinery; the statement quantifies over the public operator APIs only
        ctx.note_add("observations_outside_statement", f"{name}: {flagname} False but {accessor}() returns (private helper class)")
        return val, True
    if not flag and outcome == "value":
        _viol(ctx, "flag.outcome", name, f"{flagname} is False but {accessor}() returned a value instead of raising {exp_err.__name__}", info,
              f"flag-false-returns:{accessor}:{name}")
        return val, True
    if not flag and outcome == "other":
        _viol(ctx, "flag.outcome", name, f"{flagname} is False and {accessor}() raised {type(val).__name__}: {str(val)[:200]} instead of "
              f"{exp_err.__name__}", info, f"flag-false-wrong-error:{accessor}:{name}:{type(val).__name__}")
        return None, False
    return (val, True) if outcome == "value" else (None, False)


def _ops_unitary(qp, ops, wire_order):
    """Matrix of a gate list on wire_order through R-SV (gate matrices from the reference table where tabulated)."""
    from pv.ref import bridge
    U, frac = bridge.tape_unitary(list(ops), wire_order)
    return U, frac


def _one(ctx, qp, opzoo, UND, op, info, rng):
    from pv.ref import sv

    name = type(op).__name__
    wires = list(op.wires)
    nw = len(wires)
    if name in ("Pow", "PowOperation", "Pow2") and float(op.z) != int(op.z):
        # fractional powers are covered only where the base's eigenphases are strictly inside (−π, π)
        from pv.ref import bridge
        try:
            Mb, _ = bridge.op_matrix(op.base)
            inside = opzoo.eigenphases_inside(Mb, 1e-6)
        except Exception:  # noqa: BLE001
            inside = False
        if not inside:
            ctx.count("fractional_pow_outside_domain_skipped")
            return
    batch = None
    try:
        batch = op.batch_size
    except Exception as e:  # noqa: BLE001
        ctx.ev("flag.outcome")
        _viol(ctx, "flag.outcome", name, f"batch_size raised {type(e).__name__}: {e}", info, f"batch_size-raises:{name}")
    dense_ok = nw <= MAXW
    compared = 0
    # ---------------------------------------------------------------- matrix flag + anchor
    M0, has_m = _call(ctx, qp, UND, op, name, info, "has_matrix", "matrix", lambda: op.matrix()) if dense_ok else (None, False)
    if not dense_ok:
        # flags only (reading them must work)
        for fl in ("has_matrix", "has_sparse_matrix", "has_decomposition", "has_diagonalizing_gates", "has_generator", "has_adjoint"):
            try:
                getattr(op, fl)
                ctx.ev("flag.outcome")
            except Exception as e:  # noqa: BLE001
                ctx.ev("flag.outcome")
                _viol(ctx, "flag.outcome", name, f"reading {fl} raised {type(e).__name__}: {e}", info, f"flag-read:{fl}:{name}")
        ctx.case(fingerprint(name, repr(info.get("data")), repr(info.get("hyper")), wires), nontrivial=False, cls=name)
        ctx.count("too_large_flag_only")
        return
    W = list(wires)
    if nw < MAXW and rng.random() < 0.4:
        W = W + ["e0"]
    W = [W[int(i)] for i in rng.permutation(len(W))]
    info["wire_order"] = W
    M = None
    if has_m:
        M0 = np.asarray(M0)
        exp_shape = ((batch,) if batch else ()) + (2**nw, 2**nw)
        ctx.ev("matrix.method")
        if batch is None and M0.ndim == 3 and M0.shape[1:] == (2**nw, 2**nw):
            _viol(ctx, "matrix.method", name, f"op.matrix() is batched (shape {M0.shape}) but op.batch_size is None", info,
                  f"batched-matrix-but-batch_size-none:{name}")
            ctx.case(fingerprint(name, repr(info.get("data")), wires, "bsnone"), nontrivial=True, cls=name)
            return
        if M0.shape != exp_shape and not (nw == 0 and M0.size == 1 * (batch or 1)):
            _viol(ctx, "matrix.method", name, f"op.matrix() has shape {M0.shape}, expected {exp_shape} (batch_size={batch})", info, f"matrix-shape:{name}")
            M0 = None
    # anchor through the public function (may come from the decomposition when has_matrix is False)
    anchor_from = None
    try:
        M = np.asarray(qp.matrix(op, wire_order=W))
        anchor_from = "compute_matrix" if has_m else "decomposition"
    except Exception as e:  # noqa: BLE001
        M = None
        if has_m:
            ctx.ev("matrix.method")
            _viol(ctx, "matrix.method", name, f"has_matrix is True but qp.matrix(op, wire_order={W}) raised {type(e).__name__}: {str(e)[:200]}", info,
                  f"qp.matrix-raises:{name}:{type(e).__name__}")
    if has_m and M0 is not None and M is not None:
        # op.matrix(wire_order) and expand_matrix vs R-EMBED
        ctx.ev("matrix.method")
        try:
            Mm = np.asarray(op.matrix(wire_order=W))
            ok, err = _close(Mm, M, TOL * max(1, np.max(np.abs(M))))
            if not ok:
                _viol(ctx, "matrix.method", name, f"op.matrix(wire_order=W) differs from qp.matrix(op, wire_order=W) by {err:.2e}", info, f"matrix-method:{name}")
        except Exception as e:  # noqa: BLE001
            _viol(ctx, "matrix.method", name, f"op.matrix(wire_order={W}) raised {type(e).__name__}: {str(e)[:200]}", info, f"matrix-method-raises:{name}")
        if nw >= 1 or len(W) >= 1:
            ctx.ev("expand.embed")
            try:
                sl = [M0] if M0.ndim == 2 else list(M0)
                E = np.stack([sv.embed(x, wires, W) for x in sl]) if M0.ndim == 3 else sv.embed(M0, wires, W)
                ok, err = _close(M, E, TOL * max(1, np.max(np.abs(E))))
                if not ok:
                    _viol(ctx, "expand.embed", name, f"qp.matrix(op, wire_order={W}) differs from the tensor re-indexing embedding of op.matrix() by {err:.2e}",
                          info, f"expand:{name}", observed=M, expected=E)
                compared += 1
            except AssertionError:
                pass
    scale = float(np.max(np.abs(M))) if M is not None and M.size else 1.0
    tol = TOL * max(1.0, scale)
    if anchor_from == "decomposition" or ".templates." in type(op).__module__:
        tol = max(tol, 1e-8 * max(1.0, scale))  # long gate sequences
    unb = batch is None
    Mown = None  # matrix on the operator's own wire order
    if M is not None and unb:
        try:
            Mown = M0 if (has_m and M0 is not None and M0.ndim == 2) else np.asarray(qp.matrix(op, wire_order=wires))
        except Exception:  # noqa: BLE001
            Mown = None

    if not unb:
        if M is not None and M.ndim == 3:
            _check_batch(ctx, qp, op, name, info, M, W, tol)
            compared += 2
        ctx.case(fingerprint(name, repr(info.get("data")), repr(info.get("hyper")), wires, batch), nontrivial=compared >= 2, cls=name + "[batched]",
                 sample={k: info[k] for k in ("name", "wires", "data", "wire_order", "batch") if k in info})
        return

    # ---------------------------------------------------------------- sparse
    S, has_s = _call(ctx, qp, UND, op, name, info, "has_sparse_matrix", "sparse_matrix", lambda: op.sparse_matrix())
    if has_s and M is not None and unb:
        try:
            S = op.sparse_matrix(wire_order=W)
        except NotImplementedError:
            ctx.reject("sparse_matrix:wire_order-not-implemented")  # documented limitation (Exp / Evolution)
            S, W_s = S, wires
            has_s = False
            if Mown is not None:
                ctx.ev("sparse.matrix")
                ok, err = _close(S.toarray(), Mown, tol)
                if not ok:
                    _viol(ctx, "sparse.matrix", name, f"sparse_matrix().toarray() differs from the matrix by {err:.2e}", info, f"sparse:{name}")
                compared += 1
        except Exception as e:  # noqa: BLE001
            ctx.ev("sparse.matrix")
            _viol(ctx, "sparse.matrix", name, f"sparse_matrix(wire_order={W}) raised {type(e).__name__}: {str(e)[:200]}", info, f"sparse-wire_order-raises:{name}:{type(e).__name__}")
            has_s = False
    if has_s and M is not None and unb:
        ctx.ev("sparse.matrix")
        try:
            import scipy.sparse as sp
            if not sp.issparse(S):
                _viol(ctx, "sparse.matrix", name, f"sparse_matrix returned {type(S).__name__}", info, f"sparse-type:{name}")
            else:
                ok, err = _close(S.toarray(), M, tol)
                if not ok:
                    _viol(ctx, "sparse.matrix", name, f"sparse_matrix(wire_order={W}).toarray() differs from qp.matrix by {err:.2e}", info, f"sparse:{name}",
                          observed=S.toarray(), expected=M)
                compared += 1
                fmt = ["csr", "csc", "coo", "lil"][int(rng.integers(4))]
                S2 = op.sparse_matrix(wire_order=W, format=fmt)
                if S2.format != fmt:
                    _viol(ctx, "sparse.matrix", name, f"sparse_matrix(format={fmt!r}) returned format {S2.format!r}", info, f"sparse-format:{name}")
                elif not _close(S2.toarray(), M, tol)[0]:
                    _viol(ctx, "sparse.matrix", name, f"sparse_matrix(format={fmt!r}) differs from qp.matrix", info, f"sparse:{name}")
        except Exception as e:  # noqa: BLE001
            _viol(ctx, "sparse.matrix", name, f"sparse comparison raised {type(e).__name__}: {str(e)[:200]}", info, f"sparse-raises:{name}:{type(e).__name__}")

    # ---------------------------------------------------------------- eigenvalues (+ diagonalizing gates)
    ev = None
    try:
        ev = np.asarray(op.eigvals())
        ev_out = "value"
    except UND["eigvals"]:
        ev_out = "undefined"
    except Exception as e:  # noqa: BLE001
        ev_out = "other"
        # eigvals is documented to fall back to the matrix; any other exception with a defined matrix is a candidate
        if has_m and unb:
            ctx.ev("eigvals.multiset")
            _viol(ctx, "eigvals.multiset", name, f"eigvals() raised {type(e).__name__}: {str(e)[:200]} although the matrix is defined", info,
                  f"eigvals-raises:{name}:{type(e).__name__}")
    ctx.count(f"eigvals:{ev_out}")
    if ev_out == "undefined" and has_m and unb:
        ctx.ev("eigvals.multiset")
        _viol(ctx, "eigvals.multiset", name, "eigvals() raised EigvalsUndefinedError although has_matrix is True (documented fallback to the matrix)", info,
              f"eigvals-undefined-with-matrix:{name}")
    if ev is not None and Mown is not None and unb and ev.ndim == 1:
        ctx.ev("eigvals.multiset")
        ref = np.linalg.eigvals(Mown)
        # degenerate non-normal matrices make eigenvalues ill-conditioned: use a looser bound unless the matrix is normal
        normal = np.linalg.norm(Mown @ Mown.conj().T - Mown.conj().T @ Mown) < 1e-9 * max(1, scale) ** 2
        etol = (1e-7 if normal else 1e-4) * max(1.0, scale)
        ok, err = _multiset_close(ev, ref, etol)
        if not ok:
            _viol(ctx, "eigvals.multiset", name, f"op.eigvals() differs from the eigenvalues of the matrix as a multiset by {err:.2e}", info, f"eigvals:{name}",
                  observed=ev, expected=ref)
        compared += 1
        try:
            ev2 = np.asarray(qp.eigvals(op)) if name != "SparseHamiltonian" else np.zeros((2, 2))  # documented: returns k eigenvalues only
            if ev2.ndim == 1 and not _multiset_close(ev2, ref, etol)[0]:
                _viol(ctx, "eigvals.multiset", name, "qp.eigvals(op) differs from the eigenvalues of the matrix as a multiset", info, f"qp.eigvals:{name}",
                      observed=ev2, expected=ref)
        except Exception as e:  # noqa: BLE001
            _viol(ctx, "eigvals.multiset", name, f"qp.eigvals(op) raised {type(e).__name__}: {str(e)[:200]} although op.eigvals() works", info,
                  f"qp.eigvals-raises:{name}:{type(e).__name__}")
    D, has_d = _call(ctx, qp, UND, op, name, info, "has_diagonalizing_gates", "diagonalizing_gates", lambda: op.diagonalizing_gates())
    if has_d and ev is not None and Mown is not None and unb and ev.ndim == 1 \
            and np.linalg.norm(Mown @ Mown.conj().T - Mown.conj().T @ Mown) < 1e-9 * max(1, scale) ** 2:  # O = UΣU† needs a normal matrix
        ctx.ev("diag.gates")
        try:
            dgw = list(dict.fromkeys(wires + [w for g in D for w in g.wires]))
            if len(dgw) == nw:
                Dm, _ = _ops_unitary(qp, D, wires)
                lhs = Dm @ Mown @ Dm.conj().T
                # eigenvector matrices obtained numerically (QubitUnitary from eig/eigh) are iterative numerics: looser, stated bound
                dtol = (1e-5 if any(type(g).__name__ == "QubitUnitary" for g in D) else 1e-8) * max(1.0, scale)
                ok, err = _close(lhs, np.diag(ev), dtol)
                if not ok:
                    mech = f"diag-gates:{name}"
                    if np.linalg.norm(Dm @ Dm.conj().T - np.eye(Dm.shape[0])) > 1e-6:
                        mech = f"diag-gates:nonunitary-eigvecs:{name}"  # QubitUnitary built from non-orthonormal eig() vectors
                    try:
                        if name in ("Controlled", "ControlledOp") and not all(op.control_values) and _multiset_close(np.diag(lhs), ev, 1e-7 * max(1.0, scale))[0] \
                                and np.max(np.abs(lhs - np.diag(np.diag(lhs)))) < 1e-7 * max(1.0, scale):
                            mech = "controlled-eigvals:order-ignores-control-values"
                    except Exception:  # noqa: BLE001
                        pass
                    _viol(ctx, "diag.gates", name, f"D·M·D† differs from diag(eigvals()) by {err:.2e} (D = diagonalizing_gates)", info, mech,
                          observed=lhs, expected=np.diag(ev))
                compared += 1
        except Exception as e:  # noqa: BLE001
            _viol(ctx, "diag.gates", name, f"evaluating diagonalizing gates raised {type(e).__name__}: {str(e)[:200]}", info, f"diag-gates-raises:{name}:{type(e).__name__}")

    # ---------------------------------------------------------------- decomposition
    dec, has_dec = _call(ctx, qp, UND, op, name, info, "has_decomposition", "decomposition", lambda: op.decomposition())
    if has_dec and Mown is not None and unb:
        _check_decomp(ctx, qp, op, name, info, dec, wires, Mown, tol, independent=bool(has_m))
        compared += 1 if has_m else 0

    # ---------------------------------------------------------------- pauli representation
    try:
        pr = op.pauli_rep
    except Exception as e:  # noqa: BLE001
        pr = None
        ctx.ev("pauli.rep")
        _viol(ctx, "pauli.rep", name, f"pauli_rep raised {type(e).__name__}: {str(e)[:200]}", info, f"pauli-rep-raises:{name}")
    if pr is not None and M is not None and unb:
        ctx.ev("pauli.rep")
        try:
            from pv.ref import gates as G
            R = np.zeros((2 ** len(W), 2 ** len(W)), dtype=complex)
            for pw, c in pr.items():
                T = np.eye(1, dtype=complex)
                d = dict(pw)
                if not set(d) <= set(W):
                    raise KeyError(f"pauli word on wires {list(d)} outside {W}")
                for w in W:
                    T = np.kron(T, G.PAULI[d.get(w, "I")])
                R = R + complex(c) * T
            ok, err = _close(M, R, tol)
            if not ok:
                _viol(ctx, "pauli.rep", name, f"Σ c·kron(paulis) of pauli_rep differs from qp.matrix by {err:.2e}", info, f"pauli-rep:{name}", observed=R, expected=M)
            compared += 1
        except Exception as e:  # noqa: BLE001
            _viol(ctx, "pauli.rep", name, f"evaluating pauli_rep raised {type(e).__name__}: {str(e)[:200]}", info, f"pauli-rep-eval:{name}:{type(e).__name__}")

    # ---------------------------------------------------------------- generator
    gen, has_g = _call(ctx, qp, UND, op, name, info, "has_generator", "generator", lambda: op.generator())
    if has_g and Mown is not None and unb:
        try:
            data = list(op.data)
        except Exception:  # noqa: BLE001
            data = []
        theta = None
        if len(data) >= 1 and np.ndim(data[0]) == 0 and (len(data) == 1 or name in ("Exp", "Evolution")):
            theta = complex(np.asarray(data[0]))
        if name in ("Exp", "Evolution"):
            theta = None  # generator convention of Exp (coefficient in data) is checked by C03's matrix arithmetic
        if theta is not None:
            from scipy.linalg import expm
            ctx.ev("generator.exp")
            try:
                Gm = np.asarray(qp.matrix(gen, wire_order=wires), dtype=complex) if len(gen.wires) else complex(np.asarray(qp.matrix(gen)).ravel()[0]) * np.eye(2**nw)
                E = expm(1j * theta * Gm)
                ok, err = _close(E, Mown, 1e-8 * max(1.0, scale))
                if not ok:
                    mech_g = f"generator:{name}"
                    try:
                        if name in ("Pow", "PowOperation", "Pow2") and float(op.z) != int(op.z):
                            alt = type(op.base)(float(op.z) * theta.real, wires=op.base.wires)
                            if _close(np.asarray(qp.matrix(alt, wire_order=wires)), E, 1e-8)[0]:
                                mech_g = "pow-frac:generator-angle-not-principal"
                    except Exception:  # noqa: BLE001
                        pass
                    _viol(ctx, "generator.exp", name, f"expm(i·θ·G) with G = op.generator() differs from the matrix by {err:.2e} (θ = {theta})", info, mech_g,
                          observed=E, expected=Mown)
                compared += 1
                try:
                    obs, pref = qp.generator(op, format="prefactor")
                    Om = np.asarray(qp.matrix(obs, wire_order=wires), dtype=complex) if len(obs.wires) else complex(np.asarray(qp.matrix(obs)).ravel()[0]) * np.eye(2**nw)
                    E2 = expm(1j * theta * complex(pref) * Om)
                    if ok and not _close(E2, Mown, 1e-8 * max(1.0, scale))[0]:
                        _viol(ctx, "generator.exp", name, "expm(i·θ·p·O) with (O, p) = qp.generator(op, 'prefactor') differs from the matrix", info,
                              f"generator-prefactor:{name}", observed=E2, expected=Mown)
                except (ValueError, qp.exceptions.GeneratorUndefinedError, NotImplementedError):
                    ctx.reject("qp.generator:prefactor-format")
            except Exception as e:  # noqa: BLE001
                _viol(ctx, "generator.exp", name, f"evaluating the generator raised {type(e).__name__}: {str(e)[:200]}", info, f"generator-eval:{name}:{type(e).__name__}")

    # ---------------------------------------------------------------- adjoint
    adj, has_a = _call(ctx, qp, UND, op, name, info, "has_adjoint", "adjoint", lambda: op.adjoint())
    if has_a and Mown is not None and unb:
        ctx.ev("adjoint.matrix")
        try:
            Am = np.asarray(qp.matrix(adj, wire_order=wires))
            ok, err = _close(Am, Mown.conj().T, tol)
            if not ok:
                _viol(ctx, "adjoint.matrix", name, f"matrix(op.adjoint()) differs from matrix(op)† by {err:.2e}", info, f"adjoint:{name}", observed=Am, expected=Mown.conj().T)
            compared += 1
        except Exception as e:  # noqa: BLE001
            _viol(ctx, "adjoint.matrix", name, f"matrix of op.adjoint() raised {type(e).__name__}: {str(e)[:200]}", info, f"adjoint-eval:{name}:{type(e).__name__}")

    nontriv = compared >= 2 or (M is None)
    ctx.case(fingerprint(name, repr(info.get("data")), repr(info.get("hyper")), wires, batch), nontrivial=bool(nontriv), cls=name,
             sample={k: info[k] for k in ("name", "wires", "data", "wire_order") if k in info})
    ctx.count(f"anchor:{anchor_from}")


def _check_decomp(ctx, qp, op, name, info, dec, wires, Mown, tol, independent):
    mon = "decomp.matrix" if independent else "decomp.selfconsistent"
    try:
        from pennylane.allocation import Allocate, Deallocate
        if any(isinstance(g, (Allocate, Deallocate)) for g in dec):
            ctx.count("decomp:dynamic-allocation-skipped")
            return
        if any(type(g).__name__ in ("MidMeasure", "Conditional", "PauliMeasure", "Snapshot") for g in dec):
            ctx.count("decomp:non-unitary-skipped")
            return
        extra = [w for g in dec for w in g.wires if w not in wires]
        extra = list(dict.fromkeys(extra))
        if len(wires) + len(extra) > MAXW + 3:
            ctx.count("decomp:too-many-work-wires-skipped")
            return
        order = list(wires) + extra
        ctx.ev(mon)
        U, _ = _ops_unitary(qp, dec, order)
        if extra:
            k = 2 ** len(extra)
            U4 = U.reshape(2 ** len(wires), k, 2 ** len(wires), k)
            Ueff = U4[:, 0, :, 0]
        else:
            Ueff = U
        ok, err = _close(Ueff, Mown, max(tol, 1e-8 * max(1, np.max(np.abs(Mown)))))
        if not ok:
            mech = f"decomp:{name}"
            try:
                if name in ("Pow", "PowOperation", "Pow2") and float(op.z) != int(op.z) and len(dec) == 1 and type(dec[0]) is type(op.base):
                    mech = "pow-frac:decomposition-angle-not-principal"
            except Exception:  # noqa: BLE001
                pass
            _viol(ctx, mon, name, f"product of the decomposition's matrices differs from the operator's matrix by {err:.2e} "
                  f"({len(dec)} gates, work wires {extra})", info, mech, observed=Ueff, expected=Mown)
    except Exception as e:  # noqa: BLE001 - the harness could not evaluate a gate of the decomposition (hidden work wires …)
        ctx.inconclusive_case(f"{name}: decomposition not evaluable by the harness: {type(e).__name__}: {str(e)[:160]}")


def _check_batch(ctx, qp, op, name, info, M, W, tol):
    """Every slice of the batched anchor equals the matrix of the operator rebuilt from the sliced parameters."""
    try:
        exp_nd = tuple(op.ndim_params)
        data = list(op.data)
    except Exception:  # noqa: BLE001
        return
    B = M.shape[0]
    for b in range(B):
        new = []
        for d, nd in zip(data, exp_nd):
            a = np.asarray(d)
            new.append(a[b] if a.ndim > nd else d)
        try:
            op_b = qp.ops.functions.bind_new_parameters(op, new)
            Mb = np.asarray(qp.matrix(op_b, wire_order=W))
        except Exception as e:  # noqa: BLE001
            ctx.inconclusive_case(f"{name}: could not rebuild slice: {type(e).__name__}: {e}")
            return
        ctx.ev("matrix.batch")
        ok, err = _close(M[b], Mb, tol)
        if not ok:
            _viol(ctx, "matrix.batch", name, f"slice {b} of the batched matrix differs from the matrix of the un-batched operator by {err:.2e}", info,
                  f"batch-slice:{name}", observed=M[b], expected=Mb)
            return
