"""C22 — Dynamic wire allocation never aliases live wires.

Deciding monitors
* ``wiremgr.invariant`` (M-WIREMGR, invariant at a hook): a monitored subclass is substituted for the module global
  ``_WireManager`` of ``pennylane.transforms.resolve_dynamic_wires`` (looked up at call time, so the direct transform,
  ``device_resolve_dynamic_wires`` and ``default.qubit`` all use it).  Shadow state kept by the harness: the set of live
  (loaned) concrete wires and a cleanliness flag per concrete wire.  ``get_wire`` must not return a live wire, a
  ``state="zero"`` request must be served by a wire the shadow knows to be |0> or come with a reset on that very
  wire; ``return_wire`` must return a live wire; free registers hold no duplicates and are disjoint from the loaned set.
* ``alloc.output`` (offline checker over the output tape): the input history is replayed against the output tape
  (every non-allocation op must reappear with its wires mapped position-wise; resets only where the manager said so);
  the harness's own dynamic→concrete map must be injective among live wires, avoid static wires that were not handed
  to the allocator, and only use register wires or integers >= min_int.
* ``alloc.zero_state`` : density-matrix simulation (harness's own, Kraus resets) of the *output* tape with the
  any_state register prepared in random states: at each ``state="zero"`` allocation point the concrete wire's reduced
  state must be |0><0|.
* ``alloc.equivalence``: final reduced state of the output tape on all measured/static wires equals the fresh-wire
  reference (each allocation gets its own new wire; deallocated wires are traced out), and end-to-end
  ``qp.execute`` on ``default.qubit`` (device path) equals the reference measurement values.

Histories are honest by construction (checked again in the reference run): ``restored=True`` wires are touched only by
compute/use-as-control/uncompute or G..G† patterns; ``state="any"`` wires only by patterns that are operator
identities on the rest (dirty-ancilla Toffoli ladder, G G†), local gates, or a user reset followed by clean use.
"""
import math
import warnings

import numpy as np

from pv.ctx import fingerprint

META = {
    "id": "C22",
    "level": "exploration",
    "technique": "class invariant on a substituted _WireManager (shadow live-set + cleanliness) + offline replay of the allocation "
                 "history against the output tape + density-matrix reference (fresh ancillas) for zero-state and result equivalence",
    "level_text": "Random honest allocate/deallocate histories (zero/any x restored, nested and overlapping scopes, multi-wire "
                  "allocations, permuted deallocation, user resets) x random zeroed/any_state registers (any_state wires prepared in "
                  "random states), min_int and allow_resets are pushed through the real transform, the device transform and "
                  "default.qubit; the monitored manager, the output-tape replay and a Kraus density-matrix simulation decide.",
    "level_note": "Gate matrices for the simulation come from the documented-formula table (pv.ref). No conditionals / mid-circuit "
                  "measurement statistics are generated (only user and allocator resets), so R-BR reduces to a density-matrix simulation "
                  "with the reset channel. Half of the tapes are built through the public explicit API (qp.allocate / qp.deallocate under "
                  "an AnnotatedQueue), half from Allocate/Deallocate instructions; the context-manager form (strictly nested scopes) is a "
                  "special case of the generated histories and is not generated separately. Magic-state allocation is rejected by the "
                  "transform by design and only probed for that rejection. AllocationError is a legal outcome (rejection; an independent "
                  "count model of the documented procedure notes unexpected ones in evidence). Static wires = wires that really occur in "
                  "the circuit. Device path: default.qubit with wires=None / explicit wires and mcm_method in {default, deferred, "
                  "tree-traversal}, histories without user resets only.",
    "shards": {"quick": 4, "thorough": 8},
    "budget_s": {"quick": 45, "thorough": 230},
    "min_evals": {"quick": 20000, "thorough": 300000},
    "min_nontrivial": {"quick": 300, "thorough": 4000},
    "deciding": ["wiremgr.invariant", "alloc.output", "alloc.zero_state", "alloc.equivalence"],
    "allow_rejections": True,
    "rule": "case = (allocation history, registers, min_int, allow_resets); distinct = fingerprint of the program and the settings; "
            "non-trivial = some concrete wire was handed out at least twice (wire reuse) in the resolved circuit",
    "assumptions": ["inputs are honest (restored=True wires really restored; zeroed register really |0>) — enforced by construction and re-checked in the reference run",
                    "registers are disjoint from the static wires; min_int is above every static integer label"],
}

TOL = 1e-9


# =============================================================================== density-matrix simulator (harness's own)
class DM:
    """Density matrix over a growing/shrinking list of labelled wires (first wire = most significant)."""

    def __init__(self):
        self.wires = []
        self.rho = np.ones((1, 1), dtype=complex)

    def add(self, wire, vec=None):
        v = np.array([1, 0], dtype=complex) if vec is None else np.asarray(vec, dtype=complex)
        self.rho = np.kron(self.rho, np.outer(v, v.conj()))
        self.wires.append(wire)

    def ensure(self, wire, init):
        if wire not in self.wires:
            self.add(wire, init(wire) if init else None)

    def _tensor(self):
        n = len(self.wires)
        return self.rho.reshape([2] * (2 * n))

    def apply(self, M, wires):
        from pv.ref import sv

        n = len(self.wires)
        ax = [self.wires.index(w) for w in wires]
        T = self._tensor()
        T = sv.apply_tensor(T, M, ax)
        T = sv.apply_tensor(T, np.conj(M), [n + a for a in ax])
        self.rho = T.reshape(2**n, 2**n)

    def kraus(self, Ks, wire):
        from pv.ref import sv

        n = len(self.wires)
        a = self.wires.index(wire)
        T = self._tensor()
        out = 0
        for K in Ks:
            X = sv.apply_tensor(T, K, [a])
            out = out + sv.apply_tensor(X, np.conj(K), [n + a])
        self.rho = out.reshape(2**n, 2**n)

    def reset(self, wire):
        self.kraus([np.array([[1, 0], [0, 0]], dtype=complex), np.array([[0, 1], [0, 0]], dtype=complex)], wire)

    def dephase(self, wire):
        self.kraus([np.array([[1, 0], [0, 0]], dtype=complex), np.array([[0, 0], [0, 1]], dtype=complex)], wire)

    def reduced(self, keep):
        from pv.ref import sv

        return sv.reduced_dm(self.rho, self.wires, list(keep))

    def remove(self, wire):
        keep = [w for w in self.wires if w != wire]
        self.rho = self.reduced(keep)
        self.wires = keep


ZERO_DM = np.array([[1, 0], [0, 0]], dtype=complex)


# =============================================================================== G-ALLOC: honest allocation histories
G1 = ["Hadamard", "PauliX", "PauliY", "S", "T", "SX", "RX", "RY", "RZ", "PhaseShift"]
G1_DIAG = ["PauliZ", "S", "T", "RZ", "PhaseShift"]
G2 = ["CNOT", "CZ", "CY", "SWAP", "CRX", "CRY", "CRZ", "IsingZZ", "IsingXX", "ControlledPhaseShift"]
G2_CTRL = ["CNOT", "CY", "CRX", "CRY", "CH"]  # first wire is a pure control
G2_DIAG = ["CZ", "CRZ", "IsingZZ", "ControlledPhaseShift"]
NPAR = {"RX": 1, "RY": 1, "RZ": 1, "PhaseShift": 1, "CRX": 1, "CRY": 1, "CRZ": 1, "IsingZZ": 1, "IsingXX": 1, "ControlledPhaseShift": 1}
SELF_INV = {"Hadamard", "PauliX", "PauliY", "PauliZ", "CNOT", "CZ", "CY", "SWAP", "Toffoli", "CH"}


class Gen:
    """Builds one honest program as a list of items:
    ("gate", name, params, wires, adjoint) | ("alloc", ids, state, restored) | ("dealloc", ids) | ("reset", wire)
    where wires are ("s", label) or ("d", id)."""

    def __init__(self, rng, static, max_live=3, max_alloc=8, budget=26):
        self.rng = rng
        self.S = [("s", w) for w in static]
        self.items = []
        self.next_id = 0
        self.live = {}  # id -> dict(state, restored, mode)  mode: "clean" (usable like a fresh |0> wire, may end dirty),
        #                  "idle" (restored wire between rounds), "dirty" (any/False, local ops only)
        self.max_live, self.max_alloc, self.budget = max_live, max_alloc, budget
        self.nalloc = 0

    # ---- helpers
    def r(self):
        return self.rng.random()

    def pick(self, seq):
        return seq[int(self.rng.integers(len(seq)))]

    def ang(self):
        return float(self.rng.uniform(0.2, 2.9)) * (1 if self.r() < 0.5 else -1)

    def gate(self, name, wires, adjoint=False):
        ps = tuple(self.ang() for _ in range(NPAR.get(name, 0)))
        self.items.append(("gate", name, ps, list(wires), adjoint))
        self.budget -= 1
        return self.items[-1]

    def usable(self, frozen):
        """wires that may be used like ordinary qubits: static + clean dynamic ones (frozen ones only as control/diag)."""
        return self.S + [("d", i) for i, d in self.live.items() if d["mode"] == "clean"]

    def free_gate(self, frozen):
        U = self.usable(frozen)
        nf = [w for w in U if w not in frozen]
        r = self.r()
        if r < 0.45 or len(U) < 2:
            if nf and self.r() < 0.8:
                self.gate(self.pick(G1), [self.pick(nf)])
            else:
                self.gate(self.pick(G1_DIAG), [self.pick(U)])
            return
        if r < 0.9:
            a, b = [U[int(i)] for i in self.rng.choice(len(U), size=2, replace=False)]
            fa, fb = a in frozen, b in frozen
            if not fa and not fb:
                self.gate(self.pick(G2), [a, b])
            elif fb and not fa:
                self.gate(self.pick(G2_CTRL), [b, a])
            elif fa and not fb:
                self.gate(self.pick(G2_CTRL), [a, b])
            else:
                self.gate(self.pick(G2_DIAG), [a, b])
            return
        if len(U) >= 3 and nf:
            t = self.pick(nf)
            cs = [w for w in U if w != t]
            c1, c2 = [cs[int(i)] for i in self.rng.choice(len(cs), size=2, replace=False)]
            self.gate("Toffoli", [c1, c2, t])

    def alloc(self, k, state, restored):
        ids = list(range(self.next_id, self.next_id + k))
        self.next_id += k
        self.nalloc += 1
        self.items.append(("alloc", ids, state, restored))
        for i in ids:
            mode = "clean" if (state == "zero" and not restored) else "idle" if restored else "dirty"
            self.live[i] = {"state": state, "restored": restored, "mode": mode}
        return ids

    def dealloc(self, ids):
        self.items.append(("dealloc", list(ids)))
        for i in ids:
            del self.live[i]

    # ---- patterns for the different promise classes
    def round_zero_restored(self, i, frozen, depth):
        d = ("d", i)
        U = [w for w in self.usable(frozen)]
        if self.r() < 0.4 or not U:
            # local: G(d) ... G†(d); d untouched in between and never entangled
            g = self.pick(["Hadamard", "PauliX", "RX", "RY", "SX", "S"])
            it = self.gate(g, [d])
            self.live[i]["mode"] = "busy"  # untouched (and not deallocated) until G† has been applied
            self.block(int(self.rng.integers(0, 4)), frozen | {d}, depth + 1)
            self.live[i]["mode"] = "idle"
            self.items.append(("gate", it[1], it[2], [d], True))
            self.budget -= 1
            return
        # copy: X-type controlled gates onto d from controls C; in between C and d are frozen (control / diagonal use only)
        comp = []
        n = int(self.rng.integers(1, 3))
        for _ in range(n):
            if len(U) >= 2 and self.r() < 0.35:
                c1, c2 = [U[int(j)] for j in self.rng.choice(len(U), size=2, replace=False)]
                comp.append(self.gate("Toffoli", [c1, c2, d]))
            else:
                comp.append(self.gate("CNOT", [self.pick(U), d]))
        C = {w for it in comp for w in it[3][:-1]}
        self.live[i]["mode"] = "clean"  # usable inside, but frozen
        self.block(int(self.rng.integers(1, 5)), frozen | C | {d}, depth + 1)
        self.live[i]["mode"] = "idle"
        for it in reversed(comp):
            self.items.append(("gate", it[1], it[2], list(it[3]), False))  # self-inverse gates
            self.budget -= 1

    def round_any_restored(self, i, frozen, depth):
        a = ("d", i)
        U = self.usable(frozen)
        nf = [w for w in U if w not in frozen]
        r = self.r()
        if r < 0.4 and len(U) >= 4 and nf:
            # dirty-ancilla ladder:  C3X(c1,c2,c3 -> t) (x) I_a  as an operator identity
            t = self.pick(nf)
            cs = [w for w in U if w != t]
            c1, c2, c3 = [cs[int(j)] for j in self.rng.choice(len(cs), size=3, replace=False)]
            for ws in ([c1, c2, a], [a, c3, t], [c1, c2, a], [a, c3, t]):
                self.gate("Toffoli", ws)
            return
        if r < 0.7:
            g = self.pick(["Hadamard", "PauliX", "RX", "RZ", "T", "SX"])
            it = self.gate(g, [a])
            self.live[i]["mode"] = "busy"
            self.block(int(self.rng.integers(0, 4)), frozen | {a}, depth + 1)
            self.live[i]["mode"] = "idle"
            self.items.append(("gate", it[1], it[2], [a], True))
            self.budget -= 1
            return
        if nf:
            b = self.pick(nf)
            g = self.pick(["CNOT", "CZ", "CRX", "IsingXX", "SWAP"])
            ws = [a, b] if self.r() < 0.5 else [b, a]
            it = self.gate(g, ws)
            self.items.append(("gate", it[1], it[2], list(ws), True))
            self.budget -= 1

    def touch_dirty(self, i, frozen):
        a = ("d", i)
        r = self.r()
        others = [("d", j) for j, d in self.live.items() if d["mode"] == "dirty" and j != i]
        if r < 0.5:
            self.gate(self.pick(G1), [a])
        elif r < 0.7 and others:
            self.gate(self.pick(G2), [a, self.pick(others)])
        elif r < 0.85:
            self.items.append(("reset", a))
            self.budget -= 1
        else:
            self.items.append(("reset", a))
            self.budget -= 1
            self.live[i]["mode"] = "clean"  # now really |0>: may be used like a clean wire from here on

    # ---- main recursive block
    def block(self, n, frozen, depth):
        for _ in range(n):
            if self.budget <= 0:
                return
            r = self.r()
            can_alloc = self.nalloc < self.max_alloc and depth <= 3
            if r < 0.30 and can_alloc:
                k = 1 if self.r() < 0.75 else 2
                if len(self.live) + k > self.max_live:
                    self.try_dealloc(frozen)
                    continue
                state = "zero" if self.r() < 0.6 else "any"
                restored = self.r() < 0.5
                ids = self.alloc(k, state, restored)
                if restored:
                    for i in ids:
                        if i not in self.live:
                            continue
                        (self.round_zero_restored if state == "zero" else self.round_any_restored)(i, frozen, depth)
                elif state == "zero":  # entangle the fresh clean wires with the rest so that they end up correlated garbage
                    for i in ids:
                        if self.r() < 0.75 and i in self.live:
                            U = [w for w in self.usable(frozen) if w != ("d", i)]
                            if U:
                                self.gate(self.pick(G2_CTRL), [self.pick(U), ("d", i)])
                            else:
                                self.gate(self.pick(["Hadamard", "RX", "PauliX"]), [("d", i)])
                else:
                    for i in ids:
                        if self.r() < 0.6 and i in self.live:
                            self.touch_dirty(i, frozen)
                if self.r() < 0.2:
                    self.dealloc_group(ids, frozen)
            elif r < 0.45 and self.live:
                self.try_dealloc(frozen)
            elif r < 0.62 and self.live:
                i = self.pick(sorted(self.live))
                d = self.live[i]
                if ("d", i) in frozen:
                    continue
                if d["mode"] == "idle":
                    (self.round_zero_restored if d["state"] == "zero" else self.round_any_restored)(i, frozen, depth)
                elif d["mode"] == "dirty":
                    self.touch_dirty(i, frozen)
                else:
                    self.free_gate(frozen)
            elif r < 0.67 and any(d["mode"] == "clean" and not d["restored"] and ("d", i) not in frozen for i, d in self.live.items()):
                i = self.pick([i for i, d in self.live.items() if d["mode"] == "clean" and not d["restored"] and ("d", i) not in frozen])
                self.items.append(("reset", ("d", i)))
                self.budget -= 1
            else:
                self.free_gate(frozen)

    def deallocatable(self, frozen):
        return [i for i in self.live if ("d", i) not in frozen]

    def try_dealloc(self, frozen):
        c = self.deallocatable(frozen)
        if not c:
            return
        k = 1 if self.r() < 0.7 else min(2, len(c))
        ids = [c[int(j)] for j in self.rng.choice(len(c), size=k, replace=False)]
        self.dealloc(ids)

    def dealloc_group(self, ids, frozen):
        ids = [i for i in ids if i in self.live and ("d", i) not in frozen]
        if not ids:
            return
        ids = [ids[int(j)] for j in self.rng.permutation(len(ids))]
        if len(ids) > 1 and self.r() < 0.5:
            for i in ids:
                self.dealloc([i])
        else:
            self.dealloc(ids)

    def finish(self):
        if self.r() < 0.7:
            order = sorted(self.live)
            order = [order[int(j)] for j in self.rng.permutation(len(order))]
            for i in order:
                if self.r() < 0.85:
                    self.dealloc([i])
        measured_dyn = [i for i, d in self.live.items() if d["mode"] in ("clean", "idle") and d["state"] == "zero" or d["mode"] == "clean"]
        return measured_dyn


def gen_program(rng):
    from pv.gen import num

    ns = int(rng.integers(1, 4))
    static = num.wire_labels(rng, ns, ["range", "noncontig", "str", "mixed"][int(rng.integers(4))])
    g = Gen(rng, static, max_live=int(rng.integers(1, 4)), max_alloc=int(rng.integers(1, 9)), budget=int(rng.integers(6, 30)))
    for w in g.S:
        if g.r() < 0.8:
            g.gate(g.pick(["Hadamard", "RX", "RY"]), [w])
    g.block(40, frozenset(), 0)
    measured_dyn = g.finish()
    return {"static": static, "items": g.items, "measured_dyn": measured_dyn, "ndyn": g.next_id}


# =============================================================================== building tapes / reference
def gate_matrix(name, params, nw, adjoint):
    from pv.ref import gates as G

    M = G.ref_matrix(name, list(params), nw, {})
    return M.conj().T if adjoint else M


def build_tape(qp, prog, rng):
    """Real tape with DynamicWire objects. Returns (tape, dyn objects, measurement specs)."""
    from pennylane.allocation import Allocate, Deallocate, DynamicWire

    via_queue = rng.random() < 0.5
    dyn = [None if via_queue else DynamicWire() for _ in range(prog["ndyn"])]
    W = lambda w: w[1] if w[0] == "s" else dyn[w[1]]  # noqa: E731
    ops = []

    def emit():
        for it in prog["items"]:
            if it[0] == "gate":
                _, name, ps, ws, adj = it
                cls = getattr(qp, name)
                op = cls(*ps, wires=[W(w) for w in ws])
                if adj and name not in SELF_INV:
                    op = qp.adjoint(op)
                ops.append(op)
            elif it[0] == "alloc":
                if via_queue:  # public API, explicit form: qp.allocate(...) queues the Allocate instruction
                    reg = qp.allocate(len(it[1]), state=it[2], restored=it[3])
                    for j, i in enumerate(it[1]):
                        dyn[i] = reg[j]
                else:
                    ops.append(Allocate([dyn[i] for i in it[1]], state=it[2], restored=it[3]))
            elif it[0] == "dealloc":
                if via_queue:
                    qp.deallocate([dyn[i] for i in it[1]])
                else:
                    ops.append(Deallocate([dyn[i] for i in it[1]]))
            elif it[0] == "reset":
                ops.extend(qp.measure(W(it[1]), reset=True).measurements)

    if via_queue:
        with qp.queuing.AnnotatedQueue() as q:
            emit()
        ops = list(qp.tape.QuantumScript.from_queue(q).operations)
    else:
        emit()
    # measurements: on static wires and still-live clean dynamic wires
    mw = [("s", w) for w in prog["static"]] + [("d", i) for i in prog["measured_dyn"]]
    specs = []
    k = int(rng.integers(1, 4))
    for _ in range(k):
        r = rng.random()
        sub = [mw[int(j)] for j in rng.choice(len(mw), size=int(rng.integers(1, min(3, len(mw)) + 1)), replace=False)]
        if r < 0.5:
            specs.append(("probs", sub))
        else:
            word = "".join(rng.choice(list("XYZ"), size=len(sub)))
            specs.append(("expval", sub, word))
    ms = []
    for s in specs:
        if s[0] == "probs":
            ms.append(qp.probs(wires=[W(w) for w in s[1]]))
        else:
            ob = None
            for w, p in zip(s[1], s[2]):
                f = getattr(qp, "Pauli" + p)(W(w))
                ob = f if ob is None else ob @ f
            ms.append(qp.expval(ob))
    return qp.tape.QuantumScript(ops, ms), dyn, specs, mw


PAULI = {"X": np.array([[0, 1], [1, 0]], dtype=complex), "Y": np.array([[0, -1j], [1j, 0]]), "Z": np.array([[1, 0], [0, -1]], dtype=complex)}


def spec_values(rho, wires, specs):
    """Measurement values of the specs from a reduced density matrix ``rho`` on ``wires`` (list of wire refs)."""
    from pv.ref import sv

    out = []
    n = len(wires)
    for s in specs:
        if s[0] == "probs":
            sub = sv.reduced_dm(rho, wires, s[1])
            out.append(np.real(np.diag(sub)))
        else:
            T = rho.reshape([2] * (2 * n))
            for w, p in zip(s[1], s[2]):
                T = sv.apply_tensor(T, PAULI[p], [wires.index(w)])
            out.append(np.asarray(np.real(np.trace(T.reshape(2**n, 2**n)))))
    return out


def reference_run(prog, any_init, mw):
    """Fresh-wire semantics: every allocation gets its own new wire (|0> for "zero", ``any_init(id)`` for "any");
    deallocated wires are traced out.  Returns (reduced rho on mw, list of honesty problems)."""
    dm = DM()
    for w in prog["static"]:
        dm.add(("s", w))
    init = {}
    problems = []
    info = {}
    for it in prog["items"]:
        if it[0] == "gate":
            _, name, ps, ws, adj = it
            dm.apply(gate_matrix(name, ps, len(ws), adj), ws)
        elif it[0] == "alloc":
            for i in it[1]:
                v = np.array([1, 0], dtype=complex) if it[2] == "zero" else any_init(i)
                init[i] = v
                info[i] = (it[2], it[3])
                dm.add(("d", i), v)
        elif it[0] == "dealloc":
            for i in it[1]:
                if info[i][1]:  # restored=True promise
                    r1 = dm.reduced([("d", i)])
                    if np.linalg.norm(r1 - np.outer(init[i], init[i].conj())) > 1e-8:
                        problems.append(f"wire {i} ({info[i][0]}, restored=True) not restored")
                dm.remove(("d", i))
        elif it[0] == "reset":
            dm.reset(it[1])
    for w in mw:
        if w[0] == "d" and w not in dm.wires:
            problems.append(f"measured dynamic wire {w} not live")
    live_restored = [i for i in info if ("d", i) in dm.wires and info[i][1]]
    return dm.reduced(mw), problems


# =============================================================================== M-WIREMGR
class Monitor:
    def __init__(self, ctx):
        self.ctx = ctx
        self.log = None  # list of events for the current transform call
        self.case = None
        self.static = None

    def install(self):
        import pennylane.transforms.resolve_dynamic_wires  # noqa: F401
        import sys

        mod = sys.modules["pennylane.transforms.resolve_dynamic_wires"]
        Base = mod._WireManager  # pylint: disable=protected-access
        from pennylane.allocation import AllocateState

        mon = self
        ctx = self.ctx

        class MonitoredWireManager(Base):  # pylint: disable=too-few-public-methods
            def __init__(self, zeroed=(), any_state=(), min_int=None, allow_resets=True):
                super().__init__(zeroed=zeroed, any_state=any_state, min_int=min_int, allow_resets=allow_resets)
                self._pv_live = {}
                self._pv_clean = {w: True for w in self._registers[AllocateState.ZERO]}
                self._pv_clean.update({w: False for w in self._registers[AllocateState.ANY]})
                self._pv_given = set(self._pv_clean)
                self._pv_min0 = min_int
                mon.note_manager(self)
                self._pv_check("init")

            def _pv_violation(self, what, mech):
                ctx.violation("wiremgr.invariant", what, case=mon.case, mech=mech)

            def _pv_check(self, when):
                ctx.ev("wiremgr.invariant")
                z = list(self._registers[AllocateState.ZERO])
                a = list(self._registers[AllocateState.ANY])
                free = z + a
                if len(set(map(_key, free))) != len(free):
                    self._pv_violation(f"{when}: a wire appears twice in the free registers: zeroed={z} any={a}", "wiremgr:register-duplicate")
                both = {_key(w) for w in free} & {_key(w) for w in self._pv_live}
                if both:
                    self._pv_violation(f"{when}: wires {sorted(map(str, both))} are on loan and in a free register at the same time", "wiremgr:register-holds-live-wire")

            def get_wire(self, state, restored):
                before_free = {_key(w) for w in self._registers[AllocateState.ZERO] + self._registers[AllocateState.ANY]}
                wire, ops = super().get_wire(state, restored)
                ctx.ev("wiremgr.invariant")
                k = _key(wire)
                if any(_key(w) == k for w in self._pv_live):
                    self._pv_violation(f"get_wire({state}, restored={restored}) returned {wire!r} which is already on loan", "wiremgr:live-wire-handed-out")
                if mon.static is not None and k in mon.static and k not in {_key(w) for w in self._pv_given}:
                    self._pv_violation(f"get_wire returned {wire!r}, a wire used by the static circuit that was not handed to the allocator", "wiremgr:dynamic-on-static-wire")
                known = k in {_key(w) for w in self._pv_clean}
                if not known:
                    # a newly created wire: must be an integer >= the original min_int
                    ok = self._pv_min0 is not None and isinstance(wire, int) and wire >= self._pv_min0
                    if not ok:
                        self._pv_violation(f"get_wire returned {wire!r}: neither from the registers nor a new integer >= min_int={self._pv_min0}", "wiremgr:foreign-wire")
                    self._pv_clean[wire] = True
                resets = [o for o in ops if getattr(o, "reset", False) and list(o.wires) == [wire]]
                if ops and len(resets) != len(ops):
                    self._pv_violation(f"get_wire returned ops that are not a reset of the returned wire {wire!r}: {ops}", "wiremgr:foreign-reset-op")
                if ops and not self.allow_resets:
                    self._pv_violation("get_wire inserted a reset although allow_resets=False", "wiremgr:reset-not-allowed")
                clean = bool(self._pv_clean.get(wire, False)) or bool(resets)
                if str(state) == "zero" and not clean:
                    self._pv_violation(f"state='zero' request served with wire {wire!r} that is not known to be |0> and no reset was inserted",
                                       "wiremgr:zero-request-dirty-wire")
                self._pv_live[wire] = {"clean": clean, "restored": bool(restored), "state": str(state)}
                mon.event("get", wire=wire, state=str(state), restored=bool(restored), nreset=len(ops), clean=clean)
                self._pv_check("after get_wire")
                return wire, ops

            def return_wire(self, wire):
                ctx.ev("wiremgr.invariant")
                k = _key(wire)
                hit = [w for w in self._pv_live if _key(w) == k]
                if not hit:
                    self._pv_violation(f"return_wire({wire!r}): wire is not on loan", "wiremgr:return-of-non-live-wire")
                    return super().return_wire(wire)
                rec = self._pv_live.pop(hit[0])
                super().return_wire(wire)
                self._pv_clean[hit[0]] = bool(rec["clean"] and rec["restored"])
                # where did it go?  a wire that may be dirty must not be filed under "zeroed"
                inz = any(_key(w) == k for w in self._registers[AllocateState.ZERO])
                ina = any(_key(w) == k for w in self._registers[AllocateState.ANY])
                if not (inz or ina):
                    self._pv_violation(f"return_wire({wire!r}): wire was not put back into any register", "wiremgr:returned-wire-lost")
                if inz and not self._pv_clean[hit[0]]:
                    self._pv_violation(f"return_wire({wire!r}): a wire that is not guaranteed |0> (clean={rec['clean']}, restored={rec['restored']}) was filed "
                                       "under the zeroed register", "wiremgr:dirty-wire-filed-as-zeroed")
                mon.event("return", wire=wire)
                self._pv_check("after return_wire")
                return None

        MonitoredWireManager.__name__ = "_WireManager"
        self._mod, self._Base = mod, Base
        mod._WireManager = MonitoredWireManager  # pylint: disable=protected-access

    def uninstall(self):
        self._mod._WireManager = self._Base  # pylint: disable=protected-access

    def start(self, case, static=None):
        self.case = case
        self.log = []
        self.managers = 0
        self.static = None if static is None else {_key(w) for w in static}

    def note_manager(self, m):
        self.managers = getattr(self, "managers", 0) + 1

    def event(self, kind, **kw):
        if self.log is not None:
            self.log.append((kind, kw))


def _key(w):
    """Hashable identity of a wire label (type-aware so that 1 and '1' differ; True/1 never generated)."""
    return (type(w).__name__, id(w)) if type(w).__name__ == "DynamicWire" else (type(w).__name__, w)


# =============================================================================== independent count model (documented procedure)
def model_expects_error(prog, nz, na, min_int, allow_resets):
    """Documented allocation procedure on counts only: does an allocation run out of wires?"""
    zero_free, any_free = nz, na
    live = {}
    for it in prog["items"]:
        if it[0] == "alloc":
            for i in it[1]:
                state, restored = it[2], it[3]
                if zero_free == 0 and any_free == 0:
                    if min_int is None:
                        return True
                    zero_free += 1
                if state == "zero":
                    if zero_free:
                        zero_free -= 1
                        live[i] = "zero" if restored else "any"
                    elif allow_resets:
                        any_free -= 1
                        live[i] = "zero" if restored else "any"
                    else:
                        if min_int is None:
                            return True
                        live[i] = "zero" if restored else "any"
                else:
                    if any_free:
                        any_free -= 1
                        live[i] = "any"
                    else:
                        zero_free -= 1
                        live[i] = "zero" if restored else "any"
        elif it[0] == "dealloc":
            for i in it[1]:
                if live.pop(i) == "zero":
                    zero_free += 1
                else:
                    any_free += 1
    return False


# =============================================================================== offline checker over the output tape
def check_output(ctx, qp, prog, tape, out, dyn, settings, log, case, any_vec):
    """Replay input history vs output tape; density-matrix simulation of the output. Returns (rho on mw or None, reuse count)."""
    from pv.ref import bridge

    static = {_key(w) for w in tape.wires if type(w).__name__ != "DynamicWire"}  # static wires that really occur in the circuit
    given = {_key(w) for w in settings["zeroed"]} | {_key(w) for w in settings["any_state"]}
    min_int = settings["min_int"]
    dynid = {id(d): i for i, d in enumerate(dyn)}
    gets = [e for e in log if e[0] == "get"]
    gi = 0
    live = {}  # dyn id -> concrete
    handed = {}
    oi = 0
    oops = list(out.operations)
    dm = DM()
    for w in prog["static"]:
        dm.add(w)
    init = lambda w: any_vec.get(_key(w))  # noqa: E731
    bad = []

    def viol(msg, mech):
        bad.append(mech)
        ctx.violation("alloc.output", msg, case=case, mech=mech)

    def is_dyn(w):
        return type(w).__name__ == "DynamicWire"

    for op in tape.operations:
        if op.name == "Allocate":
            for w in op.wires:
                ctx.ev("alloc.output")
                if gi >= len(gets):
                    viol("fewer get_wire events than allocated wires", "output:hook-log-mismatch")
                    return None, 0
                ev = gets[gi][1]
                gi += 1
                c = ev["wire"]
                kc = _key(c)
                if any(_key(x) == kc for x in live.values()):
                    viol(f"allocation of dynamic wire #{dynid[id(w)]} landed on concrete wire {c!r} which is still live for another dynamic wire", "output:live-wires-share-concrete-wire")
                if kc in static and kc not in given:
                    viol(f"dynamic wire landed on static wire {c!r} that was not handed to the allocator", "output:dynamic-on-static-wire")
                if kc not in given and not (min_int is not None and isinstance(c, int) and c >= min_int):
                    viol(f"concrete wire {c!r} is neither in the registers nor an integer >= min_int", "output:foreign-wire")
                for _ in range(ev["nreset"]):
                    if oi >= len(oops) or not getattr(oops[oi], "reset", False) or list(oops[oi].wires) != [c]:
                        viol(f"expected a reset of {c!r} at output position {oi}", "output:missing-reset-op")
                        return None, 0
                    dm.ensure(c, init)
                    dm.reset(c)
                    oi += 1
                live[dynid[id(w)]] = c
                handed[kc] = handed.get(kc, 0) + 1
                dm.ensure(c, init)
                if str(op.hyperparameters["state"]) == "zero":
                    ctx.ev("alloc.zero_state")
                    r1 = dm.reduced([c])
                    if np.linalg.norm(r1 - ZERO_DM) > 1e-8:
                        p1 = float(np.real(r1[1, 1]))
                        ctx.violation("alloc.zero_state", f"state='zero' allocation #{dynid[id(w)]} was served with concrete wire {c!r} whose state is not |0> "
                                      f"(P(1)={p1:.3g}, |rho-|0><0||={np.linalg.norm(r1 - ZERO_DM):.3g})", case=case, mech="zero-request-not-zero")
                        bad.append("zero")
        elif op.name == "Deallocate":
            for w in op.wires:
                live.pop(dynid[id(w)], None)
        else:
            ctx.ev("alloc.output")
            if oi >= len(oops):
                viol("output tape is shorter than the input history", "output:structure")
                return None, 0
            o = oops[oi]
            oi += 1
            exp_w = [live.get(dynid[id(w)], "<unmapped>") if is_dyn(w) else w for w in op.wires]
            if any(is_dyn(w) for w in o.wires):
                viol(f"output op {o} still contains a DynamicWire", "output:unresolved-dynamic-wire")
                return None, 0
            if o.name != op.name or list(map(_key, o.wires)) != list(map(_key, exp_w)):
                viol(f"output op #{oi - 1} is {o.name}{list(o.wires)}, expected {op.name}{exp_w} (harness's own dynamic->concrete map)", "output:wrong-wire-mapping")
                return None, 0
            try:
                same_data = len(o.data) == len(op.data) and all(np.array_equal(np.asarray(x), np.asarray(y)) for x, y in zip(o.data, op.data))
            except Exception:  # noqa: BLE001
                same_data = False
            if not same_data:
                viol(f"output op #{oi - 1} {o} has different parameters than the input op {op}", "output:parameters-changed")
                return None, 0
            for c in o.wires:
                dm.ensure(c, init)
            if getattr(o, "reset", None) is not None and o.name.startswith("MidMeasure"):
                if o.reset:
                    dm.reset(o.wires[0])
                else:
                    dm.dephase(o.wires[0])
            else:
                M, _ = bridge.op_matrix(o)
                dm.apply(M, list(o.wires))
    ctx.ev("alloc.output")
    if oi != len(oops):
        viol(f"output tape has {len(oops) - oi} extra trailing operation(s)", "output:structure")
        return None, 0
    # measurements must be mapped with the final map
    for mi, (m_in, m_out) in enumerate(zip(tape.measurements, out.measurements)):
        exp_w = [live.get(dynid[id(w)], "<unmapped>") if is_dyn(w) else w for w in m_in.wires]
        if list(map(_key, m_out.wires)) != list(map(_key, exp_w)):
            viol(f"measurement {mi} acts on {list(m_out.wires)}, expected {exp_w}", "output:measurement-wire-mapping")
            return None, 0
    reuse = sum(1 for v in handed.values() if v > 1)
    if bad:
        return None, reuse
    mw_conc = []
    for w in case["_mw"]:
        c = w[1] if w[0] == "s" else live.get(w[1])
        dm.ensure(c, init)
        mw_conc.append(c)
    if len(dm.wires) > 11:
        return None, reuse
    return dm.reduced(mw_conc), reuse


# =============================================================================== the check
def gen_settings(rng, prog):
    static = prog["static"]
    pool = [w for w in ["z0", "z1", "z2", "a0", "a1", "a2", 20, 21, 22, 23, 24, 25] if w not in static]
    r = rng.random()
    nz = int(rng.integers(0, 4))
    na = int(rng.integers(0, 4))
    labels = [pool[int(i)] for i in rng.choice(len(pool), size=nz + na, replace=False)]
    zeroed, any_state = labels[:nz], labels[nz:]
    ints = [w for w in static if isinstance(w, int)]
    if r < 0.25:
        min_int = None
    else:
        min_int = max(ints + [25], default=-1) + 1 + int(rng.integers(0, 3)) if (nz + na) else max(ints, default=-1) + 1 + int(rng.integers(0, 3))
        if any(isinstance(w, int) and w >= min_int for w in labels):
            min_int = max(w for w in labels + ints if isinstance(w, int)) + 1
    allow_resets = rng.random() < 0.65
    if rng.random() < 0.12:
        zeroed, any_state = [], []
    return {"zeroed": tuple(zeroed), "any_state": tuple(any_state), "min_int": min_int, "allow_resets": bool(allow_resets)}


def rand_qubit(rng):
    v = rng.normal(size=2) + 1j * rng.normal(size=2)
    return v / np.linalg.norm(v)


def describe_prog(prog):
    out = []
    for it in prog["items"]:
        if it[0] == "gate":
            out.append(f"{it[1]}{'†' if it[4] else ''}{[w[1] if w[0] == 's' else 'd%d' % w[1] for w in it[3]]}")
        elif it[0] == "alloc":
            out.append(f"alloc{['d%d' % i for i in it[1]]}({it[2]},restored={it[3]})")
        elif it[0] == "dealloc":
            out.append(f"dealloc{['d%d' % i for i in it[1]]}")
        else:
            out.append(f"reset[{it[1][1] if it[1][0] == 's' else 'd%d' % it[1][1]}]")
    return out


def one_case(ctx, qp, mon, rng, idx):
    from pennylane.exceptions import AllocationError

    prog = gen_program(rng)
    if not any(it[0] == "alloc" for it in prog["items"]):
        ctx.count("programs_without_allocation")
    tape, dyn, specs, mw = build_tape(qp, prog, rng)
    # ---- reference (fresh wires), twice with different "any" initial states: honesty + independence of the garbage
    inits = [{i: rand_qubit(rng) for i in range(prog["ndyn"])} for _ in range(2)]
    ref0, prob0 = reference_run(prog, lambda i: inits[0][i], mw)
    ref1, prob1 = reference_run(prog, lambda i: inits[1][i], mw)
    if prob0 or prob1 or np.linalg.norm(ref0 - ref1) > 1e-8:
        ctx.inconclusive_case(f"generator produced a dishonest history: {prob0 or prob1 or 'results depend on the any-state garbage'}")
        ctx.count("dishonest_histories")
        return
    settings = gen_settings(rng, prog)
    desc = describe_prog(prog)
    case = {"case": idx, "program": desc, "static": prog["static"], **{k: (list(v) if isinstance(v, tuple) else v) for k, v in settings.items()}}
    fp = fingerprint(desc, repr(settings))
    any_vec = {_key(w): rand_qubit(rng) for w in settings["any_state"]}
    expect_err = model_expects_error(prog, len(settings["zeroed"]), len(settings["any_state"]), settings["min_int"], settings["allow_resets"])
    # ---- direct transform
    used_static = [w for w in tape.wires if type(w).__name__ != "DynamicWire"]  # static wires that really occur in the circuit
    mon.start({k: v for k, v in case.items()}, static=used_static)
    reuse = 0
    try:
        with warnings.catch_warnings():
            warnings.simplefilter("ignore")
            (out,), fn = qp.transforms.resolve_dynamic_wires(tape, **settings)
    except AllocationError as e:
        ctx.reject("AllocationError")
        if not expect_err:
            ctx.count("allocation_error_not_predicted_by_count_model")
            ctx.note_add("unpredicted_allocation_errors", {"msg": str(e)[:80], **case})
        out = None
    except Exception as e:  # noqa: BLE001
        ctx.ev("alloc.output")
        ctx.violation("alloc.output", f"resolve_dynamic_wires raised {type(e).__name__}: {str(e)[:160]} on an honest history", case=case,
                      mech=f"resolve-exception:{type(e).__name__}")
        out = None
    log = mon.log
    mon.log = None
    if out is not None:
        if expect_err:
            ctx.count("count_model_expected_error_but_transform_succeeded")
        c2 = dict(case)
        c2["_mw"] = mw
        c2["events"] = [(k, {a: (repr(b) if a == "wire" else b) for a, b in kw.items()}) for k, kw in log][:40]
        rho, reuse = check_output(ctx, qp, prog, tape, out, dyn, settings, log, c2, any_vec)
        c2.pop("_mw")
        if rho is not None:
            ctx.ev("alloc.equivalence")
            d = float(np.linalg.norm(rho - ref0))
            if d > 1e-8:
                vals_o, vals_r = spec_values(rho, mw, specs), spec_values(ref0, mw, specs)
                ctx.violation("alloc.equivalence", f"resolved circuit differs from the fresh-wire reference: |rho_out - rho_ref| = {d:.3g} on the measured wires",
                              case=c2, mech="resolved-circuit-not-equivalent", observed=vals_o, expected=vals_r)
        ctx.case(fp, nontrivial=reuse > 0, cls=f"zeroed{len(settings['zeroed'])}-any{len(settings['any_state'])}-min{'N' if settings['min_int'] is None else 'I'}-resets{int(settings['allow_resets'])}",
                 sample={"program": desc, "static": prog["static"], "settings": {k: (list(v) if isinstance(v, tuple) else v) for k, v in settings.items()}, "reused_concrete_wires": reuse, "output_ops": [str(o) for o in out.operations][:30]})
        for it in prog["items"]:
            if it[0] == "alloc":
                ctx.cover(f"alloc:{it[2]}:restored={it[3]}:k={len(it[1])}")
    else:
        ctx.case(fp, nontrivial=False, cls="rejected")
    # ---- device path (end to end) on a fraction of the cases
    if rng.random() < 0.35 and not any(it[0] == "reset" for it in prog["items"]) and len(prog["static"]) + prog["ndyn"] <= 8:
        device_path(ctx, qp, mon, rng, prog, tape, specs, mw, ref0, case)


def device_path(ctx, qp, mon, rng, prog, tape, specs, mw, ref0, case):
    from pennylane.exceptions import AllocationError

    static = prog["static"]
    mode = int(rng.integers(3))
    if mode == 0:
        dev = qp.device("default.qubit")
        dcase = {**case, "device_wires": None}
    else:
        extra = [w for w in ["x0", "x1", "x2", "x3", 30, 31, 32] if w not in static]
        k = int(rng.integers(1, 5))
        dw = list(static) + [extra[int(i)] for i in rng.choice(len(extra), size=k, replace=False)]
        dw = [dw[int(i)] for i in rng.permutation(len(dw))]
        dev = qp.device("default.qubit", wires=dw)
        dcase = {**case, "device_wires": dw}
    mcm = [None, "deferred", "tree-traversal"][int(rng.integers(3))]
    dcase["mcm_method"] = mcm
    mon.start(dcase, static=[w for w in tape.wires if type(w).__name__ != "DynamicWire"])
    try:
        with warnings.catch_warnings():
            warnings.simplefilter("ignore")
            res = qp.execute([tape], dev, mcm_method=mcm) if mcm else qp.execute([tape], dev)
    except AllocationError:
        ctx.reject("device:AllocationError")
        mon.log = None
        return
    except Exception as e:  # noqa: BLE001
        nm = type(e).__name__
        mon.log = None
        if nm in ("DeviceError", "WireError", "ValueError", "NotImplementedError"):
            ctx.reject(f"device:{nm}")
            ctx.note_add("device_rejections", f"{nm}: {str(e)[:120]}")
            return
        ctx.ev("alloc.equivalence")
        ctx.violation("alloc.equivalence", f"default.qubit raised {nm}: {str(e)[:160]} on an honest allocation history", case=dcase, mech=f"device-exception:{nm}")
        return
    mon.log = None
    ctx.count("device_path_runs")
    exp = spec_values(ref0, mw, specs)
    got = res[0] if len(specs) > 1 else [res[0]]
    ctx.ev("alloc.equivalence")
    for k, (g, e) in enumerate(zip(got, exp)):
        g = np.asarray(g, dtype=float)
        if g.shape != np.asarray(e).shape or np.max(np.abs(g - e)) > 1e-8:
            ctx.violation("alloc.equivalence", f"default.qubit result {k} of the circuit with dynamic allocation differs from the fresh-wire reference "
                          f"by {float(np.max(np.abs(g - e))) if g.shape == np.asarray(e).shape else 'shape'}", case=dcase, mech="device-result-not-equivalent",
                          observed=g, expected=e)
            break


def negative_cases(ctx, qp, rng):
    """Documented rejections that protect the property: use after deallocation, magic-state allocation."""
    from pennylane.allocation import Allocate, Deallocate, DynamicWire
    from pennylane.exceptions import AllocationError

    d = DynamicWire()
    kinds = [
        ("use-after-dealloc", [qp.H(0), Allocate([d], state="zero", restored=False), qp.CNOT([0, d]), Deallocate([d]), qp.X(d)], [qp.probs(wires=[0])]),
        ("measure-after-dealloc", [qp.H(0), Allocate([d], state="zero", restored=False), qp.CNOT([0, d]), Deallocate([d])], [qp.probs(wires=[d])]),
        ("magic-state", [Allocate([d], state="magic-T", restored=False), qp.CNOT([d, 0]), Deallocate([d])], [qp.probs(wires=[0])]),
    ]
    for name, ops, ms in kinds:
        ctx.ev("alloc.documented_rejection")
        try:
            qp.transforms.resolve_dynamic_wires(qp.tape.QuantumScript(ops, ms), min_int=5)
            ctx.violation("alloc.documented_rejection", f"{name}: no AllocationError raised", case={"kind": name}, mech=f"no-rejection:{name}")
        except AllocationError:
            ctx.reject(f"documented:{name}")
        except Exception as e:  # noqa: BLE001
            ctx.violation("alloc.documented_rejection", f"{name}: raised {type(e).__name__} instead of AllocationError: {e}", case={"kind": name},
                          mech=f"wrong-rejection:{name}")


def run(ctx):
    import pennylane as qp

    warnings.filterwarnings("ignore")
    mon = Monitor(ctx)
    mon.install()
    try:
        if ctx.only_case is None:
            negative_cases(ctx, qp, ctx.rng)
        N = ctx.n(6000, 120000)
        for local in range(N):
            idx = local * ctx.nshards + ctx.shard
            if ctx.only_case is not None and idx != ctx.only_case:
                continue
            if not ctx.more():
                break
            ctx.case_index = idx
            rng = ctx.case_rng(idx)
            try:
                one_case(ctx, qp, mon, rng, idx)
            except Exception as e:  # noqa: BLE001 - harness error: inconclusive, never silent
                import traceback

                mon.log = None
                ctx.inconclusive_case(f"{type(e).__name__}: {e} @ " + "".join(traceback.format_tb(e.__traceback__)[-2:])[-300:])
    finally:
        mon.uninstall()
