"""C61 — Optimizers apply their documented update rules.

Deciding monitors (history + executable model): every optimizer instance is stepped 1-12 times on random differentiable
objectives whose gradient the harness knows in closed form; a textbook re-implementation of the class docstring formula
(R-OPT, plain numpy, own accumulators) is stepped in parallel.  After every step: new parameters equal (``opt.params``),
accumulator state equal (``opt.accumulators``), non-trainable arguments untouched (``opt.untouched``), the cost returned by
``step_and_cost`` equals the objective at the pre-step arguments (``opt.cost_prestep``).  SPSA is checked from the recorded
objective calls (perturbation read off theta+/theta-), Rotosolve / Rotoselect by sub-problem optimality against a dense grid +
refinement on the harness' own restriction of the objective.
"""
import math
import warnings

import numpy as np

from pv.ctx import fingerprint

META = {
    "id": "C61",
    "level": "exploration",
    "technique": "history + executable model: real optimizers stepped beside textbook numpy re-implementations of the documented formulas; "
                 "recorded objective calls for SPSA; sub-problem optimality oracle (dense grid + refinement) for Rotosolve/Rotoselect",
    "level_text": "GradientDescent, Momentum, NesterovMomentum, Adagrad, RMSProp, Adam, QNG and MomentumQNG (harness metric tensor and a real "
                  "QNode with its analytic Fubini-Study tensor), SPSA, Rotosolve and Rotoselect over multi-step histories with 1-3 trainable "
                  "arguments of mixed shapes, interleaved non-trainable arguments, autograd or supplied grad_fn, changing objectives, reset().",
    "level_note": "The gradient fed to the model is the harness' closed-form gradient (autograd is only used by the optimizer under test). "
                  "QNSPSA, ShotAdaptive, Riemannian and Adaptive optimizers need shot-based / circuit-growing QNodes and are not driven "
                  "(listed uncovered). Rotosolve/Rotoselect are checked through optimality of each single-parameter sub-problem (the statement's "
                  "wording), not by re-deriving their closed form. Stated bound for the numeric (multi-frequency) Rotosolve branch with the default "
                  "grid search: reached <= exact minimum + max|g''| h^2/8 with h = 2pi/100 (what a 100-point grid can guarantee when two basins "
                  "nearly tie); analytic branch and Rotoselect: 1e-7/1e-8.",
    "design_ref": "7/C61",
    "shards": {"quick": 2, "thorough": 16},
    "budget_s": {"quick": 45, "thorough": 300},
    "min_evals": {"quick": 2000, "thorough": 40000},
    "deciding": ["opt.params", "opt.accumulators", "opt.cost_prestep", "opt.untouched", "spsa.update", "rotosolve.substep_min", "rotoselect.step"],
    "rule": "case = one optimizer history (class, hyper-parameters, objective family, argument shapes, step kinds); distinct = fingerprint of "
            "those; non-trivial = at least 3 steps (so accumulator state matters) and, for the gradient family, a non-zero gradient at every step",
    "assumptions": ["the class docstring formula is the specification", "closed-form gradients of the harness objectives are correct (cross-checked against central differences at generation time)"],
}

GRAD_CLASSES = ["GradientDescentOptimizer", "MomentumOptimizer", "NesterovMomentumOptimizer", "AdagradOptimizer",
                "RMSPropOptimizer", "AdamOptimizer", "QNGOptimizer", "MomentumQNGOptimizer"]
TOL = 1e-10


# ----------------------------------------------------------------------------- objectives with closed-form gradients
def _raw(a):
    """Plain float array of a (possibly autograd-boxed) argument."""
    while hasattr(a, "_value"):
        a = a._value
    return np.array(a, dtype=float)


class Objective:
    """f(a_0..a_{k-1}) = (1 + 0.1*sum(non-trainable)) * [ sum_a ( 0.5*sum(Q_a a^2) + sum(L_a a) + sum(W_a sin(a + P_a)) )
                                                           + c * prod_a mean(cos(a)) ]   over the trainable args a."""

    def __init__(self, rng, shapes, trainable):
        self.shapes, self.trainable = shapes, trainable
        self.Q = [np.round(rng.uniform(0.1, 1.5, size=s), 3) for s in shapes]
        self.L = [np.round(rng.normal(size=s), 3) for s in shapes]
        self.W = [np.round(rng.normal(size=s), 3) for s in shapes]
        self.P = [np.round(rng.uniform(-3, 3, size=s), 3) for s in shapes]
        self.c = float(np.round(rng.normal(), 3))
        self.calls = []

    def key(self):
        return (self.shapes, self.trainable, [q.tolist() for q in self.Q], [l.tolist() for l in self.L], self.c)

    def fn(self, pnp):
        Q, L, W, P, c, tr = self.Q, self.L, self.W, self.P, self.c, self.trainable
        calls = self.calls

        def f(*args):
            calls.append([_raw(a) for a in args])
            scale = 1.0
            base = 0.0
            prod = 1.0
            for i, a in enumerate(args):
                if not tr[i]:
                    scale = scale + 0.1 * pnp.sum(a)
                    continue
                base = base + 0.5 * pnp.sum(Q[i] * a * a) + pnp.sum(L[i] * a) + pnp.sum(W[i] * pnp.sin(a + P[i]))
                prod = prod * pnp.mean(pnp.cos(a))
            return scale * (base + c * prod)
        return f

    def value(self, args):
        scale, base, prod = 1.0, 0.0, 1.0
        for i, a in enumerate(args):
            a = np.asarray(a, dtype=float)
            if not self.trainable[i]:
                scale += 0.1 * a.sum()
                continue
            base += 0.5 * (self.Q[i] * a * a).sum() + (self.L[i] * a).sum() + (self.W[i] * np.sin(a + self.P[i])).sum()
            prod *= np.cos(a).mean()
        return scale * (base + self.c * prod)

    def grad(self, args):
        """Closed-form gradient w.r.t. the trainable args (list in arg order)."""
        args = [np.asarray(a, dtype=float) for a in args]
        scale = 1.0 + 0.1 * sum(a.sum() for i, a in enumerate(args) if not self.trainable[i])
        means = {i: np.cos(a).mean() for i, a in enumerate(args) if self.trainable[i]}
        out = []
        for i, a in enumerate(args):
            if not self.trainable[i]:
                continue
            others = 1.0
            for j, mj in means.items():
                if j != i:
                    others *= mj
            g = self.Q[i] * a + self.L[i] + self.W[i] * np.cos(a + self.P[i]) + self.c * others * (-np.sin(a) / max(a.size, 1))
            out.append(scale * g)
        return out


def self_test_gradient(ob, args):
    """Central-difference cross-check of the closed form (harness self-check, not a verdict on PennyLane)."""
    g = ob.grad(args)
    k = 0
    for i, a in enumerate(args):
        if not ob.trainable[i]:
            continue
        a = np.asarray(a, dtype=float)
        idx = tuple(0 for _ in a.shape)
        h = 1e-6
        ap, am = a.copy(), a.copy()
        ap[idx] += h
        am[idx] -= h
        fd = (ob.value(args[:i] + [ap] + args[i + 1:]) - ob.value(args[:i] + [am] + args[i + 1:])) / (2 * h)
        if abs(fd - np.asarray(g[k])[idx]) > 1e-5 * max(1.0, abs(fd)):
            return False
        k += 1
    return True


# ----------------------------------------------------------------------------- R-OPT: textbook models
class RefOpt:
    def __init__(self, name, hp, nargs):
        self.name, self.hp, self.nargs = name, hp, nargs
        self.reset()

    def reset(self):
        self.a = None     # momentum / adagrad / rmsprop accumulators per arg index
        self.fm = self.sm = None
        self.t = 0

    def eval_point(self, args, trainable):
        """Where the gradient is evaluated (Nesterov: x - m a)."""
        if self.name == "NesterovMomentumOptimizer" and self.a is not None:
            return [np.asarray(x, dtype=float) - self.hp["momentum"] * self.a[i] if trainable[i] else x for i, x in enumerate(args)]
        return list(args)

    def step(self, args, trainable, grads, metric=None):
        hp = self.hp
        eta = hp["stepsize"]
        new = list(args)
        k = 0
        if self.name == "AdamOptimizer":
            if self.fm is None:
                self.fm, self.sm = [0.0] * len(args), [0.0] * len(args)
            self.t += 1
            eta_t = eta * math.sqrt(1 - hp["beta2"] ** self.t) / (1 - hp["beta1"] ** self.t)
        if self.a is None:
            self.a = [0.0] * len(args)
        for i, x in enumerate(args):
            if not trainable[i]:
                continue
            x = np.asarray(x, dtype=float)
            g = np.asarray(grads[k], dtype=float)
            if self.name == "GradientDescentOptimizer":
                new[i] = x - eta * g
            elif self.name in ("MomentumOptimizer", "NesterovMomentumOptimizer"):
                self.a[i] = hp["momentum"] * self.a[i] + eta * g
                new[i] = x - self.a[i]
            elif self.name == "AdagradOptimizer":
                self.a[i] = self.a[i] + g * g
                new[i] = x - eta / np.sqrt(self.a[i] + hp["eps"]) * g
            elif self.name == "RMSPropOptimizer":
                self.a[i] = hp["decay"] * self.a[i] + (1 - hp["decay"]) * g * g
                new[i] = x - eta / np.sqrt(self.a[i] + hp["eps"]) * g
            elif self.name == "AdamOptimizer":
                self.fm[i] = hp["beta1"] * self.fm[i] + (1 - hp["beta1"]) * g
                self.sm[i] = hp["beta2"] * self.sm[i] + (1 - hp["beta2"]) * g * g
                new[i] = x - eta_t * self.fm[i] / (np.sqrt(self.sm[i]) + hp["eps"])
            elif self.name in ("QNGOptimizer", "MomentumQNGOptimizer"):
                G = np.asarray(metric[k], dtype=float).reshape(g.size, g.size) + hp["lam"] * np.eye(g.size)
                nat = np.linalg.solve(G, g.reshape(-1)).reshape(g.shape)
                if self.name == "QNGOptimizer":
                    new[i] = x - eta * nat
                else:
                    self.a[i] = hp["momentum"] * self.a[i] + eta * nat
                    new[i] = x - self.a[i]
            k += 1
        return new


def gen_hp(rng, name):
    hp = {"stepsize": float(np.round(10 ** rng.uniform(-3, -0.3), 4))}
    if "Momentum" in name:
        hp["momentum"] = float([0.0, 0.5, 0.9, 0.93, np.round(rng.uniform(0, 0.99), 3)][int(rng.integers(5))])
    if name in ("AdagradOptimizer", "RMSPropOptimizer", "AdamOptimizer"):
        hp["eps"] = float([1e-8, 1e-6, 1e-3][int(rng.integers(3))])
    if name == "RMSPropOptimizer":
        hp["decay"] = float([0.9, 0.5, 0.99, np.round(rng.uniform(0.1, 0.99), 3)][int(rng.integers(4))])
    if name == "AdamOptimizer":
        hp["beta1"] = float([0.9, 0.5, 0.8][int(rng.integers(3))])
        hp["beta2"] = float([0.99, 0.999, 0.7][int(rng.integers(3))])
    if "QNG" in name:
        hp["lam"] = float([0.0, 0.0, 0.1, 1e-3][int(rng.integers(4))])
    return hp


def close(a, b, tol=TOL):
    a, b = np.asarray(a, dtype=float), np.asarray(b, dtype=float)
    return a.shape == b.shape and np.allclose(a, b, rtol=0, atol=tol * max(1.0, float(np.abs(b).max()) if b.size else 1.0))


def acc_of(opt, name, i, k):
    """Real accumulator for arg index i (trainable index k) in the model's layout."""
    if name == "MomentumQNGOptimizer":
        return opt.accumulation[k]
    return opt.accumulation[i]


# ----------------------------------------------------------------------------- gradient family history
def grad_history(ctx, qp, pnp, rng, gi):
    name = GRAD_CLASSES[int(rng.integers(len(GRAD_CLASSES)))]
    hp = gen_hp(rng, name)
    nargs = int(rng.integers(1, 5))
    shape_pool = [(), (1,), (2,), (3,), (2, 2), (4,)]
    shapes = tuple(shape_pool[int(rng.integers(len(shape_pool)))] for _ in range(nargs))
    trainable = tuple(bool(rng.random() < 0.7) for _ in range(nargs))
    if not any(trainable):
        trainable = (True,) + trainable[1:]
    if sum(trainable) > 3:
        trainable = tuple(t and (sum(trainable[:i + 1]) <= 3) for i, t in enumerate(trainable))
    use_grad_fn = rng.random() < 0.35
    nsteps = int(rng.integers(1, 13))
    ob = Objective(rng, shapes, trainable)
    cur = [np.round(rng.uniform(-2, 2, size=s), 3) for s in shapes]
    if not self_test_gradient(ob, [c.copy() for c in cur]):
        ctx.inconclusive_case("harness gradient self-test failed")
        return
    cls = getattr(qp, name)
    kw = {k: v for k, v in hp.items()}
    opt = cls(**kw)
    ref = RefOpt(name, hp, nargs)
    is_qng = "QNG" in name
    Ms = None
    if is_qng:   # harness metric tensor: well conditioned SPD per trainable arg, mildly parameter dependent
        Ms = []
        for i, s in enumerate(shapes):
            if trainable[i]:
                n = int(np.prod(s)) if s else 1
                B = rng.normal(size=(n, n))
                Ms.append(B @ B.T / n + 0.5 * np.eye(n))
    log = []
    nz = True
    witness = {"optimizer": name, "hyper": hp, "shapes": [list(s) for s in shapes], "trainable": list(trainable), "grad_fn": use_grad_fn}

    def metric_of(args):
        out, k = [], 0
        for i, a in enumerate(args):
            if trainable[i]:
                a = np.asarray(a, dtype=float)
                M = Ms[k] * (1.0 + 0.1 * float(np.cos(a).mean()))
                out.append(M.reshape(a.shape + a.shape) if a.shape else M.reshape(()))
                k += 1
        return out

    for step in range(nsteps):
        if step and rng.random() < 0.15:   # changing objective (same shapes) - optimizer state persists
            ob = Objective(rng, shapes, trainable)
            log.append("new-objective")
        if step and hasattr(opt, "reset") and rng.random() < 0.1:
            opt.reset()
            ref.reset()
            log.append("reset")
        f = ob.fn(pnp)
        args = [pnp.array(c, requires_grad=t) for c, t in zip(cur, trainable)]
        pre = [np.array(c, dtype=float) for c in cur]
        kind = "step_and_cost" if rng.random() < 0.5 else "step"
        log.append(kind)
        kwargs = {}
        if use_grad_fn:
            def grad_fn(*a, _ob=ob):
                g = _ob.grad([np.asarray(x, dtype=float) for x in a])
                return g[0] if len(g) == 1 else tuple(g)
            kwargs["grad_fn"] = grad_fn
        recompute = True
        if is_qng:
            def mt_fn(*a):
                m = metric_of([np.asarray(x, dtype=float) for x in a])
                return m[0].copy() if len(m) == 1 else tuple(x.copy() for x in m)
            kwargs["metric_tensor_fn"] = mt_fn
            if step and rng.random() < 0.25:
                recompute = False
                kwargs["recompute_tensor"] = False
        # ---- model
        pt = ref.eval_point(pre, trainable)
        g = ob.grad(pt)
        nz = nz and all(np.abs(x).max() > 1e-12 for x in g)
        if is_qng:
            if recompute or getattr(ref, "metric", None) is None:
                ref.metric = metric_of(pre)
            exp = ref.step(pre, trainable, g, metric=ref.metric)
        else:
            exp = ref.step(pre, trainable, g)
        exp_cost = ob.value(pre)
        # ---- real
        try:
            ob.calls.clear()
            if kind == "step":
                out = opt.step(f, *args, **kwargs)
                cost = None
            else:
                out, cost = opt.step_and_cost(f, *args, **kwargs)
        except Exception as e:  # noqa: BLE001
            ctx.ev("opt.params")
            ctx.violation("opt.params", f"{name}.{kind} raised {type(e).__name__}: {e}", case={**witness, "history": log}, mech=f"raise:{name}:{type(e).__name__}")
            return
        new = [out] if nargs == 1 else list(out)
        w = {**witness, "history": log, "step": step, "pre": [p.tolist() for p in pre]}
        ctx.ev("opt.params")
        if len(new) != nargs:
            ctx.violation("opt.params", f"{name}.{kind} returned {len(new)} arguments for {nargs}", case=w, mech=f"arity:{name}")
            return
        bad = [i for i in range(nargs) if trainable[i] and not close(new[i], exp[i])]
        if bad:
            i = bad[0]
            ctx.violation("opt.params", f"{name}.{kind} step {step}: argument {i} deviates from the documented update (history {log})", case=w,
                          mech=f"update:{name}", observed=np.asarray(new[i], dtype=float), expected=np.asarray(exp[i]))
            return
        ctx.ev("opt.untouched")
        for i in range(nargs):
            if not trainable[i] and not (np.array_equal(np.asarray(new[i], dtype=float), pre[i]) and not getattr(new[i], "requires_grad", False)):
                ctx.violation("opt.untouched", f"{name}.{kind}: non-trainable argument {i} changed", case=w, mech=f"untouched:{name}",
                              observed=np.asarray(new[i], dtype=float), expected=pre[i])
                return
        if any(not np.array_equal(np.asarray(a, dtype=float), p) for a, p in zip(args, pre)):
            ctx.violation("opt.untouched", f"{name}.{kind} modified its input arguments in place", case=w, mech=f"inplace:{name}")
            return
        if kind == "step_and_cost":
            ctx.ev("opt.cost_prestep")
            if not close(cost, exp_cost, 1e-9):
                where = "post-step" if close(cost, ob.value([np.asarray(x, dtype=float) for x in new]), 1e-9) else \
                        "shifted-point" if close(cost, ob.value(pt), 1e-9) else "other"
                ctx.violation("opt.cost_prestep", f"{name}.step_and_cost step {step} returned cost {float(cost)!r}, objective at the pre-step arguments is {exp_cost!r} "
                              f"(it is the cost at the {where} arguments; grad_fn supplied: {use_grad_fn})", case=w,
                              mech=f"cost:{name}:{where}", observed=float(cost), expected=float(exp_cost))
        # accumulators
        if name not in ("GradientDescentOptimizer", "QNGOptimizer"):
            ctx.ev("opt.accumulators")
            k = 0
            for i in range(nargs):
                if not trainable[i]:
                    continue
                if name == "AdamOptimizer":
                    ok = close(opt.fm[i], ref.fm[i]) and close(opt.sm[i], ref.sm[i]) and opt.t == ref.t
                    obs, ex = [np.asarray(opt.fm[i], dtype=float), np.asarray(opt.sm[i], dtype=float), opt.t], [ref.fm[i], ref.sm[i], ref.t]
                else:
                    ok = close(acc_of(opt, name, i, k), ref.a[i])
                    obs, ex = np.asarray(acc_of(opt, name, i, k), dtype=float), ref.a[i]
                if not ok:
                    ctx.violation("opt.accumulators", f"{name} step {step}: accumulator of argument {i} deviates from the documented recursion", case=w,
                                  mech=f"accumulator:{name}", observed=obs, expected=ex)
                    return
                k += 1
        cur = [np.asarray(x, dtype=float) for x in new]
    ctx.case(fingerprint("grad", name, sorted(hp.items()), ob.key(), log, use_grad_fn), nontrivial=nsteps >= 3 and nz,
             cls=f"{name}/{'grad_fn' if use_grad_fn else 'autograd'}/{sum(trainable)}of{nargs}",
             sample={**witness, "steps": log})


# ----------------------------------------------------------------------------- QNG on a real QNode
def qng_qnode_history(ctx, qp, pnp, rng, dev_cache):
    name = "QNGOptimizer" if rng.random() < 0.5 else "MomentumQNGOptimizer"
    hp = {"stepsize": float(np.round(10 ** rng.uniform(-2.5, -0.5), 4)), "lam": float([0.0, 0.05][int(rng.integers(2))])}
    if name == "MomentumQNGOptimizer":
        hp["momentum"] = float([0.0, 0.5, 0.9][int(rng.integers(3))])
    if "circ" not in dev_cache:
        dev = qp.device("default.qubit", wires=1)

        @qp.qnode(dev)
        def circuit(params):
            qp.RX(params[0], wires=0)
            qp.RY(params[1], wires=0)
            return qp.expval(qp.Z(0))
        dev_cache["circ"] = circuit
    circuit = dev_cache["circ"]
    opt = getattr(qp, name)(**hp)
    ref = RefOpt(name, hp, 1)
    th = np.round(rng.uniform(-1.2, 1.2, size=2), 3)
    nsteps = int(rng.integers(2, 6))
    log = []
    for step in range(nsteps):
        kind = "step_and_cost" if rng.random() < 0.5 else "step"
        log.append(kind)
        # <Z> = cos t0 cos t1 ; block-diagonal Fubini-Study tensor diag(1/4, cos^2 t0 / 4)
        g = np.array([-np.sin(th[0]) * np.cos(th[1]), -np.cos(th[0]) * np.sin(th[1])])
        M = np.diag([0.25, np.cos(th[0]) ** 2 / 4])
        exp = ref.step([th], (True,), [g], metric=[M])[0]
        ctx.ev("opt.params")
        w = {"optimizer": name, "hyper": hp, "qnode": "RX(t0) RY(t1) <Z>", "theta": th.tolist(), "history": log}
        try:
            if kind == "step":
                out, cost = opt.step(circuit, pnp.array(th, requires_grad=True)), None
            else:
                out, cost = opt.step_and_cost(circuit, pnp.array(th, requires_grad=True))
        except Exception as e:  # noqa: BLE001
            ctx.violation("opt.params", f"{name}.{kind} on a QNode raised {type(e).__name__}: {e}", case=w, mech=f"raise:{name}:qnode:{type(e).__name__}")
            return
        if not close(out, exp, 1e-8):
            ctx.violation("opt.params", f"{name}.{kind} on the docstring QNode deviates from x - eta g^+ grad with the analytic metric tensor", case=w,
                          mech=f"update:{name}:qnode", observed=np.asarray(out, dtype=float), expected=exp)
            return
        if cost is not None:
            ctx.ev("opt.cost_prestep")
            if not close(cost, np.cos(th[0]) * np.cos(th[1]), 1e-8):
                ctx.violation("opt.cost_prestep", f"{name}.step_and_cost on a QNode returned {float(cost)}, pre-step value is {np.cos(th[0]) * np.cos(th[1])}", case=w,
                              mech=f"cost:{name}:qnode")
                return
        th = np.asarray(out, dtype=float)
    ctx.case(fingerprint("qngq", name, sorted(hp.items()), log), nontrivial=nsteps >= 3, cls=f"{name}/qnode", sample={"optimizer": name, "hyper": hp, "steps": log})


# ----------------------------------------------------------------------------- SPSA from recorded objective calls
def spsa_history(ctx, qp, pnp, rng):
    hp = {"alpha": float([0.602, 1.0, 0.5][int(rng.integers(3))]), "gamma": float([0.101, 1 / 6, 0.3][int(rng.integers(3))]),
          "c": float(np.round(rng.uniform(0.05, 0.5), 3))}
    form = int(rng.integers(3))
    if form == 0:
        hp["maxiter"] = int(rng.integers(10, 200))
    elif form == 1:
        hp["A"] = float(np.round(rng.uniform(1, 20), 2))
        hp["a"] = float(np.round(rng.uniform(0.01, 0.5), 3))
    else:
        hp["maxiter"] = int(rng.integers(10, 200))
        hp["a"] = float(np.round(rng.uniform(0.01, 0.5), 3))
    A = hp.get("A") or hp["maxiter"] * 0.1
    a = hp.get("a") or 0.05 * (A + 1) ** hp["alpha"]
    nargs = int(rng.integers(1, 4))
    shape_pool = [(), (2,), (3,), (2, 2)]
    shapes = tuple(shape_pool[int(rng.integers(len(shape_pool)))] for _ in range(nargs))
    trainable = tuple(bool(rng.random() < 0.75) for _ in range(nargs))
    if not any(trainable):
        trainable = (True,) + trainable[1:]
    ob = Objective(rng, shapes, trainable)
    f = ob.fn(pnp)
    opt = qp.SPSAOptimizer(**hp)
    cur = [np.round(rng.uniform(-2, 2, size=s), 3) for s in shapes]
    nsteps = int(rng.integers(1, 9))
    log = []
    witness = {"optimizer": "SPSAOptimizer", "hyper": hp, "shapes": [list(s) for s in shapes], "trainable": list(trainable)}
    for k in range(1, nsteps + 1):
        kind = "step_and_cost" if rng.random() < 0.5 else "step"
        log.append(kind)
        args = [pnp.array(c, requires_grad=t) for c, t in zip(cur, trainable)]
        pre = [np.array(c, dtype=float) for c in cur]
        ob.calls.clear()
        w = {**witness, "history": log, "k": k}
        ctx.ev("spsa.update")
        try:
            if kind == "step":
                out, cost = opt.step(f, *args), None
            else:
                out, cost = opt.step_and_cost(f, *args)
        except Exception as e:  # noqa: BLE001
            ctx.violation("spsa.update", f"SPSA.{kind} raised {type(e).__name__}: {e}", case=w, mech=f"raise:SPSA:{type(e).__name__}")
            return
        new = [out] if nargs == 1 else list(out)
        calls = list(ob.calls)
        if len(calls) < 2:
            ctx.violation("spsa.update", "fewer than two objective evaluations in an SPSA step", case=w, mech="spsa:calls")
            return
        plus, minus = calls[0], calls[1]
        ck = hp["c"] / k ** hp["gamma"]
        ak = a / (A + k) ** hp["alpha"]
        yp, ym = ob.value(plus), ob.value(minus)
        ok = True
        msg = ""
        for i in range(nargs):
            if not trainable[i]:
                ok = ok and np.array_equal(plus[i], pre[i]) and np.array_equal(minus[i], pre[i]) and np.array_equal(np.asarray(new[i], dtype=float), pre[i])
                if not ok:
                    msg = f"non-trainable argument {i} perturbed or changed"
                    break
                continue
            delta = (plus[i] - minus[i]) / (2 * ck)
            if not np.allclose(np.abs(delta), 1.0, rtol=0, atol=1e-9) or not np.allclose((plus[i] + minus[i]) / 2, pre[i], rtol=0, atol=1e-12):
                ok, msg = False, f"perturbation of argument {i} is not +-c_k (c_k = c/k^gamma = {ck}) around the current point"
                break
            exp = pre[i] - ak * (yp - ym) / (2 * ck * np.sign(delta))
            if not close(new[i], exp):
                ok, msg = False, f"argument {i} != theta - a_k * ghat (a_k = a/(A+k)^alpha = {ak})"
                w["observed_new"], w["expected_new"] = np.asarray(new[i], dtype=float).tolist(), exp.tolist()
                break
        if not ok:
            ctx.violation("spsa.update", f"SPSA step k={k}: {msg}", case=w, mech="spsa:update")
            return
        if cost is not None:
            ctx.ev("opt.cost_prestep")
            if not close(cost, ob.value(pre), 1e-9):
                ctx.violation("opt.cost_prestep", f"SPSA.step_and_cost returned {float(cost)}, pre-step objective is {ob.value(pre)}", case=w, mech="cost:SPSAOptimizer")
                return
        cur = [np.asarray(x, dtype=float) for x in new]
    ctx.case(fingerprint("spsa", sorted(hp.items()), ob.key(), log), nontrivial=nsteps >= 3, cls=f"SPSAOptimizer/{sum(trainable)}of{nargs}",
             sample={**witness, "steps": log})


# ----------------------------------------------------------------------------- Rotosolve
class TrigObjective:
    """f(x, y) = sum_terms c_t * prod_{j in t} cos(w_tj * p_j - phi_tj)  over the flattened parameters p (integer frequencies)."""

    def __init__(self, rng, nparams, maxfreq):
        self.n = nparams
        self.freqs = [int(rng.integers(1, maxfreq + 1)) for _ in range(nparams)]   # highest frequency per parameter
        self.terms = []
        for _ in range(int(rng.integers(2, 6))):
            k = int(rng.integers(1, min(3, nparams) + 1))
            js = [int(j) for j in rng.choice(nparams, size=k, replace=False)]
            self.terms.append((float(np.round(rng.normal(), 3)), [(j, int(rng.integers(0, self.freqs[j] + 1)), float(np.round(rng.uniform(-3, 3), 3))) for j in js]))
        # make sure every parameter really carries its top frequency once
        for j in range(nparams):
            self.terms.append((float(np.round(rng.uniform(0.3, 1.0), 3)), [(j, self.freqs[j], float(np.round(rng.uniform(-3, 3), 3)))]))

    def value(self, p):
        tot = 0.0
        for c, fac in self.terms:
            v = c
            for j, w, phi in fac:
                v = v * np.cos(w * p[j] - phi)
            tot = tot + v
        return tot


def min_on_circle(g, n=4096):
    """Global minimum value of a 2pi-periodic smooth function by dense grid + golden-section refinement."""
    ts = np.linspace(-np.pi, np.pi, n, endpoint=False)
    try:
        vals = np.asarray(g(ts), dtype=float)
        if vals.shape != ts.shape:
            raise ValueError
    except Exception:  # noqa: BLE001
        vals = np.array([float(g(t)) for t in ts])
    i = int(np.argmin(vals))
    lo, hi = ts[i] - 2 * np.pi / n, ts[i] + 2 * np.pi / n
    gr = (math.sqrt(5) - 1) / 2
    c, d = hi - gr * (hi - lo), lo + gr * (hi - lo)
    for _ in range(60):
        if g(c) < g(d):
            hi = d
        else:
            lo = c
        c, d = hi - gr * (hi - lo), lo + gr * (hi - lo)
    return min(float(vals[i]), float(g((lo + hi) / 2)))


def rotosolve_case(ctx, qp, pnp, rng):
    n1 = int(rng.integers(1, 4))
    two = rng.random() < 0.5
    n2 = int(rng.integers(1, 3)) if two else 0
    scalar2 = two and n2 == 1 and rng.random() < 0.5
    maxfreq = 1 if rng.random() < 0.45 else int(rng.integers(2, 4))
    tob = TrigObjective(rng, n1 + n2, maxfreq)
    calls = []

    if two:
        def f(x, y):
            p = [x[i] for i in range(n1)] + ([y] if scalar2 else [y[i] for i in range(n2)])
            calls.append(1)
            return tob.value(p)
    else:
        def f(x):
            calls.append(1)
            return tob.value([x[i] for i in range(n1)])
    x0 = np.round(rng.uniform(-3, 3, size=n1), 3)
    y0 = np.round(rng.uniform(-3, 3, size=n2), 3)
    use_spectra = rng.random() < 0.4
    nf, sp = {"x": {}, "y": {}}, {"x": {}, "y": {}}
    for j in range(n1 + n2):
        nm, idx = ("x", (j,)) if j < n1 else ("y", (() if scalar2 else (j - n1,)))
        if use_spectra and rng.random() < 0.6:
            sp[nm][idx] = list(range(tob.freqs[j] + 1))
        else:
            nf[nm][idx] = tob.freqs[j]
    args = [pnp.array(x0, requires_grad=True)] + ([pnp.array(y0[0] if scalar2 else y0, requires_grad=True)] if two else [])
    sub = "brute" if rng.random() < 0.8 else "shgo"
    opt = qp.RotosolveOptimizer(substep_optimizer=sub, substep_kwargs=None)
    w = {"optimizer": "RotosolveOptimizer", "freqs": tob.freqs, "terms": [[c, fac] for c, fac in tob.terms], "x0": x0.tolist(), "y0": y0.tolist(),
         "nums_frequency": {k: {str(i): v for i, v in d.items()} for k, d in nf.items()}, "spectra": {k: {str(i): v for i, v in d.items()} for k, d in sp.items()},
         "substep_optimizer": sub}
    ctx.ev("rotosolve.substep_min")
    try:
        with warnings.catch_warnings():
            warnings.simplefilter("ignore")
            out, cost, ys = opt.step_and_cost(f, *args, nums_frequency={k: v for k, v in nf.items() if v}, spectra={k: v for k, v in sp.items() if v}, full_output=True)
    except Exception as e:  # noqa: BLE001
        ctx.violation("rotosolve.substep_min", f"Rotosolve.step_and_cost raised {type(e).__name__}: {e}", case=w, mech=f"raise:Rotosolve:{type(e).__name__}")
        return
    new = [out] if not two else list(out)
    p0 = list(x0) + list(y0)
    p1 = [float(v) for v in np.asarray(new[0], dtype=float).reshape(-1)] + ([float(v) for v in np.asarray(new[1], dtype=float).reshape(-1)] if two else [])
    ctx.ev("opt.cost_prestep")
    if not close(cost, tob.value(p0), 1e-9):
        ctx.violation("opt.cost_prestep", f"Rotosolve.step_and_cost returned cost {float(cost)}, pre-step objective is {tob.value(p0)}", case=w, mech="cost:RotosolveOptimizer")
        return
    tol = 1e-7 if sub == "brute" else 1e-5
    h = 2 * np.pi / 100   # resolution of the documented default grid search (Ns=100 over one period)
    for j in range(n1 + n2):
        pt = p1[: j + 1] + p0[j + 1:]      # point after substep j (parameters are updated one at a time, in order)
        g = lambda t, _pt=pt, _j=j: tob.value(_pt[:_j] + [t] + _pt[_j + 1:])  # noqa: E731
        best = min_on_circle(g)
        reached = tob.value(pt)
        ctx.ev("rotosolve.substep_min")
        scale = max(1.0, abs(best))
        allow = tol * scale
        if tob.freqs[j] > 1 and sub == "brute":
            # numeric branch: a grid search of resolution h guarantees  reached <= min + max|g''| h^2 / 8  (two nearly tied basins)
            curv = sum(abs(c) * max(w for jj, w, _ in fac if jj == j) ** 2 for c, fac in tob.terms if any(jj == j for jj, _, _ in fac))
            allow += curv * h * h / 8
        if reached > best + allow:
            ctx.violation("rotosolve.substep_min", f"Rotosolve substep {j} (frequencies up to {tob.freqs[j]}) ends at objective {reached}, the exact minimum of that "
                          f"single-parameter sub-problem is {best}", case={**w, "substep": j, "point": pt}, mech=f"rotosolve:not-minimal:{'analytic' if tob.freqs[j] == 1 else 'numeric-' + sub}",
                          observed=reached, expected=best)
            return
        if not close(ys[j], reached, 1e-6):
            ctx.violation("rotosolve.substep_min", f"Rotosolve full_output value {float(ys[j])} of substep {j} is not the objective at the substep's end point ({reached})",
                          case={**w, "substep": j}, mech="rotosolve:full_output")
            return
    ctx.case(fingerprint("rotosolve", tob.freqs, tob.terms, x0, y0, sub), nontrivial=(n1 + n2) >= 2, cls=f"Rotosolve/{sub}/maxfreq{maxfreq}",
             sample={"freqs": tob.freqs, "x0": x0.tolist(), "y0": y0.tolist(), "substep": sub})


# ----------------------------------------------------------------------------- Rotoselect
def rotoselect_case(ctx, qp, pnp, rng):
    D = int(rng.integers(1, 4))
    gens = [qp.RX, qp.RY, qp.RZ]
    # for every position d and generator choice g: amplitude/phase of a unit-frequency sinusoid; plus multiplicative coupling
    amp = np.round(rng.uniform(0.2, 1.5, size=(D, 3)), 3)
    phi = np.round(rng.uniform(-3, 3, size=(D, 3)), 3)
    off = np.round(rng.normal(size=(D, 3)), 3)
    coup = float(np.round(rng.normal(), 3))

    def value(x, generators):
        tot, prod = 0.0, 1.0
        for d in range(D):
            gi = gens.index(generators[d])
            s = amp[d, gi] * np.cos(x[d] - phi[d, gi])
            tot += s + off[d, gi]
            prod *= np.cos(x[d] - phi[d, (gi + 1) % 3])
        return tot + coup * prod

    def cost(x, generators=None):
        return value([float(v) for v in np.asarray(x, dtype=float).reshape(-1)], generators)
    x0 = [float(v) for v in np.round(rng.uniform(-3, 3, size=D), 3)]
    g0 = [gens[int(i)] for i in rng.integers(0, 3, size=D)]
    opt = qp.RotoselectOptimizer()
    kind = "step_and_cost" if rng.random() < 0.5 else "step"
    w = {"optimizer": "RotoselectOptimizer", "D": D, "x0": x0, "generators0": [g.__name__ for g in g0], "amp": amp.tolist(), "phi": phi.tolist(), "coupling": coup, "kind": kind}
    g_in = list(g0)
    x_in = list(x0)
    ctx.ev("rotoselect.step")
    try:
        if kind == "step":
            xn, gn = opt.step(cost, x_in, g_in)
            c = None
        else:
            xn, gn, c = opt.step_and_cost(cost, x_in, g_in)
    except Exception as e:  # noqa: BLE001
        ctx.violation("rotoselect.step", f"Rotoselect.{kind} raised {type(e).__name__}: {e}", case=w, mech=f"raise:Rotoselect:{type(e).__name__}")
        return
    xn = [float(v) for v in np.asarray(xn, dtype=float).reshape(-1)]
    # sequential optimality: after position d was treated, (x_d, R_d) is the best over all generators and angles given the others
    cx, cg = list(x0), list(g0)
    for d in range(D):
        best = None
        for G in gens:
            tg = cg[:d] + [G] + cg[d + 1:]
            m = min_on_circle(lambda t, _tg=tg, _d=d: value(cx[:_d] + [t] + cx[_d + 1:], _tg), n=2048)
            best = m if best is None else min(best, m)
        cx[d], cg[d] = xn[d], gn[d]
        reached = value(cx, cg)
        ctx.ev("rotoselect.step")
        if reached > best + 1e-8 * max(1.0, abs(best)):
            ctx.violation("rotoselect.step", f"Rotoselect position {d}: chosen (angle, generator) gives {reached}, the best over generators and angles is {best}",
                          case={**w, "position": d, "x_new": xn, "generators_new": [g.__name__ for g in gn]}, mech="rotoselect:not-minimal", observed=reached, expected=best)
            return
    if c is not None:
        ctx.ev("opt.cost_prestep")
        pre = value(x0, g0)
        if not close(c, pre, 1e-9):
            mixed = value(x0, gn)
            where = "old-angles-with-new-generators" if close(c, mixed, 1e-9) else "post-step" if close(c, value(xn, gn), 1e-9) else "other"
            ctx.violation("opt.cost_prestep", f"Rotoselect.step_and_cost returned cost {float(c)}; the objective at the pre-step (angles, generators) is {pre} "
                          f"(returned value is the cost at: {where})", case=w, mech=f"cost:RotoselectOptimizer:{where}", observed=float(c), expected=pre)
            return
    ctx.case(fingerprint("rotoselect", amp, phi, off, coup, x0, [g.__name__ for g in g0], kind), nontrivial=D >= 2, cls=f"Rotoselect/{kind}",
             sample={"D": D, "x0": x0, "generators0": [g.__name__ for g in g0]})


def run(ctx):
    import pennylane as qp
    from pennylane import numpy as pnp

    warnings.filterwarnings("ignore")
    # keep a complete list of violation mechanisms in evidence (the bus stores only the first witnesses)
    _orig_violation = ctx.violation

    def _violation(monitor, message, case=None, mech=None, observed=None, expected=None):
        ctx.note_add("violation_mechs", f"{monitor}|{mech}", cap=150)
        ctx.count(f"violations.{mech}")
        return _orig_violation(monitor, message, case=case, mech=mech, observed=observed, expected=expected)
    ctx.violation = _violation
    for nm in ("QNSPSAOptimizer", "ShotAdaptiveOptimizer", "RiemannianGradientOptimizer", "AdaptiveOptimizer"):
        ctx.uncovered(nm, "needs shot-based / circuit-growing QNodes; not driven by this check")
    N = ctx.n(700, 8000)
    dev_cache = {}
    indices = range(ctx.shard, N * ctx.nshards, ctx.nshards)
    if ctx.only_case is not None:
        indices = [ctx.only_case]
    for n_done, gi in enumerate(indices):
        if n_done and n_done % 16 == 0 and not ctx.more():
            break
        ctx.case_index = gi
        rng = ctx.case_rng(gi)
        r = gi % 20
        if r < 12:
            grad_history(ctx, qp, pnp, rng, gi)
        elif r < 14:
            spsa_history(ctx, qp, pnp, rng)
        elif r < 16:
            rotosolve_case(ctx, qp, pnp, rng)
        elif r < 19:
            rotoselect_case(ctx, qp, pnp, rng)
        else:
            qng_qnode_history(ctx, qp, pnp, rng, dev_cache)
