"""C03 — Operator arithmetic agrees with matrix arithmetic.

Deciding monitors (post-conditions evaluated at EVERY constructor call of a generated nested expression, children before
parents, so a disagreement is attributed to the lowest node that shows it):

* ``arith.matrix``   — ``qp.matrix(result, wire_order=W)`` of adjoint / pow / ctrl / prod / sum / s_prod / exp /
                       change_op_basis and of the dunder forms (``@ + - * / ** neg``) equals R-MAT (numpy matrix arithmetic)
                       applied recursively to the expression tree recorded by the generator; leaves come from the
                       documented-formula table R-GATES (or carry their own matrix: Hermitian/QubitUnitary/Projector),
                       embedding is done by R-EMBED tensor re-indexing on a random permutation / superset wire order.
* ``simplify.same``  — ``qp.simplify(e)`` denotes exactly (incl. global phase) the matrix of ``e``.
* ``map_wires.relabel`` — ``qp.map_wires(e, π)`` has the reference matrix re-embedded on the relabelled wires.

Known mechanisms are recognised by *models of the defect* (the observed matrix equals the reference with the defect
applied), never by hashes: see ``_classify``.
"""
import itertools

import numpy as np

from pv.ctx import fingerprint

META = {
    "id": "C03",
    "level": "exploration",
    "technique": "runtime post-conditions on the operator-arithmetic constructors (qp.adjoint/pow/ctrl/prod/sum/s_prod/exp/"
                 "change_op_basis/simplify/map_wires and dunder forms) of generated nested expressions against a numpy matrix-"
                 "arithmetic reference evaluated recursively on the recorded expression tree (reference-model monitor)",
    "level_text": "Randomly generated nested operator expressions (depth 1-4, gates/observables/matrix leaves, random scalars, integer "
                  "exponents -3..5, fractional exponents only for bases whose eigenphases are strictly inside (-pi, pi), random control "
                  "values and work wires, arbitrary wire labels, forced special constructor paths) are built with the real constructors; "
                  "after every constructor call the real qp.matrix on a permuted/superset wire order is compared with independent numpy "
                  "matrix arithmetic on the recorded tree; held on the expressions observed.",
    "level_note": "Trusts numpy/scipy (matrix_power, inv, expm, schur) and pv/ref/gates.py (documented gate formulas), pv/ref/sv.py "
                  "(embedding by tensor re-indexing). Template leaves are not used (only gates, Hermitian, Projector, QubitUnitary): "
                  "templates' own matrices belong to C01/C14. Expressions whose reference has entries > 1e6 are skipped (ill-scaled). "
                  "Tolerance 1e-9*max(1,|R|) (x200 with expm / fractional powers); below a simplify node 1e-7*max(1,|R|) because simplify "
                  "snaps angles with allclose(atol=1e-8) by design. change_op_basis only occurs in the forced special paths (not in the random "
                  "generator); qp.evolve likewise. Mechanism tags of known defect families are assigned only when a numeric model of the "
                  "defect (or, for hash grouping, a counterfactual rebuild with non-reducing hashes) reproduces the observed matrix.",
    "shards": {"quick": 4, "thorough": 16},
    "budget_s": {"quick": 150, "thorough": 300},
    "min_evals": {"quick": 1500, "thorough": 30000},
    "min_nontrivial": {"quick": 300, "thorough": 5000},
    "deciding": ["arith.matrix", "simplify.same", "map_wires.relabel"],
    "rule": "case = one generated expression tree (random or forced special path); distinct = distinct tree structure + rounded "
            "parameters; non-trivial = at least one arithmetic node (depth >= 1) whose reference matrix is not a multiple of the identity",
    "assumptions": ["reference gate table transcribes the documented formulas", "numpy/scipy linear algebra is correct to 1e-10"],
    "allow_rejections": True,
}

MAXW = 6
_DOC_REJECT = ("AdjointUndefinedError", "PowUndefinedError", "MatrixUndefinedError", "DecompositionUndefinedError",
               "SparseMatrixUndefinedError", "GeneratorUndefinedError", "EigvalsUndefinedError")


# ------------------------------------------------------------------------------------------------------- helpers
def _L(name, wires, params=(), **hyper):
    return {"op": "leaf", "name": name, "params": [float(x) for x in params], "wires": list(wires), "hyper": dict(hyper)}


def _has_frac(tree):
    if tree["op"] == "pow" and float(tree["z"]) != int(tree["z"]):
        return True
    return any(_has_frac(a) for a in (tree.get("args") or ([tree["arg"]] if "arg" in tree else [])))


def _kinds(tree, acc):
    acc.append(tree["op"])
    for a in (tree.get("args") or ([tree["arg"]] if "arg" in tree else [])):
        _kinds(a, acc)
    return acc


def _struct(tree):
    """Structure + rounded parameters (for fingerprints)."""
    k = tree["op"]
    if k == "leaf":
        if "matrix" in tree:
            return (tree["name"], len(tree["wires"]), round(float(np.sum(np.abs(np.array(tree["matrix"]["re"])))), 6))
        return (tree["name"], tuple(round(p, 8) for p in tree.get("params", [])), len(tree["wires"]), tuple(sorted(map(str, tree.get("hyper", {}).items()))))
    extra = tuple((x, str(tree[x])) for x in ("z", "values", "c", "lazy", "dunder") if x in tree)
    return (k, extra, tuple(_struct(a) for a in (tree.get("args") or [tree["arg"]])))


def _summary(tree, depth=0):
    k = tree["op"]
    if k == "leaf":
        p = ",".join(f"{x:.4g}" for x in tree.get("params", []))
        return f"{tree['name']}({p})@{tree['wires']}"
    inner = ", ".join(_summary(a, depth + 1) for a in (tree.get("args") or [tree["arg"]]))
    extra = "".join(f" {x}={tree[x]}" for x in ("z", "control", "values", "c", "map", "work_wires") if x in tree and tree[x] not in ([], None))
    return f"{k}[{extra.strip()}]({inner})"


# --------------------------------------------------------------------------------------- models of known defect mechanisms
def _globalphase_leaves_under_simplify(tree, under=False, out=None):
    out = [] if out is None else out
    k = tree["op"]
    if k == "leaf":
        if under and tree["name"] == "GlobalPhase":
            out.append(tree)
        return out
    for a in (tree.get("args") or [tree["arg"]]):
        _globalphase_leaves_under_simplify(a, under or k == "simplify", out)
    return out


def _model_dropped_globalphase(opzoo, tree, W, M, tol):
    """True when M equals the reference with some GlobalPhase factors below a simplify node replaced by the identity."""
    leaves = _globalphase_leaves_under_simplify(tree)
    if not leaves or len(leaves) > 6:
        return False
    saved = [list(l["params"]) for l in leaves]
    try:
        for r in range(1, len(leaves) + 1):
            for sub in itertools.combinations(range(len(leaves)), r):
                for i, l in enumerate(leaves):
                    l["params"] = [0.0] if i in sub else list(saved[i])
                R2 = opzoo.expr_matrix(tree, W)
                if R2.shape == M.shape and np.max(np.abs(M - R2)) < tol:
                    return True
        return False
    finally:
        for l, s in zip(leaves, saved):
            l["params"] = s


def _model_fracpow_angle(opzoo, tree, W, M, tol):
    """True when M equals the reference in which fractional powers below a simplify node, of a one-parameter gate
    (possibly wrapped in ctrl / adjoint), are replaced by the same gate with angle z * angle' where angle' = angle,
    angle mod 2pi or angle mod 4pi (angle arithmetic instead of the principal matrix power)."""
    import copy
    import math
    t2 = copy.deepcopy(tree)
    nodes = []

    def chain_leaf(t):
        while t["op"] in ("ctrl", "adjoint"):
            t = t["arg"]
        return t if (t["op"] == "leaf" and len(t.get("params", [])) == 1) else None

    def strip_adjoint(t):
        """(chain without adjoint wrappers, sign)"""
        if t["op"] == "adjoint":
            inner, sg = strip_adjoint(t["arg"])
            return inner, -sg
        if t["op"] == "ctrl":
            inner, sg = strip_adjoint(t["arg"])
            t["arg"] = inner
            return t, sg
        return t, 1

    def rec(t, under):
        if t["op"] == "pow" and under and float(t["z"]) != int(t["z"]) and chain_leaf(t["arg"]) is not None:
            nodes.append(t)
            return
        for a in (t.get("args") or ([t["arg"]] if "arg" in t else [])):
            rec(a, under or t["op"] == "simplify")
    rec(t2, False)
    if not nodes or len(nodes) > 3:
        return False
    orig = [(copy.deepcopy(n["arg"]), n["z"]) for n in nodes]
    for combo in itertools.product([None, 2 * math.pi, 4 * math.pi, "keep"], repeat=len(nodes)):
        if all(c == "keep" for c in combo):
            continue
        for n, (arg, z), c in zip(nodes, orig, combo):
            for key in list(n.keys()):
                del n[key]
            if c == "keep":
                n.update({"op": "pow", "z": z, "arg": copy.deepcopy(arg)})
            else:
                new = strip_adjoint(copy.deepcopy(arg))  # adjoint(gate(phi)) == gate(-phi) for one-parameter gates
                leaf = chain_leaf(new[0])
                phi = new[1] * leaf["params"][0]
                phi = phi if c is None else phi % c
                leaf["params"] = [z * phi]
                n.update(new[0])
        R2 = opzoo.expr_matrix(t2, W)
        if R2.shape == M.shape and np.max(np.abs(M - R2)) < tol:
            return True
    return False


def _model_sum_hash_collision(opzoo, tree, W, M, tol):
    """True when M equals the reference in which, below a simplify node, a sum/product term that differs from an earlier term of
    the same gate/wires only by angle shifts of multiples of 2pi is replaced by that earlier term (grouping by a hash that
    reduces the angles modulo 2pi)."""
    import copy
    import math
    t2 = copy.deepcopy(tree)
    changed = [False]

    def rec(t, under):
        if t["op"] in ("sum", "add", "prod", "matmul") and under:
            leaves = [x for x in t["args"] if x["op"] == "leaf" and x.get("params")]
            for i, x in enumerate(leaves):
                for y in leaves[:i]:
                    if y["name"] == x["name"] and y["wires"] == x["wires"] and len(x["params"]) == len(y["params"]) and x["params"] != y["params"] \
                            and all(abs(((p - q) / (2 * math.pi)) - round((p - q) / (2 * math.pi))) < 1e-9 for p, q in zip(x["params"], y["params"])):
                        x["params"] = list(y["params"])
                        changed[0] = True
                        break
        for a in (t.get("args") or ([t["arg"]] if "arg" in t else [])):
            rec(a, under or t["op"] == "simplify")
    rec(t2, False)
    if not changed[0]:
        return False
    R2 = opzoo.expr_matrix(t2, W)
    return R2.shape == M.shape and bool(np.max(np.abs(M - R2)) < tol)


def _subnodes(t, under=False):
    """(node, below-a-simplify?) for every node of a tree."""
    yield t, under
    for a in (t.get("args") or ([t["arg"]] if "arg" in t else [])):
        yield from _subnodes(a, under or t["op"] == "simplify")


def _model_fracpow_branch(opzoo, tree, W, M, tol, max_combos=20000):
    """True when M equals the reference in which every fractional power below a simplify node is replaced by ANOTHER branch
    of the same power: eigenvalue e^{i phi} of the base -> e^{i z (phi + 2 pi k)} with one integer k per distinct eigenvalue
    (the principal power is k = 0 everywhere).  Only for bases on <= 3 wires; at most ``max_combos`` candidates."""
    import copy
    t2 = copy.deepcopy(tree)
    nodes = [n for n, under in _subnodes(t2) if under and n["op"] == "pow" and float(n["z"]) != int(n["z"])]
    if not nodes or len(nodes) > 2:
        return False
    specs = []
    for n in nodes:
        ws = opzoo.tree_wires(n["arg"])
        if len(ws) > 3:
            return False
        B = opzoo.expr_matrix(n["arg"], ws)
        from scipy.linalg import schur
        T, Z = schur(B, output="complex")
        d = np.diag(T)
        if np.max(np.abs(T - np.diag(d))) > 1e-8:
            return False  # not normal
        groups = []  # distinct eigenvalues
        for i, ev in enumerate(d):
            for g in groups:
                if abs(ev - d[g[0]]) < 1e-7:
                    g.append(i)
                    break
            else:
                groups.append([i])
        specs.append((n, ws, Z, d, groups, float(n["z"])))
    ks = (0, 1, -1, 2, -2)
    total = 1
    for sp in specs:
        total *= len(ks) ** len(sp[4])
    if total > max_combos:
        return False
    originals = [dict(sp[0]) for sp in specs]
    try:
        for combo in itertools.product(*[itertools.product(ks, repeat=len(sp[4])) for sp in specs]):
            if all(k == 0 for c in combo for k in c):
                continue
            for sp, c in zip(specs, combo):
                n, ws, Z, d, groups, z = sp
                ph = np.angle(d).astype(float)
                for g, k in zip(groups, c):
                    ph[g] = ph[g] + 2 * np.pi * k
                P = Z @ np.diag(np.abs(d) ** z * np.exp(1j * z * ph)) @ Z.conj().T
                for key in list(n.keys()):
                    del n[key]
                n.update({"op": "leaf", "name": "QubitUnitary", "matrix": opzoo._menc(P), "wires": list(ws)})
            R2 = opzoo.expr_matrix(t2, W)
            if R2.shape == M.shape and np.max(np.abs(M - R2)) < tol:
                return True
        return False
    finally:
        for sp, o in zip(specs, originals):
            n = sp[0]
            for key in list(n.keys()):
                del n[key]
            n.update(o)


def _model_u2_sign(opzoo, tree, W, M, tol):
    """True when M equals the reference with the sign of a U2(pi/2, 3pi/2) leaf (mod 2pi) below a simplify node flipped
    (U2.simplify maps that case to RX(3pi/2) = -U2)."""
    import copy
    t2 = copy.deepcopy(tree)
    hit = False
    for n, under in list(_subnodes(t2)):
        if under and n["op"] == "leaf" and n["name"] == "U2":
            phi, delta = [x % (2 * np.pi) for x in n["params"]]
            if abs(phi - np.pi / 2) < 2e-5 and abs(delta - 3 * np.pi / 2) < 6e-5:
                leaf = dict(n)
                for key in list(n.keys()):
                    del n[key]
                n.update({"op": "neg", "arg": leaf})
                hit = True
    if not hit:
        return False
    R2 = opzoo.expr_matrix(t2, W)
    return R2.shape == M.shape and bool(np.max(np.abs(M - R2)) < tol)


def _model_rot_hadamard(opzoo, tree, W, M, tol):
    """True when M equals the reference in which a Rot / CRot leaf with angles (pi, pi/2, 0) mod 4pi below a simplify node is
    replaced by Hadamard / CH (Rot.simplify returns Hadamard for it although Rot(pi, pi/2, 0) = -i H)."""
    import copy
    t2 = copy.deepcopy(tree)
    hit = False
    for n, under in list(_subnodes(t2)):
        if under and n["op"] == "leaf" and n["name"] in ("Rot", "CRot"):
            p0, p1, p2 = [x % (4 * np.pi) for x in n["params"]]
            if abs(p0 - np.pi) < 4e-5 and abs(p1 - np.pi / 2) < 2e-5 and (p2 < 1e-7 or 4 * np.pi - p2 < 1e-7):
                n["name"] = "Hadamard" if n["name"] == "Rot" else "CH"
                n["params"] = []
                hit = True
    if not hit:
        return False
    R2 = opzoo.expr_matrix(t2, W)
    return R2.shape == M.shape and bool(np.max(np.abs(M - R2)) < tol)


def _counterfactual_hash(qp, opzoo, tree, W, R, tol):
    """Causal test for the hash-grouping mechanism: rebuild the expression with operator hashing that does NOT reduce angles
    modulo 2pi (the two canonicalisation helpers are wrapped for the duration of the rebuild); True when the real
    code then agrees with the reference."""
    import pennylane.core.operator.base as B
    import pennylane.core.operator.operator2 as O2
    has_collision = False
    for n, under in _subnodes(tree):
        if under and n["op"] in ("sum", "add", "prod", "matmul", "sub"):
            has_collision = True
    if not has_collision:
        return False
    orig_pd, orig_cd = B._process_data, O2._canonicalize_dynamic

    class _Proxy:  # same data, a name that is not in the modulo list
        def __init__(self, op):
            self.name, self.data = "pv-no-modulo", op.data

    B._process_data = lambda op: orig_pd(_Proxy(op))
    O2._canonicalize_dynamic = lambda d, op_name=None: orig_cd(d, None)
    try:
        op2 = opzoo.build(qp, tree)
        M2 = np.asarray(qp.matrix(op2, wire_order=W))
    except Exception:  # noqa: BLE001
        return False
    finally:
        B._process_data, O2._canonicalize_dynamic = orig_pd, orig_cd
    return M2.shape == R.shape and bool(np.max(np.abs(M2 - R)) < tol)


def _model_prod_group_order(qp, sv, op, child_ref, W, M, tol):
    """Model of the Prod.matrix defect: operands are grouped by overlapping wires, the groups' matrices are Kronecker-
    multiplied in group order, and the result is labelled with op.wires although it lives on the concatenated group wires.
    ``child_ref(i, wires)`` gives the reference matrix of operand i on a wire list."""
    if type(op).__name__ != "Prod" or getattr(op, "pauli_rep", None):
        return False
    groups = []  # [[operand indices], wires]
    for i, o in enumerate(op.operands):
        ow = list(o.wires)
        hit = [g for g in groups if any(x in g[1] for x in ow)]
        if not hit:
            groups.append([[i], list(ow)])
            continue
        first = hit[0]
        for g in hit[1:]:
            first[0].extend(g[0])
            first[1].extend(x for x in g[1] if x not in first[1])
            groups.remove(g)
        first[0].append(i)
        first[0].sort()
        first[1].extend(x for x in ow if x not in first[1])
    if len(groups) < 2:
        return False
    concat = [x for g in groups for x in g[1]]
    opw = list(op.wires)
    if concat == opw or sorted(map(str, concat)) != sorted(map(str, opw)):
        return False
    full = np.eye(1, dtype=complex)
    for idxs, gw in groups:
        G = np.eye(2 ** len(gw), dtype=complex)
        for i in idxs:
            G = G @ child_ref(i, gw)
        full = np.kron(full, G)
    R2 = sv.embed(full, opw, W)  # mislabelled on purpose
    return R2.shape == M.shape and np.max(np.abs(M - R2)) < tol


# ----------------------------------------------------------------------------------------------------- forced special paths
def _forced_tree(rng, w, num):
    """Special constructor paths named in the design (pure data; built later with opzoo.build)."""
    a = lambda: float(num.angle(rng))  # noqa: E731
    one = [("PauliX", 0), ("PauliY", 0), ("PauliZ", 0), ("Hadamard", 0), ("S", 0), ("T", 0), ("SX", 0), ("PhaseShift", 1), ("RX", 1),
           ("RY", 1), ("RZ", 1), ("Rot", 3), ("U1", 1), ("U2", 2), ("U3", 3)]
    two = [("CNOT", 0), ("CZ", 0), ("CY", 0), ("CH", 0), ("SWAP", 0), ("CRX", 1), ("CRY", 1), ("CRZ", 1), ("CRot", 3), ("ControlledPhaseShift", 1),
           ("IsingXX", 1), ("ISWAP", 0), ("IsingXY", 1), ("PSWAP", 1), ("SingleExcitation", 1), ("CPhaseShift10", 1)]

    def g1(wire):
        n, k = one[int(rng.integers(len(one)))]
        return _L(n, [wire], [a() for _ in range(k)])

    def g2(ws):
        n, k = two[int(rng.integers(len(two)))]
        return _L(n, ws, [a() for _ in range(k)])

    def cv(n):
        return [int(x) for x in rng.integers(0, 2, size=n)]
    r = int(rng.integers(15))
    if r == 0:  # ctrl of a basic gate: dispatch to specialised classes (CNOT, CY, CZ, CH, CRX…, Toffoli, MultiControlledX)
        nc = int(rng.integers(1, 4))
        vals = cv(nc) if rng.random() < 0.6 else [1] * nc
        return {"op": "ctrl", "control": w[1:1 + nc], "values": vals, "work_wires": [], "arg": g1(w[0])}
    if r == 1:  # ctrl of ctrl (flattening), also of specialised controlled gates
        inner = {"op": "ctrl", "control": [w[2]], "values": cv(1), "work_wires": [], "arg": g1(w[0])} if rng.random() < 0.5 else g2([w[2], w[0]])
        nc = int(rng.integers(1, 3))
        return {"op": "ctrl", "control": w[3:3 + nc], "values": cv(nc), "work_wires": [], "arg": inner}
    if r == 2:  # adjoint of adjoint / adjoint of pow / adjoint of ctrl
        inner = [{"op": "adjoint", "arg": g1(w[0])}, {"op": "pow", "z": int(rng.integers(-2, 4)), "arg": g2(w[:2])},
                 {"op": "ctrl", "control": [w[1]], "values": cv(1), "work_wires": [], "arg": g1(w[0])}][int(rng.integers(3))]
        return {"op": "adjoint", "arg": inner}
    if r == 3:  # pow of pow, pow 0 / 1 / -1
        z1 = [0, 1, -1, 2, 3, -2][int(rng.integers(6))]
        z2 = [0, 1, -1, 2, -3][int(rng.integers(5))]
        return {"op": "pow", "z": z2, "dunder": bool(rng.integers(2)), "arg": {"op": "pow", "z": z1, "arg": g1(w[0]) if rng.random() < 0.5 else g2(w[:2])}}
    if r == 4:  # products containing global phases / identities, overlapping and disjoint wires, 3+ factors
        fs = [g1(w[0]), _L("GlobalPhase", [], [a()]), g2([w[1], w[0]]), _L("Identity", [w[2]]), g1(w[2]), g2([w[2], w[1]]), g1(w[3])]
        k = int(rng.integers(2, 6))
        idx = [int(i) for i in rng.choice(len(fs), size=k, replace=False)]
        return {"op": "prod", "lazy": bool(rng.integers(2)), "args": [fs[i] for i in idx]}
    if r == 5:  # simplify of such products / of sums with repeated terms
        t = _forced_tree(rng, w, num) if rng.random() < 0.5 else {"op": "sum", "args": [g1(w[0]), g1(w[0]), g2(w[:2]), {"op": "s_prod", "c": [a() / 4, 0.0], "arg": g1(w[0])}]}
        return {"op": "simplify", "arg": t}
    if r == 6:  # sums with repeated terms (identical data) and coefficients
        x = g1(w[0])
        y = g2(w[:2])
        return {"op": "simplify", "arg": {"op": "sum", "args": [x, y, dict(x), {"op": "s_prod", "c": [float(rng.uniform(-2, 2)), 0.0], "arg": dict(y)}, dict(x)]}}
    if r == 7:  # exp with real / imaginary / complex coefficient of a Pauli word or of a sum
        word = {"op": "prod", "args": [_L(["PauliX", "PauliY", "PauliZ"][int(rng.integers(3))], [w[i]]) for i in range(int(rng.integers(1, 4)))]}
        if len(word["args"]) == 1:
            word = word["args"][0]
        base = word if rng.random() < 0.6 else {"op": "sum", "args": [word, {"op": "s_prod", "c": [float(rng.uniform(-1, 1)), 0.0], "arg": _L("PauliZ", [w[0]])}]}
        c = [[0.0, a() / 2], [float(rng.uniform(-1, 1)), 0.0], [float(rng.uniform(-1, 1)), float(rng.uniform(-2, 2))]][int(rng.integers(3))]
        t = {"op": "exp", "c": c, "arg": base} if rng.random() < 0.7 else {"op": "evolve", "c": [a() / 2, 0.0], "arg": base}
        r2 = rng.random()
        if r2 < 0.2:
            return {"op": "simplify", "arg": {"op": "pow", "z": int(rng.integers(0, 4)), "arg": t}}
        if r2 < 0.4:
            return {"op": ["adjoint", "simplify"][int(rng.integers(2))], "arg": t}
        return t
    if r == 8:  # change_op_basis
        comp = g1(w[0]) if rng.random() < 0.5 else g2(w[:2])
        targ = g2([w[1], w[0]]) if rng.random() < 0.5 else g1(w[0])
        args = [comp, targ]
        if rng.random() < 0.4:
            args.append({"op": "adjoint", "arg": dict(comp)} if rng.random() < 0.5 else g1(w[0]))
        return {"op": "cob", "args": args}
    if r == 9:  # ctrl / adjoint / pow of change_op_basis, of prod and of sum
        inner = {"op": "cob", "args": [g1(w[0]), g2([w[1], w[0]])]} if rng.random() < 0.4 else {"op": ["prod", "sum"][int(rng.integers(2))], "args": [g1(w[0]), g2(w[:2]), g1(w[1])]}
        kind = int(rng.integers(3))
        if kind == 0:
            nc = int(rng.integers(1, 3))
            return {"op": "ctrl", "control": w[2:2 + nc], "values": cv(nc), "work_wires": [], "arg": inner}
        if kind == 1:
            return {"op": "adjoint", "arg": inner}
        return {"op": "pow", "z": int(rng.integers(-2, 4)), "arg": inner}
    if r == 10:  # simplify of adjoint / pow / ctrl of products (factor order reversal, phases)
        p = {"op": "prod", "args": [g1(w[0]), g2(w[:2]), g1(w[1]), _L("GlobalPhase", [], [a()])][: int(rng.integers(2, 5))]}
        kind = int(rng.integers(3))
        inner = [{"op": "adjoint", "arg": p}, {"op": "pow", "z": int(rng.integers(-2, 4)), "arg": p},
                 {"op": "ctrl", "control": [w[2]], "values": cv(1), "work_wires": [], "arg": p}][kind]
        return {"op": "simplify", "arg": inner}
    if r == 11:  # map_wires of controlled ops with work wires, of nested expressions
        inner = {"op": "ctrl", "control": [w[2]], "values": cv(1), "work_wires": [w[3]], "work_wire_type": "borrowed", "arg": g2(w[:2])}
        perm = [w[int(i)] for i in rng.permutation(4)]
        return {"op": "map_wires", "map": [[w[i], perm[i]] for i in range(4)], "arg": inner}
    if r == 12:  # s_prod of s_prod, scalars 0/1/-1/complex, simplify
        c1 = [[1.0, 0.0], [-1.0, 0.0], [0.0, 1.0], [0.0, 0.0], [float(rng.uniform(-2, 2)), float(rng.uniform(-2, 2))]][int(rng.integers(5))]
        t = {"op": "s_prod", "lazy": bool(rng.integers(2)), "c": c1, "arg": {"op": "s_prod", "lazy": True, "c": [float(rng.uniform(-2, 2)), float(rng.uniform(-2, 2)) if rng.random() < 0.5 else 0.0], "arg": g2(w[:2])}}
        return {"op": "simplify", "arg": t} if rng.random() < 0.5 else t
    if r == 14:  # sums / products whose terms differ by an angle shift of 2πk (equal hashes on this code base), then simplify
        nm, npar = [("RX", 1), ("RY", 1), ("RZ", 1), ("Rot", 3), ("U2", 2), ("U3", 3), ("PhaseShift", 1), ("U1", 1), ("CRX", 1), ("CRot", 3), ("IsingXX", 1)][int(rng.integers(11))]
        ps = [a() for _ in range(npar)]
        k = [1, -1, 2][int(rng.integers(3))]
        ps2 = list(ps)
        ps2[int(rng.integers(npar))] += 2 * np.pi * k
        ws = w[:2] if nm in ("CRX", "CRot", "IsingXX") else [w[0]]
        terms = [_L(nm, ws, ps), _L(nm, ws, ps2)]
        if rng.random() < 0.5:
            terms.append(g1(w[0]))
        return {"op": "simplify", "arg": {"op": ["sum", "sum", "prod"][int(rng.integers(3))], "args": terms}}
    # 13: fractional powers of rotations with small angles (eigenphases inside (−π, π)) and their simplification
    th = float(rng.uniform(-3.0, 3.0))
    base = _L(["RX", "RY", "RZ", "PhaseShift", "IsingXX", "IsingZZ", "CRX", "CRZ", "ControlledPhaseShift", "SingleExcitation"][int(rng.integers(10))], w[:2], [th])
    if base["name"] in ("RX", "RY", "RZ", "PhaseShift"):
        base["wires"] = [w[0]]
    t = {"op": "pow", "z": [0.5, 1.5, -0.5, 0.25, 2.5][int(rng.integers(5))], "arg": base}
    return {"op": "simplify", "arg": t} if rng.random() < 0.5 else t


# ------------------------------------------------------------------------------------------------------------- the check
def _limit_repeats(ctx, per_mech=2):
    """Record at most ``per_mech`` witnesses per (monitor, mechanism) and shard, so that frequent known mechanisms cannot
    exhaust the bus' witness buffer and hide a new one (all occurrences are still counted)."""
    orig, seen = ctx.violation, {}

    def violation(monitor, message, case=None, mech=None, observed=None, expected=None):
        k = (monitor, mech)
        seen[k] = seen.get(k, 0) + 1
        if seen[k] <= per_mech:
            orig(monitor, message, case=case, mech=mech, observed=observed, expected=expected)
        else:
            ctx.nviolations += 1
            ctx.count("witnesses_not_recorded_again")
    ctx.violation = violation


def run(ctx):
    import pennylane as qp

    _limit_repeats(ctx)

    from pv.gen import num, opzoo
    from pv.ref import sv

    total = ctx.n(5000, 100000)
    ctx.note("import_s", round(ctx.elapsed(), 1))
    if ctx.shard == 0:
        _ctrl_values_exhaustive(ctx, qp, opzoo, sv)
    for j in range(total):
        if not ctx.more():
            break
        i = ctx.shard + j * ctx.nshards
        if ctx.only_case is not None and i != ctx.only_case:
            continue
        ctx.case_index = i
        rng = ctx.case_rng(i)
        flavour = ["random", "random", "forced", "hermitian"][int(rng.integers(4))]
        trace = []
        tree = None
        try:
            if flavour == "forced":
                w = opzoo.wire_pool(rng, 8)
                tree = _forced_tree(rng, w, num)
                if _needs_frac_guard(opzoo, tree):
                    ctx.count("forced_frac_outside_domain_skipped")
                    continue
                opzoo.build(qp, tree, trace=trace)
            else:
                depth = int(rng.integers(1, 5))
                _, tree = opzoo.random_expr(qp, rng, depth, max_wires=int(rng.integers(1, 4)), hermitian=(flavour == "hermitian"), trace=trace)
        except opzoo.ExprBuildError as e:
            _on_raise(ctx, e.kind, e.tree, e.exc, "construct", trace)
            # nodes built before the failure are still checked
        _check_trace(ctx, qp, opzoo, sv, trace, rng, flavour)
    ctx.note("total_s", round(ctx.elapsed(), 1))


def _needs_frac_guard(opzoo, tree):
    """Fractional exponents are admissible only where the base's eigenphases are strictly inside (−π, π)."""
    for t in opzoo.subtrees(tree):
        if t["op"] == "pow" and float(t["z"]) != int(t["z"]):
            M = opzoo.expr_matrix(t["arg"], opzoo.tree_wires(t["arg"]))
            if not opzoo.eigenphases_inside(M, 1e-6):
                return True
    return False


def _nonlist_pow_base(trace):
    """Class name of a base whose ``.pow(z)`` returns something that is not a list (checked on the real objects of the
    Pow-type nodes built so far), else None."""
    for _, o in reversed(trace or []):
        base, z = getattr(o, "base", None), getattr(o, "z", None)
        if base is None or z is None or not hasattr(base, "pow"):
            continue
        try:
            r = base.simplify().pow(z)
        except Exception:  # noqa: BLE001
            continue
        if not isinstance(r, (list, tuple)):
            return type(base).__name__
    return None


def _walk_ops(o, depth=0):
    yield o
    if depth > 8:
        return
    for attr in ("base", "operands"):
        v = getattr(o, attr, None)
        if v is None:
            continue
        for e in (v if isinstance(v, (list, tuple)) else [v]):
            if hasattr(e, "wires"):
                yield from _walk_ops(e, depth + 1)


def _nonlist_pow_class(trace, clsname):
    for _, o in reversed(trace or []):
        for x in _walk_ops(o):
            if type(x).__name__ == clsname and hasattr(x, "pow"):
                try:
                    r = x.pow(2)
                except Exception:  # noqa: BLE001
                    continue
                if not isinstance(r, (list, tuple)):
                    return clsname
    return None


def _on_raise(ctx, kind, tree, exc, where, trace=None):
    name = type(exc).__name__
    if name in _DOC_REJECT:
        ctx.reject(f"{where}:{kind}:{name}")
        ctx.note_add("rejection_examples", f"{where}:{kind}:{name}: {_summary(tree)[:200]}", cap=12)
        return
    import os
    import re
    import traceback
    site = "?"
    for fr in reversed(traceback.extract_tb(exc.__traceback__)):
        base = os.path.basename(fr.filename)
        if "/pennylane/" in fr.filename and base not in ("wires.py", "meta.py", "capture_meta.py") and fr.name != "__getattr__":
            site = f"{base}:{fr.name}"
            break
    mech = f"raise:{name}@{site}"
    msg = str(exc)
    if name == "TypeError" and ("is not iterable" in msg or "has no len()" in msg):
        cls = _nonlist_pow_base(trace)
        m = re.match(r"'(\w+)' object is not iterable", msg) or re.match(r"object of type '(\w+)' has no len\(\)", msg)
        if cls is None and m:
            # the Pow node that calls .pow() may be created internally (SProd.pow, Controlled.pow …): verify on an instance of
            # the named class that occurs in the expression that its .pow() really returns a non-list
            cls = _nonlist_pow_class(trace, m.group(1))
        if cls is not None:
            mech = f"pow-returns-nonlist:{cls}"
    if name == "AttributeError":
        m = re.match(r"'(\w+)' object has no attribute '(\w+)'", msg)
        if m:
            mech = f"raise:AttributeError:{m.group(1)}.{m.group(2)}"
    ctx.ev("arith.no_raise")
    ctx.violation("arith.no_raise", f"{where} of {kind} raised {name}: {str(exc)[:300]} on {_summary(tree)[:600]}",
                  case={"tree": tree}, mech=mech)


def _check_trace(ctx, qp, opzoo, sv, trace, rng, flavour):
    bad = set()  # ids of tree nodes whose own matrix disagreed (ancestors are contaminated)
    top = trace[-1][0] if trace else None
    for tree, op in trace:
        k = tree["op"]
        children = tree.get("args") or ([tree["arg"]] if "arg" in tree else [])
        if any(id(c) in bad for c in children):
            bad.add(id(tree))
            ctx.count("contaminated_nodes_skipped")
            continue
        try:
            opw = list(op.wires)
        except Exception as e:  # noqa: BLE001
            _on_raise(ctx, k, tree, e, "wires", trace)
            bad.add(id(tree))
            continue
        W = list(dict.fromkeys(opzoo.tree_wires(tree, work=True) + opw))
        if len(W) > MAXW:
            ctx.count("too_many_wires_skipped")
            continue
        if len(W) < MAXW and rng.random() < 0.3:
            W.append("extra")
        W = [W[int(i)] for i in rng.permutation(len(W))]
        try:
            R = opzoo.expr_matrix(tree, W)
        except Exception as e:  # noqa: BLE001 - reference failed (singular inverse …): not a verdict
            ctx.inconclusive_case(f"reference failed: {type(e).__name__}: {e}")
            bad.add(id(tree))
            continue
        scale = float(np.max(np.abs(R))) if R.size else 1.0
        if not np.isfinite(scale) or scale > 1e6:
            ctx.count("ill_scaled_skipped")
            bad.add(id(tree))
            continue
        kinds = _kinds(tree, [])
        tol = 1e-9 * max(1.0, scale) * (200.0 if (_has_frac(tree) or "exp" in kinds or "evolve" in kinds) else 1.0)
        if "simplify" in kinds:
            # simplify() snaps angles with qp.math.allclose (atol 1e-8) to 0 / pi/2 / ...: a documented numerical tolerance
            tol = max(tol, 1e-7 * max(1.0, scale) * max(1, len(kinds) // 4))
        mon = "leaf.matrix" if k == "leaf" else ("simplify.same" if k == "simplify" else ("map_wires.relabel" if k == "map_wires" else "arith.matrix"))
        try:
            M = np.asarray(qp.matrix(op, wire_order=W))
        except Exception as e:  # noqa: BLE001
            _on_raise(ctx, k, tree, e, "matrix", trace)
            bad.add(id(tree))
            continue
        ctx.ev(mon)
        ok = M.shape == R.shape and bool(np.max(np.abs(M - R)) < tol)
        if tree is top:
            nontriv = k != "leaf" and not (R.shape[0] and np.max(np.abs(R - R[0, 0] * np.eye(R.shape[0]))) < 1e-9)
            ctx.case(fingerprint(_struct(tree)), nontrivial=bool(nontriv), cls=flavour,
                     sample={"flavour": flavour, "expr": _summary(tree)[:300], "wire_order": W, "type": type(op).__name__})
        if k != "leaf":
            ctx.cover("node:" + k + ":" + type(op).__name__)
        if ok:
            continue
        bad.add(id(tree))
        err = float(np.max(np.abs(M - R))) if M.shape == R.shape else float("inf")
        mech = _classify(qp, opzoo, sv, tree, op, W, M, R, max(tol, 1e-7), children)
        ctx.violation(mon, f"{k}: qp.matrix({type(op).__name__}, wire_order={W}) differs from matrix arithmetic on the operands by {err:.3e} "
                           f"(tol {tol:.1e}); expr = {_summary(tree)[:700]}; op = {repr(op)[:300]}",
                      case={"tree": tree, "wire_order": W, "flavour": flavour}, mech=mech, observed=M, expected=R)


def _classify(qp, opzoo, sv, tree, op, W, M, R, tol, children):
    k = tree["op"]
    if k == "leaf":
        return f"leaf:{tree['name']}"
    try:
        if type(op).__name__ == "Prod":
            # operands passed their own post-conditions (else this node would be contaminated), so their real matrices
            # can feed the *model of the defect* (classifier only, never the oracle)
            if _model_prod_group_order(qp, sv, op, lambda i, ws: np.asarray(qp.matrix(op.operands[i], wire_order=list(ws))), W, M, tol):
                return "prod-matrix:group-wire-order"
    except Exception:  # noqa: BLE001
        pass
    try:
        if _model_dropped_globalphase(opzoo, tree, W, M, tol):
            return "simplify:prod-drops-globalphase"
    except Exception:  # noqa: BLE001
        pass
    try:
        if _model_sum_hash_collision(opzoo, tree, W, M, tol):
            return "simplify:groups-terms-by-hash-mod-2pi"
    except Exception:  # noqa: BLE001
        pass
    try:
        if _model_fracpow_angle(opzoo, tree, W, M, tol):
            return "simplify:pow-frac:angle-not-principal"
    except Exception:  # noqa: BLE001
        pass
    try:
        if _model_u2_sign(opzoo, tree, W, M, tol):
            return "simplify:U2-special-case-sign"
    except Exception:  # noqa: BLE001
        pass
    try:
        if _model_rot_hadamard(opzoo, tree, W, M, tol):
            return "simplify:Rot-to-Hadamard-drops-phase"
    except Exception:  # noqa: BLE001
        pass
    try:
        if "simplify" in _kinds(tree, []) and _counterfactual_hash(qp, opzoo, tree, W, R, tol):
            return "simplify:groups-terms-by-hash-mod-2pi"
    except Exception:  # noqa: BLE001
        pass
    try:
        if _model_fracpow_branch(opzoo, tree, W, M, tol):
            return "simplify:pow-frac:other-branch"
    except Exception:  # noqa: BLE001
        pass
    inner = children[0]
    tag = inner["op"] if inner["op"] != "leaf" else inner["name"]
    return f"arith:{k}:{type(op).__name__}<-{tag}"


def _ctrl_values_exhaustive(ctx, qp, opzoo, sv):
    """All control-value strings for 1..3 controls over a few bases (specialised and generic)."""
    from pv.gen import num
    rng = ctx.stream(5)
    bases = [("PauliX", 1, 0), ("PauliY", 1, 0), ("PauliZ", 1, 0), ("Hadamard", 1, 0), ("RX", 1, 1), ("PhaseShift", 1, 1), ("Rot", 1, 3),
             ("SWAP", 2, 0), ("IsingXY", 2, 1), ("CNOT", 2, 0), ("CRY", 2, 1), ("GlobalPhase", 0, 1), ("S", 1, 0)]
    idx = 10_000_000
    for name, nw, npar in bases:
        for nc in (1, 2, 3):
            for vals in itertools.product([0, 1], repeat=nc):
                if not ctx.more():
                    return
                idx += 1
                ctx.case_index = idx
                tw = ["t0", "t1"][:nw]
                tree = {"op": "ctrl", "control": ["c0", "c1", "c2"][:nc], "values": list(vals), "work_wires": [],
                        "arg": _L(name, tw, [num.angle(rng) for _ in range(npar)])}
                trace = []
                try:
                    opzoo.build(qp, tree, trace=trace)
                except opzoo.ExprBuildError as e:
                    _on_raise(ctx, e.kind, e.tree, e.exc, "construct", trace)
                _check_trace(ctx, qp, opzoo, sv, trace, rng, "ctrl-exhaustive")
