"""C19 — transpile respects device connectivity.

Translation validation of every program ``qp.transforms.transpile`` returns (post-condition on ``Transform.tape_transform``):

* ``transpile.edges``        every multi-wire operator of the output acts on exactly two wires that form an (undirected) edge
                             of the coupling map;
* ``transpile.equiv``        the output program equals the input up to the wire permutation sigma that transpile applied to the
                             measurements (sigma is read off the re-labelled measurements — the workload always ends the measurement
                             list with ``probs`` over all circuit wires): for every basis input on the circuit wires (extra coupling-map
                             nodes in |0>), the output state has logical wire w on physical wire sigma(w), all other nodes back in |0>,
                             and equals U_in|x> (reference simulator, up to a global phase);
* ``transpile.measurements`` every measurement of the output tape evaluated by the reference on the output program equals the
                             corresponding measurement of the input tape on the input program;
* ``transpile.postprocessing`` with ``device=...`` and a ``state`` measurement: the returned post-processing applied to the reference
                             results of the output tape gives the input tape's results (state transposed back to device order);
* ``transpile.accepts``      connected map covering the wires + 1/2-qubit gates + non-tensor observables => no exception.
"""
import warnings

import numpy as np

from pv.ctx import fingerprint

META = {
    "id": "C19",
    "level": "translation_validation",
    "technique": "translation validation of every transpiled program: edge-membership post-condition + reference-simulator equivalence up to the "
                 "measurement wire permutation read off the returned measurements",
    "level_text": "Every output of the real transpile on generated circuits (3-6 coupling-map nodes; paths, rings, stars, random trees and "
                  "denser connected graphs; unused extra nodes; int/str/mixed labels; edge-list / networkx / dict / adjacency-matrix map formats; "
                  "with and without device=) is checked gate by gate against the map and simulated by the independent reference against its "
                  "source. Decided per produced program.",
    "level_note": "Trusted: numpy, the documented gate table (pv/ref/gates.py), networkx only for building the workload graphs (edge membership is "
                  "tested against the harness's own edge set). Equivalence is demanded up to a global phase (the statement's 'equals' is about the "
                  "wire permutation; exact-phase mismatches are counted in evidence, never a verdict). sigma is identified from the final "
                  "probs(all wires) measurement, so a transpile that relabelled nothing and routed nothing is still compared exactly.",
    "shards": {"quick": 2, "thorough": 16},
    "budget_s": {"quick": 70, "thorough": 400},
    "min_evals": {"quick": 600, "thorough": 8000},
    "deciding": ["transpile.edges", "transpile.equiv", "transpile.measurements", "transpile.accepts"],
    "rule": "case = (circuit, measurement list, coupling graph, map format, device option); distinct = fingerprint of (tape structure, sorted edge "
            "set, format, device); non-trivial = at least one two-qubit gate of the input was not on an edge (routing needed, SWAPs inserted)",
    "assumptions": ["coupling maps are connected and cover the circuit's wires (statement's domain); disconnected maps / 3-qubit gates / tensor "
                    "observables are documented rejections"],
    "allow_rejections": True,
}

TOL = 1e-7


class Validator:
    def __init__(self, ctx):
        self.ctx = ctx
        self.info = {}

    def witness(self, tape, new, extra=None):
        from pv.gen import circ
        w = {"input": circ.describe(tape), "output": circ.describe(new) if new is not None else None, **{k: v for k, v in self.info.items() if k in ("edges", "format", "device", "nodes")}}
        if extra:
            w.update(extra)
        return w

    def __call__(self, name, tape, args, kwargs, out, depth):
        from pv.mon import c17_tv as tv
        from pv.ref import sv
        ctx = self.ctx
        tapes, fn = out
        new = tapes[0]
        ctx.count("programs")
        info = self.info
        edges = info["edgeset"]
        # ---- (1) connectivity
        ctx.ev("transpile.edges")
        for i, o in enumerate(new.operations):
            if len(o.wires) >= 2:
                if len(o.wires) != 2 or frozenset(o.wires) not in edges:
                    ctx.violation("transpile.edges", f"output operator #{i} {o.name} on wires {list(o.wires)} is not on an edge of the coupling map",
                                  case=self.witness(tape, new, {"op_index": i}), mech="off-edge-gate")
                    return
        # ---- (2) equivalence up to the measurement permutation
        W = list(tape.wires)
        ms_in, ms_out = list(tape.measurements), list(new.measurements)
        ctx.ev("transpile.measurements")
        if len(ms_in) != len(ms_out):
            ctx.violation("transpile.measurements", f"{len(ms_in)} measurements became {len(ms_out)}", case=self.witness(tape, new), mech="measurement-count")
            return
        last_in, last_out = ms_in[-1], ms_out[-1]
        sigma = None
        if type(last_in).__name__ == "ProbabilityMP" and list(last_in.wires) == W and type(last_out).__name__ == "ProbabilityMP" and len(last_out.wires) == len(W):
            sigma = dict(zip(W, list(last_out.wires)))
        if sigma is None or len(set(sigma.values())) != len(W):
            ctx.inconclusive_case("cannot read the wire permutation from the measurements")
            return
        A = list(W)
        for w in list(sigma.values()) + [w for o in new.operations for w in o.wires]:
            if w not in A:
                A.append(w)
        if len(A) > 9:
            ctx.inconclusive_case(f"{len(A)} wires")
            return
        try:
            U_in, f1 = tv.unitary(list(tape.operations), W)
            g_out, nind, ntot = tv.gate_list(list(new.operations))
        except tv.NoRef as e:
            ctx.inconclusive_case(f"no reference: {e}")
            return
        nW, nA = len(W), len(A)
        T = np.zeros([2] * nA + [2**nW], dtype=complex)
        for x in range(2**nW):
            bits = [int(c) for c in format(x, f"0{nW}b")] if nW else []
            T[tuple(bits + [0] * (nA - nW) + [x])] = 1.0
        for M, ws in g_out:
            T = sv.apply_tensor(T, M, [A.index(w) for w in ws])
        phys = [sigma[w] for w in W]
        rest = [a for a in A if a not in phys]
        T2 = np.transpose(T, [A.index(w) for w in phys] + [A.index(w) for w in rest] + [nA])
        V = T2[(slice(None),) * nW + (0,) * len(rest) + (slice(None),)].reshape(2**nW, 2**nW)
        ctx.ev("transpile.equiv")
        leak = abs(np.linalg.norm(V) ** 2 - 2**nW) / 2**nW
        d = tv.udist(V, U_in)
        if leak > TOL or not d <= TOL:
            ctx.violation("transpile.equiv", f"output program is not the input up to the measurement wire permutation {sigma} "
                                             f"(distance {d:.3e}, weight outside the permuted register {leak:.3e})",
                          case=self.witness(tape, new, {"sigma": {str(k): str(v) for k, v in sigma.items()}}), mech="semantics:routing", observed=d)
            return
        if tv.udist_exact(V, U_in) > TOL:
            ctx.count("exact_phase_mismatch")
        # ---- (3) measurement values
        psi_in = U_in[:, 0]
        psi_out = T.reshape(2**nA, 2**nW)[:, 0]
        dev_w = info.get("device_wires")
        for i, (a, b) in enumerate(zip(ms_in, ms_out)):
            ta = type(a).__name__
            if ta == "StateMP" or (not list(a.wires) and a.obs is None):
                continue  # handled by the post-processing monitor below
            try:
                ra = tv.measure(psi_in, W, a)
                rb = tv.measure(psi_out, A, b)
            except tv.NoRef:
                ctx.count("measurements_without_reference")
                continue
            ok, err = tv.results_close(rb, ra, TOL * 8)
            if not ok:
                ctx.violation("transpile.measurements", f"measurement {i} ({a!r} -> {b!r}): reference value on the output program differs by {err:.3e}",
                              case=self.witness(tape, new, {"measurement": i}), mech="measurement-remap", observed=rb, expected=ra)
                return
        # ---- (4) device option: full results through the returned post-processing
        if dev_w is not None:
            D = list(dev_w) + [a for a in A if a not in dev_w]
            extra_n = len(D) - len(dev_w)
            # states in device wire order (extras, if any, are |0> and sliced away)
            full_in = sv.run(tv.gate_list(list(tape.operations))[0], D)
            full_out = sv.run(g_out, D)

            def dev_state(psi):
                t = psi.reshape([2] * len(D))
                return t[(slice(None),) * len(dev_w) + (0,) * extra_n].reshape(-1)

            res_out, res_in, ok_ref = [], [], True
            for a, b in zip(ms_in, ms_out):
                try:
                    if type(b).__name__ == "StateMP":
                        res_out.append(dev_state(full_out))
                    else:
                        res_out.append(tv.measure(full_out, D, b))
                    if type(a).__name__ == "StateMP":
                        res_in.append(dev_state(full_in))
                    elif not list(a.wires) and a.obs is None and type(a).__name__ == "ProbabilityMP":
                        res_in.append(sv.probs(full_in, D, list(dev_w)))
                    else:
                        res_in.append(tv.measure(full_in, D, a))
                except tv.NoRef:
                    ok_ref = False
                    break
            if ok_ref:
                ctx.ev("transpile.postprocessing")
                try:
                    got = fn((tuple(res_out) if len(res_out) > 1 else res_out[0],))
                except Exception as e:  # noqa: BLE001
                    ctx.violation("transpile.postprocessing", f"post-processing raised {type(e).__name__}: {e}", case=self.witness(tape, new), mech="postprocessing-raises")
                    return
                got = list(got) if len(res_out) > 1 else [got]
                for i, (g, r) in enumerate(zip(got, res_in)):
                    ok, err = tv.results_close(np.asarray(g), np.asarray(r), TOL * 8)
                    if not ok:
                        ctx.violation("transpile.postprocessing", f"post-processed result {i} ({ms_in[i]!r}) differs from the input tape's by {err:.3e}",
                                      case=self.witness(tape, new, {"measurement": i}), mech="state-transposition" if type(ms_in[i]).__name__ == "StateMP" else "postprocessing-result")
                        return


def gen_case(qp, rng, gen, g17):
    from pv.gen import num
    from pv.ref import sv
    n = int(rng.integers(3, 7))
    labels = num.wire_labels(rng, n)
    eidx = g17.random_connected_graph(rng, n)
    edges = [(labels[a], labels[b]) for a, b in eidx]
    k = n if rng.random() < 0.6 else int(rng.integers(2, n + 1))
    W = g17.some_wires(rng, labels, k)
    ops = []
    pool1 = ["PauliX", "PauliY", "PauliZ", "Hadamard", "S", "T", "SX", "RX", "RY", "RZ", "PhaseShift", "Rot", "U3"]
    pool2 = ["CNOT", "CZ", "CY", "CH", "SWAP", "ISWAP", "CRX", "CRY", "CRZ", "ControlledPhaseShift", "IsingXX", "IsingYY", "IsingZZ", "IsingXY", "CRot",
             "PSWAP", "ECR", "SISWAP", "SingleExcitation", "CNOT", "CNOT", "CZ"]
    for _ in range(int(rng.integers(2, 13))):
        r = rng.random()
        if r < 0.35 or len(W) < 2:
            ops.append(g17.gate(qp, rng, g17.pick(rng, pool1), [g17.pick(rng, W)]))
        elif r < 0.9:
            ops.append(g17.gate(qp, rng, g17.pick(rng, pool2), g17.some_wires(rng, W, 2)))
        elif r < 0.94:
            ops.append(qp.QubitUnitary(sv.haar_unitary(rng, 4), wires=g17.some_wires(rng, W, 2)))
        elif r < 0.97:
            ws = g17.some_wires(rng, W, 2)
            ops.append(qp.ctrl(g17.gate(qp, rng, g17.pick(rng, ["S", "T", "RX", "PhaseShift", "Hadamard"]), [ws[1]]), control=[ws[0]], control_values=[int(rng.integers(2))]))
        elif r < 0.985:
            ops.append(qp.GlobalPhase(num.angle(rng)))
        else:
            ops.append(qp.adjoint(g17.gate(qp, rng, g17.pick(rng, ["CRX", "ISWAP", "IsingXY", "S"]), g17.some_wires(rng, W, 2))))
    Wt = []
    for o in ops:
        for w in o.wires:
            if w not in Wt:
                Wt.append(w)
    if not Wt:
        ops.append(qp.Hadamard(W[0]))
        Wt = [W[0]]
    # measurements: single-wire / Hermitian / projector observables (tensor products are a documented rejection), probs on subsets
    ms = []
    for _ in range(int(rng.integers(0, 3))):
        r = rng.random()
        if r < 0.4:
            ob = getattr(qp, "Pauli" + "XYZ"[int(rng.integers(3))])(g17.pick(rng, Wt))
            ms.append(qp.expval(ob) if rng.random() < 0.7 else qp.var(ob))
        elif r < 0.55:
            ms.append(qp.expval(gen.random_observable(qp, rng, Wt, ("herm", "proj"))))
        elif r < 0.65:
            ms.append(qp.expval(float(rng.normal()) * getattr(qp, "Pauli" + "XYZ"[int(rng.integers(3))])(g17.pick(rng, Wt))))
        elif r < 0.9:
            ms.append(qp.probs(wires=g17.some_wires(rng, Wt, int(rng.integers(1, len(Wt) + 1)))))
        else:
            ms.append(qp.expval(gen.pauli_word_obs(qp, rng, Wt)))  # may be a tensor product -> documented NotImplementedError
    device = rng.random() < 0.35
    if device and rng.random() < 0.6:
        ms.insert(0, qp.state())
    if device and rng.random() < 0.3:
        ms.insert(0, qp.probs())
    tape = qp.tape.QuantumScript(ops, ms)
    tape = qp.tape.QuantumScript(ops, ms + [qp.probs(wires=list(tape.wires))])
    fmt = ["edges", "nx", "dict", "adj"][int(rng.integers(4))]
    if fmt == "adj" and labels != list(range(n)):
        fmt = "edges"
    return tape, labels, edges, fmt, device


def run(ctx):
    import networkx as nx
    import pennylane as qp

    from pv.gen import c17_circ as g17
    from pv.gen import circ as gen
    from pv.mon import c17_tv as tv

    warnings.filterwarnings("ignore")
    _v = ctx.violation

    def violation(monitor, message, case=None, mech=None, observed=None, expected=None):
        return _v(monitor, f"{message} [mech={mech}]", case=case, mech=mech, observed=observed, expected=expected)

    ctx.violation = violation
    V = Validator(ctx)
    tv.install_pure(ctx)
    tv.install(ctx, {"transpile": V})
    N = ctx.n(700, 60000)
    for j in range(N):
        if not ctx.more():
            break
        idx = j * ctx.nshards + ctx.shard
        if ctx.only_case is not None and idx != ctx.only_case:
            continue
        ctx.case_index = idx
        rng = ctx.case_rng(idx)
        try:
            tape, labels, edges, fmt, device = gen_case(qp, rng, gen, g17)
        except Exception as e:  # noqa: BLE001
            ctx.inconclusive_case(f"generator failed: {type(e).__name__}: {e}")
            continue
        edgeset = {frozenset(e) for e in edges}
        if fmt == "edges":
            cmap = list(edges)
        elif fmt == "nx":
            cmap = nx.Graph(edges)
        elif fmt == "dict":
            cmap = {}
            for a, b in edges:
                cmap.setdefault(a, []).append(b)
                cmap.setdefault(b, [])
        else:
            n = len(labels)
            cmap = np.zeros((n, n), dtype=int)
            for a, b in edges:
                cmap[a, b] = cmap[b, a] = 1
        kw = {}
        dev_w = None
        if device:
            dev = qp.device("default.qubit", wires=labels)
            kw["device"] = dev
            dev_w = list(dev.wires)
        V.info = {"edgeset": edgeset, "edges": [[str(a), str(b)] for a, b in edges], "format": fmt, "device": bool(device), "device_wires": dev_w,
                  "nodes": [str(x) for x in labels]}
        needs_routing = any(len(o.wires) == 2 and frozenset(o.wires) not in edgeset for o in tape.operations)
        desc = {"tape": gen.describe(tape), "edges": V.info["edges"], "format": fmt, "device": bool(device)}
        fp = fingerprint(gen.tape_struct(tape), sorted(sorted(str(x) for x in e) for e in edgeset), fmt, device)
        ctx.ev("transpile.accepts")
        try:
            qp.transforms.transpile(tape, cmap, **kw)
        except NotImplementedError as e:
            tensor = any(type(getattr(m, "obs", None)).__name__ in ("Prod", "LinearCombination") for m in tape.measurements)
            if tensor or any(len(o.wires) > 2 for o in tape.operations):
                ctx.reject("tensor-observable" if tensor else "3q-gate")
                ctx.case(fp, nontrivial=False, cls="rejected")
            else:
                ctx.case(fp, nontrivial=needs_routing, cls="raised", sample=desc)
                ctx.violation("transpile.accepts", f"transpile raised NotImplementedError: {e}", case=desc, mech="raises:NotImplementedError")
            continue
        except Exception as e:  # noqa: BLE001
            import traceback
            tb = traceback.extract_tb(e.__traceback__)
            where = next((f"{fr.filename.split('/pennylane/')[-1]}:{fr.name}" for fr in reversed(tb) if "/pennylane/" in fr.filename), "?")
            ctx.case(fp, nontrivial=needs_routing, cls="raised", sample=desc)
            ctx.violation("transpile.accepts", f"transpile raised {type(e).__name__}: {str(e)[:300]} (at {where})", case=desc,
                          mech=f"raises:{type(e).__name__}:{where.split(':')[-1]}")
            continue
        ctx.case(fp, nontrivial=needs_routing, cls=("device:" if device else "plain:") + fmt, sample=desc)
