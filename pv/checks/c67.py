"""C67 — OpenQASM export preserves the circuit (translation validation).

Every generated circuit is exported with the real ``qp.to_openqasm`` and the produced TEXT is validated against its source:

* ``qasm2.valid``     the text is an OpenQASM 2.0 program for an independent interpreter (pv/ref/c67_qasm.py: qelib1.inc gates defined from U/CX).
* ``qasm2.unitary``   unitary denoted by the text (wire i -> q[i]) == reference unitary of the tape's operations (pv/ref/bridge.py), exactly when all
                      emitted gates have qelib1 definitions that coincide with PennyLane's matrices (everything but ``rz``), otherwise up to a global phase;
                      with ``rotations=True`` the extra part must diagonalise every measured observable; with ``precision=p`` the deviation is bounded
                      by the rounding of the parameters to p decimal digits (documented meaning of ``precision``).
* ``qasm2.measure``   measured register: ``measure_all`` -> ``measure q[i] -> c[i]`` for every wire; otherwise the terminally measured wires, in order,
                      from the qubits they occupy in the requested wire order.
* ``qasm3.semantics`` programs generated from a Python-side model whose flattened gate list is known (gate calls, inv/pow/ctrl/negctrl modifiers,
                      for loops over ranges/sets, if/else, constants and arithmetic, user gates, gphase) are imported with ``qp.from_qasm3`` and the
                      recorded operations' unitary must equal the model's (up to global phase).
Extra (not deciding): ``selftest.pyzx`` the interpreter vs ``pyzx.Circuit.from_qasm(...).to_matrix()`` on the exported text where pyzx accepts it.
"""
import math

import numpy as np

from pv.ctx import fingerprint
from pv.ref.c60_limit import violation as _violation

META = {
    "id": "C67",
    "level": "translation_validation",
    "technique": "per-program validation of qp.to_openqasm output with an independent OpenQASM 2.0 interpreter (unitary + measured register); "
                 "generator-side semantics for qp.from_qasm3 imports",
    "level_text": "Each run validates every produced program against its source circuit: the OpenQASM text is parsed and evaluated by an interpreter that "
                  "shares no code with PennyLane (gate library from the qelib1.inc definitions, cross-checked with pyzx) and compared with dense "
                  "reference simulation of the tape; QASM3 programs come from a generator that knows their flattened meaning.",
    "level_note": "No third-party full OpenQASM implementation is installed (qiskit absent; cirq's parser needs ply): R-QASM + pyzx stand in. qp.from_qasm "
                  "(OpenQASM 2 importer) needs qiskit and is unreachable. Mid-circuit measurements / conditionals are not exported in the workload "
                  "(non-unitary). U convention: U(theta,phi,lambda) as in the current spec / Qiskit; rz is the only emitted gate whose qelib1 "
                  "definition differs from PennyLane's matrix (by a global phase). QASM3: only the generated subset; the line include 'stdgates.inc' is "
                  "rejected by the importer (NotImplementedError) and therefore not emitted.",
    "shards": {"quick": 3, "thorough": 16},
    "budget_s": {"quick": 150, "thorough": 600},
    "min_evals": {"quick": 600, "thorough": 20000},
    "deciding": ["qasm2.valid", "qasm2.unitary", "qasm2.measure", "qasm3.semantics"],
    "rule": "program = (circuit, wire order, rotations, measure_all, precision) resp. generated QASM3 text; distinct = distinct text; non-trivial = at "
            "least one parametrised or multi-qubit gate",
    "assumptions": ["R-QASM implements qelib1.inc faithfully (self-tested against the gate table and pyzx)"],
}

EXACT_QELIB = {"cx", "cz", "u3", "u2", "u1", "id", "x", "y", "z", "h", "s", "sdg", "t", "tdg", "rx", "ry", "crx", "cry", "crz", "swap", "ccx", "cswap"}


# ----------------------------------------------------------------------------------------------- QASM 2 export
def gen_ops(qp, rng, labels, depth, decomposed, gphase):
    from pv.gen import num

    n = len(labels)
    ops = []
    nontriv = False

    def w(k):
        return [labels[int(i)] for i in rng.choice(n, size=k, replace=False)]

    native1 = ["Identity", "X", "Y", "Z", "H", "S", "Sdg", "T", "Tdg", "RX", "RY", "RZ", "U1", "U2", "U3", "PhaseShift"]
    native2 = ["CNOT", "CZ", "CRX", "CRY", "CRZ", "SWAP"]
    native3 = ["Toffoli", "CSWAP"]
    extra1 = ["SX", "Rot", "RXdg", "QubitUnitary1", "powX"]
    extra2 = ["CY", "CH", "ISWAP", "IsingXX", "IsingYY", "IsingZZ", "ControlledPhaseShift", "CRot", "MultiRZ2", "PauliRot2", "ctrlRY"]
    extra3 = ["CCZ", "MultiRZ3"]
    for _ in range(depth):
        a = num.angle(rng)
        b, c = num.angle(rng), num.angle(rng)
        r = rng.random()
        pool = []
        if n >= 3 and r < 0.12:
            pool = native3 + (extra3 if decomposed else [])
        elif n >= 2 and r < 0.5:
            pool = native2 + (extra2 if decomposed else [])
        else:
            pool = native1 + (extra1 if decomposed else [])
        g = pool[int(rng.integers(len(pool)))]
        if gphase and rng.random() < 0.15:
            ops.append(qp.GlobalPhase(a))
            continue
        mk = {
            "Identity": lambda: qp.Identity(w(1)), "X": lambda: qp.X(w(1)[0]), "Y": lambda: qp.Y(w(1)[0]), "Z": lambda: qp.Z(w(1)[0]), "H": lambda: qp.Hadamard(w(1)[0]),
            "S": lambda: qp.S(w(1)[0]), "Sdg": lambda: qp.adjoint(qp.S(w(1)[0])), "T": lambda: qp.T(w(1)[0]), "Tdg": lambda: qp.adjoint(qp.T(w(1)[0])),
            "RX": lambda: qp.RX(num.container(rng, a), w(1)[0]), "RY": lambda: qp.RY(num.container(rng, a), w(1)[0]), "RZ": lambda: qp.RZ(num.container(rng, a), w(1)[0]),
            "U1": lambda: qp.U1(a, w(1)[0]), "U2": lambda: qp.U2(a, b, w(1)[0]), "U3": lambda: qp.U3(a, b, c, w(1)[0]), "PhaseShift": lambda: qp.PhaseShift(a, w(1)[0]),
            "CNOT": lambda: qp.CNOT(w(2)), "CZ": lambda: qp.CZ(w(2)), "CRX": lambda: qp.CRX(a, w(2)), "CRY": lambda: qp.CRY(a, w(2)), "CRZ": lambda: qp.CRZ(a, w(2)),
            "SWAP": lambda: qp.SWAP(w(2)), "Toffoli": lambda: qp.Toffoli(w(3)), "CSWAP": lambda: qp.CSWAP(w(3)),
            "SX": lambda: qp.SX(w(1)[0]), "Rot": lambda: qp.Rot(a, b, c, w(1)[0]), "RXdg": lambda: qp.adjoint(qp.RX(a, w(1)[0])),
            "QubitUnitary1": lambda: qp.QubitUnitary(haar(rng, 2), w(1)), "powX": lambda: qp.pow(qp.X(w(1)[0]), 2),
            "CY": lambda: qp.CY(w(2)), "CH": lambda: qp.CH(w(2)), "ISWAP": lambda: qp.ISWAP(w(2)), "IsingXX": lambda: qp.IsingXX(a, w(2)), "IsingYY": lambda: qp.IsingYY(a, w(2)),
            "IsingZZ": lambda: qp.IsingZZ(a, w(2)), "ControlledPhaseShift": lambda: qp.ControlledPhaseShift(a, w(2)), "CRot": lambda: qp.CRot(a, b, c, w(2)),
            "MultiRZ2": lambda: qp.MultiRZ(a, w(2)), "PauliRot2": lambda: qp.PauliRot(a, "XY", w(2)), "ctrlRY": lambda: (lambda ws: qp.ctrl(qp.RY(a, ws[1]), control=ws[0]))(w(2)),
            "CCZ": lambda: qp.CCZ(w(3)), "MultiRZ3": lambda: qp.MultiRZ(a, w(3)),
        }[g]
        ops.append(mk())
        nontriv = nontriv or g not in ("Identity", "X", "Y", "Z", "H", "S", "Sdg", "T", "Tdg")
    return ops, nontriv


def haar(rng, d):
    G = rng.normal(size=(d, d)) + 1j * rng.normal(size=(d, d))
    Q, R = np.linalg.qr(G)
    dg = np.diag(R)
    return Q * (dg / np.abs(dg))


PAULI = {"X": np.array([[0, 1], [1, 0]], dtype=complex), "Y": np.array([[0, -1j], [1j, 0]], dtype=complex), "Z": np.array([[1, 0], [0, -1]], dtype=complex),
         "H": np.array([[1, 1], [1, -1]], dtype=complex) / math.sqrt(2)}


def gen_measurements(qp, rng, used):
    """Returns (measurement list, [(matrix, wires)] observables to be diagonalised, measured wires in order or None for 'all')."""
    kind = ["none", "sample_all", "sample_wires", "expval", "probs_wires", "multi", "expval_noncommuting_free"][int(rng.integers(6))]
    cls = {"X": qp.X, "Y": qp.Y, "Z": qp.Z, "H": qp.Hadamard}
    if kind == "none":
        return [], [], []
    if kind == "sample_all":
        return [qp.sample()], [], None
    k = int(rng.integers(1, len(used) + 1))
    ws = [used[int(i)] for i in rng.choice(len(used), size=k, replace=False)]
    if kind == "sample_wires":
        return [qp.sample(wires=ws)], [], ws
    if kind == "probs_wires":
        return [qp.probs(wires=ws)], [], ws
    letters = [["X", "Y", "Z", "H"][int(rng.integers(4))] for _ in ws]
    obs_list = [(PAULI[l], [w_]) for l, w_ in zip(letters, ws)]
    ops = [cls[l](w_) for l, w_ in zip(letters, ws)]
    O = ops[0]
    for o in ops[1:]:
        O = O @ o
    if kind == "expval":
        return [qp.expval(O)], obs_list, ws
    # several measurements on disjoint wires
    rest = [w_ for w_ in used if w_ not in ws]
    ms = [qp.expval(O)]
    mw = list(ws)
    if rest:
        ms.append(qp.probs(wires=[rest[0]]) if rng.random() < 0.5 else qp.var(qp.X(rest[0])))
        if isinstance(ms[-1].obs, qp.X):
            obs_list.append((PAULI["X"], [rest[0]]))
        mw.append(rest[0])
    return ms, obs_list, mw


def export_case(ctx, qp, rng, gi):
    from pv.gen import num
    from pv.ref import bridge, sv
    from pv.ref import c67_qasm as Q

    n = int(rng.integers(1, 5 if ctx.quick else 6))
    labels = num.wire_labels(rng, n)
    decomposed = rng.random() < 0.35
    gphase = rng.random() < 0.06
    ops, nontriv = gen_ops(qp, rng, labels, int(rng.integers(1, 4 * n + 4)), decomposed, gphase)
    used = []
    for o in ops:
        for w_ in o.wires:
            if w_ not in used:
                used.append(w_)
    if not used:
        ops.append(qp.Hadamard(labels[0]))
        used = [labels[0]]
    ms, obs_list, mwires = gen_measurements(qp, rng, used)
    for m in ms:
        for w_ in m.wires:
            if w_ not in used:
                used.append(w_)
    tape = qp.tape.QuantumScript(ops, ms)
    tw = list(tape.wires)
    wmode = ["default", "default", "perm", "superset"][int(rng.integers(4))]
    if wmode == "default":
        W_arg, W = None, tw
    elif wmode == "perm":
        W = [tw[int(i)] for i in rng.permutation(len(tw))]
        W_arg = W if rng.random() < 0.5 else qp.wires.Wires(W)
    else:
        extra = [x for x in ["zz", 99] if x not in tw][: int(rng.integers(1, 3))]
        W = tw + extra
        W = [W[int(i)] for i in rng.permutation(len(W))]
        W_arg = W
    rotations = bool(rng.random() < 0.6)
    measure_all = bool(rng.random() < 0.5)
    if mwires is None and not measure_all:
        measure_all = True  # 'all wires' measurements have no explicit wire list: only the measure_all form is specified
    precision = [None, None, 3, 8, 5][int(rng.integers(5))]
    via_qnode = bool(ms) and rng.random() < 0.15
    info = {"ops": [f"{o.name}{list(o.wires)}{[float(np.round(p, 6)) for p in o.parameters if np.ndim(p) == 0]}" for o in ops], "measurements": [repr(m) for m in ms],
            "wires_arg": None if W_arg is None else list(W), "tape_wires": tw, "rotations": rotations, "measure_all": measure_all, "precision": precision, "via_qnode": via_qnode}

    def viol(mon, msg, mech, obs=None, exp=None, text=None):
        c = dict(info)
        if text is not None:
            c["qasm"] = text[:3000]
        _violation(ctx, mon, msg, case=c, mech=mech, observed=obs, expected=exp)

    kwargs = dict(wires=W_arg, rotations=rotations, measure_all=measure_all, precision=precision)
    try:
        if via_qnode:
            def qfunc():
                for o in ops:
                    qp.apply(o)
                return [qp.apply(m) for m in ms]
            text = qp.to_openqasm(qp.QNode(qfunc, qp.device("default.qubit", wires=tw)), **kwargs)()
        else:
            text = qp.to_openqasm(tape, **kwargs)
    except Exception as e:  # noqa: BLE001
        ctx.ev("qasm2.valid")
        ctx.case(fingerprint("raise", repr(info)), nontrivial=nontriv, cls="export/raises")
        viol("qasm2.valid", f"to_openqasm raised {type(e).__name__}: {str(e)[:200]}", f"export:raises:{type(e).__name__}")
        return
    ctx.count("programs")
    ctx.case(fingerprint(text), nontrivial=nontriv, cls="export/" + ("decomposed" if decomposed else "native") + ("/gphase" if gphase else ""),
             sample={**info, "qasm": text[:600]} if rng.random() < 0.02 else None)
    # ---------------- validity
    ctx.ev("qasm2.valid")
    stripped_gphase = False
    try:
        P = Q.parse(text)
    except Q.QasmError as e:
        has_gphase = "gphase" in text
        viol("qasm2.valid", f"exported text is not OpenQASM 2.0 for the independent interpreter: {e}", "valid:gphase-not-in-openqasm2" if has_gphase else "valid:parse", text=text)
        if not has_gphase:
            return
        # keep validating the rest of the program: a parameterless-qubit 'gphase(x);' statement can only mean a global phase
        try:
            P = Q.parse("\n".join(l for l in text.splitlines() if not l.startswith("gphase(")))
            stripped_gphase = True
        except Q.QasmError:
            return
    if P.nq != len(W):
        viol("qasm2.valid", f"qreg size {P.nq} != number of wires {len(W)}", "valid:qreg-size", text=text)
        return
    # ---------------- unitary
    ref_ops = [o for o in ops]
    try:
        Uref, frac = bridge.tape_unitary(ref_ops, W)
    except Exception as e:  # noqa: BLE001
        ctx.inconclusive_case(f"reference unitary failed: {type(e).__name__}: {e}")
        return
    Uq = P.unitary()
    nparams = sum(len(p) for _, p, _ in P.applied)
    dim = 2 ** len(W)
    if precision is None:
        tol = 1e-9 * math.sqrt(dim)
        tol_sig = tol
    else:
        tol = math.sqrt(dim) * nparams * 0.5 * 10.0 ** (-precision) + 1e-9
        # what the bound would be if `precision` meant significant digits (the '{:.{p}}' format)
        allp = [abs(float(x)) for o in ops for x in o.parameters if np.ndim(x) == 0]
        big = max([1.0] + allp)
        tol_sig = math.sqrt(dim) * nparams * 0.5 * 10.0 ** (math.floor(math.log10(big)) + 1 - precision) * 3 + 1e-9
    ctx.ev("qasm2.unitary")
    names = {nm for nm, _, _ in P.applied}
    native_only = not decomposed and not gphase and not stripped_gphase

    def prec_or(mech, d, lim, lim_sig, msg):
        if precision is not None and d <= lim_sig:
            viol("qasm2.unitary", f"precision={precision}: exported parameters are rounded to {precision} significant digits, not {precision} decimal digits "
                                  f"(deviation {d:.3e} > {lim:.3e})", "precision:significant-digits-not-decimals", text=text)
        else:
            viol("qasm2.unitary", msg, mech, text=text)
    if rotations and obs_list:
        # the exported circuit may append diagonalising gates: V = Uq Uref^dag must make every measured observable diagonal
        V = Uq @ Uref.conj().T
        for M, ws in obs_list:
            Of = sv.embed(M, ws, W)
            D = V @ Of @ V.conj().T
            off = D - np.diag(np.diag(D))
            if np.linalg.norm(off) > max(tol * 4, 1e-8):
                prec_or("unitary:rotations", float(np.linalg.norm(off)), max(tol * 4, 1e-8), max(tol_sig * 4, 1e-8),
                        f"with rotations=True the exported circuit does not rotate into the eigenbasis of the observable on {ws} (off-diagonal norm {np.linalg.norm(off):.3e})")
                break
        # restricted to the other wires the circuit must still be the source circuit: compare after undoing V on the observable wires is not
        # possible in general; check instead that V acts trivially on unmeasured wires
        meas_w = sorted({w_ for _, ws in obs_list for w_ in ws}, key=W.index)
        others = [w_ for w_ in W if w_ not in meas_w]
        if others:
            # V = V_meas (x) I  <=>  partial trace structure: V commutes with every Pauli on the other wires
            for w_ in others:
                for l in "XZ":
                    Pw = sv.embed(PAULI[l], [w_], W)
                    dd = float(np.linalg.norm(V @ Pw - Pw @ V))
                    if dd > max(tol * 4, 1e-8):
                        prec_or("unitary:value", dd, max(tol * 4, 1e-8), max(tol_sig * 4, 1e-8),
                                f"exported circuit differs from the source on wire {w_!r} (not touched by any diagonalising gate)")
                        break
                else:
                    continue
                break
    else:
        if rotations is False or not obs_list:
            exact = native_only and names <= EXACT_QELIB
            d = sv.dist(Uq, Uref) if exact else sv.phase_dist(Uq, Uref)
            if d > tol:
                if precision is not None and d <= tol_sig:
                    viol("qasm2.unitary", f"precision={precision}: exported parameters are rounded to {precision} significant digits, not {precision} decimal digits "
                                          f"(unitary deviates by {d:.3e} > {tol:.3e})", "precision:significant-digits-not-decimals", text=text)
                else:
                    viol("qasm2.unitary", f"unitary of the exported program differs from the source circuit ({'exactly' if exact else 'up to phase'}): distance {d:.3e} "
                                          f"(tolerance {tol:.1e}; wires {W})", "unitary:phase" if (exact and sv.phase_dist(Uq, Uref) <= tol) else "unitary:value", text=text)
    # ---------------- measured register
    ctx.ev("qasm2.measure")
    got = [(q, cn, ci) for q, cn, ci in P.measures]
    if measure_all:
        exp = [(i, "c", i) for i in range(len(W))]
        csize = len(W)
    else:
        mw = []
        for m in ms:
            for w_ in m.wires:
                if w_ not in mw:
                    mw.append(w_)
        exp = [(W.index(w_), "c", k) for k, w_ in enumerate(mw)]
        csize = len(mw)
    if got != exp or (csize and P.cregs.get("c") != csize):
        wrong_q = [g for g, e in zip(got, exp) if g[0] != e[0]]
        mech = "measure:qubit-index-from-tape-wires" if (wrong_q and not measure_all and W != tw and len(got) == len(exp)
                                                       and [g[0] for g in got] == [tw.index(w_) for w_ in mw]) else "measure:register"
        viol("qasm2.measure", f"measured register {got} (creg c[{P.cregs.get('c')}]) but expected {exp} (creg c[{csize}]) for wires {W}, measure_all={measure_all}",
             mech, got, exp, text=text)
    # ---------------- interpreter self-test against pyzx (non-deciding)
    if rng.random() < 0.25 and len(W) <= 4:
        try:
            import pyzx

            body = "\n".join(l for l in text.splitlines() if not l.startswith(("measure", "creg")))
            Z = pyzx.Circuit.from_qasm(body).to_matrix()
            ctx.ev("selftest.pyzx")
            if sv.phase_dist(Uq, Z) > 1e-6 * math.sqrt(dim):
                ctx.inconclusive_case("R-QASM and pyzx disagree on an exported program")
        except Exception:  # noqa: BLE001 - pyzx does not support every gate
            ctx.count("pyzx_unsupported")


# ----------------------------------------------------------------------------------------------- QASM 3 import
class Q3Gen:
    """Generates an OpenQASM 3 program together with its meaning (a list of (matrix, qubit indices))."""

    ONE = {"x": "PauliX", "y": "PauliY", "z": "PauliZ", "h": "Hadamard", "s": "S", "t": "T", "sx": "SX", "id": "Identity"}
    ONE_INV = {"sdg": "S", "tdg": "T"}
    ONE_P = {"rx": "RX", "ry": "RY", "rz": "RZ", "p": "PhaseShift", "phase": "PhaseShift"}
    TWO = {"cx": "CNOT", "cy": "CY", "cz": "CZ", "ch": "CH", "swap": "SWAP"}
    TWO_P = {"cp": "ControlledPhaseShift", "crx": "CRX", "cry": "CRY", "crz": "CRZ"}
    THREE = {"ccx": "Toffoli", "cswap": "CSWAP"}

    def __init__(self, rng, n, feature):
        self.rng, self.n, self.feature = rng, n, feature
        self.lines = []
        self.gates = []   # (matrix, [qubit indices])
        self.uid = 0

    def q(self, i):
        return f"q[{i}]"

    def angle(self):
        """(text, value)"""
        r = self.rng.random()
        v = float(np.round(self.rng.uniform(-3, 3), 3))
        if r < 0.5:
            return repr(v), v
        if r < 0.65:
            k = int(self.rng.integers(1, 8))
            return f"pi/{k}", math.pi / k
        if r < 0.8:
            return f"2*{abs(v)!r}", 2 * abs(v)
        if r < 0.9:
            return f"-({abs(v)!r})", -abs(v)
        return f"{abs(v)!r} + pi/2", abs(v) + math.pi / 2

    def base_gate(self, max_q):
        """Random standard gate: (text without qubits, matrix, number of qubits)."""
        from pv.ref import gates as G

        rng = self.rng
        k = 1 if max_q == 1 else int(rng.choice([1, 1, 2, 2, 3][: (5 if max_q >= 3 else 4)]))
        if k == 1:
            r = rng.random()
            if r < 0.45:
                g = list(self.ONE)[int(rng.integers(len(self.ONE)))]
                return g, G.ref_matrix(self.ONE[g], [], 1, {}), 1
            if r < 0.55:
                g = list(self.ONE_INV)[int(rng.integers(2))]
                return g, G.ref_matrix(self.ONE_INV[g], [], 1, {}).conj().T, 1
            g = list(self.ONE_P)[int(rng.integers(len(self.ONE_P)))]
            t, v = self.angle()
            return f"{g}({t})", G.ref_matrix(self.ONE_P[g], [v], 1, {}), 1
        if k == 2:
            if rng.random() < 0.55:
                g = list(self.TWO)[int(rng.integers(len(self.TWO)))]
                return g, G.ref_matrix(self.TWO[g], [], 2, {}), 2
            g = list(self.TWO_P)[int(rng.integers(len(self.TWO_P)))]
            t, v = self.angle()
            return f"{g}({t})", G.ref_matrix(self.TWO_P[g], [v], 2, {}), 2
        g = list(self.THREE)[int(rng.integers(2))]
        return g, G.ref_matrix(self.THREE[g], [], 3, {}), 3

    def emit_gate(self, indent="", allow_mod=False, qubits=None, scale=None):
        from pv.ref import gates as G

        rng = self.rng
        nmods = int(rng.integers(0, 3)) if allow_mod else 0
        mods = [["inv", "pow", "ctrl", "negctrl"][int(rng.integers(4))] for _ in range(nmods)]
        nctrl = sum(m in ("ctrl", "negctrl") for m in mods)
        avail = self.n - nctrl
        if avail < 1:
            mods, nctrl, avail = [], 0, self.n
        text, M, k = self.base_gate(min(avail, 3))
        qs = [int(i) for i in rng.choice(self.n, size=k + nctrl, replace=False)] if qubits is None else qubits
        ctrl_qs, tgt_qs = qs[:nctrl], qs[nctrl:]
        # semantics: modifiers apply right to left; control qubits are listed first, in the order of the ctrl modifiers
        modtxt = []
        ctrl_iter = list(ctrl_qs)
        # innermost modifier is the last in text order
        plan = []
        for m in mods:
            if m == "pow":
                e = int(rng.integers(-2, 4))
                modtxt.append(f"pow({e}) @")
                plan.append(("pow", e))
            elif m == "inv":
                modtxt.append("inv @")
                plan.append(("inv", None))
            else:
                modtxt.append(f"{m} @")
                plan.append((m, None))
        # assign control qubits: the first ctrl modifier in the text takes the first listed qubit
        ci = 0
        assigned = []
        for kind, arg in plan:
            if kind in ("ctrl", "negctrl"):
                assigned.append((kind, ctrl_iter[ci]))
                ci += 1
            else:
                assigned.append((kind, arg))
        Mcur, qcur = M, list(tgt_qs)
        for kind, arg in reversed(assigned):
            if kind == "inv":
                Mcur = Mcur.conj().T
            elif kind == "pow":
                Mcur = np.linalg.matrix_power(Mcur, arg) if arg >= 0 else np.linalg.matrix_power(Mcur.conj().T, -arg)
            else:
                Mcur = G.controlled(Mcur, 1, [1 if kind == "ctrl" else 0])
                qcur = [arg] + qcur
        self.lines.append(f"{indent}{' '.join(modtxt)}{' ' if modtxt else ''}{text} {', '.join(self.q(i) for i in qs)};")
        self.gates.append((Mcur, qcur))

    def program(self):
        from pv.ref import gates as G

        rng, f = self.rng, self.feature
        self.lines.append(f"qubit[{self.n}] q;")
        for _ in range(int(rng.integers(1, 4))):
            self.emit_gate()
        if f == "modifiers":
            for _ in range(int(rng.integers(2, 6))):
                self.emit_gate(allow_mod=True)
        elif f in ("loop_range", "loop_range_step", "loop_set"):
            a = int(rng.integers(0, 3))
            b = a + int(rng.integers(1, 4))
            if f == "loop_range":
                vals, hdr = list(range(a, b + 1)), f"[{a}:{b}]"            # OpenQASM 3 ranges include the end point
            elif f == "loop_range_step":
                s = int(rng.integers(2, 4))
                vals, hdr = list(range(a, b + 3 + 1, s)), f"[{a}:{s}:{b + 3}]"
            else:
                vals = sorted({int(x) for x in rng.integers(0, 7, size=3)})
                hdr = "{" + ", ".join(map(str, vals)) + "}"
            qi = int(rng.integers(self.n))
            g = ["rx", "ry", "rz", "p"][int(rng.integers(4))]
            c = float(np.round(rng.uniform(0.1, 1.0), 2))
            self.lines.append(f"for int i in {hdr} {{")
            self.lines.append(f"    {g}(i * {c!r}) {self.q(qi)};")
            if self.n >= 2 and rng.random() < 0.5:
                qj = (qi + 1) % self.n
                self.lines.append(f"    cx {self.q(qi)}, {self.q(qj)};")
            else:
                qj = None
            self.lines.append("}")
            for v in vals:
                self.gates.append((G.ref_matrix(self.ONE_P[g], [v * c], 1, {}), [qi]))
                if qj is not None:
                    self.gates.append((G.ref_matrix("CNOT", [], 2, {}), [qi, qj]))
        elif f == "branch":
            kv = int(rng.integers(0, 6))
            thr = int(rng.integers(0, 6))
            op = ["<", ">", "==", "!=", ">=", "<="][int(rng.integers(6))]
            cond = {"<": kv < thr, ">": kv > thr, "==": kv == thr, "!=": kv != thr, ">=": kv >= thr, "<=": kv <= thr}[op]
            self.lines.append(f"int k = {kv};")
            self.lines.append(f"if (k {op} {thr}) {{")
            n0 = len(self.gates)
            self.emit_gate(indent="    ")
            then_g = self.gates[n0:]
            del self.gates[n0:]
            self.lines.append("} else {")
            self.emit_gate(indent="    ")
            else_g = self.gates[n0:]
            del self.gates[n0:]
            self.lines.append("}")
            self.gates.extend(then_g if cond else else_g)
        elif f == "const_arith":
            t = float(np.round(rng.uniform(0.1, 2.0), 3))
            k = int(rng.integers(1, 5))
            self.lines.append(f"const float t0 = {t!r};")
            self.lines.append(f"int kk = {k};")
            qi = int(rng.integers(self.n))
            forms = [(f"t0 * kk", t * k), (f"t0 / 2 + kk", t / 2 + k), (f"-t0", -t), (f"kk * pi / 8", k * math.pi / 8), (f"2 ** kk * 0.1", 2**k * 0.1), (f"(t0 + 1) * 2", (t + 1) * 2)]
            for txt, v in [forms[int(i)] for i in rng.permutation(len(forms))[:3]]:
                g = ["rx", "ry", "rz"][int(rng.integers(3))]
                self.lines.append(f"{g}({txt}) {self.q(qi)};")
                self.gates.append((G.ref_matrix(self.ONE_P[g], [v], 1, {}), [qi]))
        elif f == "custom_gate" and self.n >= 2:
            a = float(np.round(rng.uniform(-2, 2), 3))
            self.lines.append("gate mygate(p0) qa, qb {")
            self.lines.append("    rx(p0) qa;")
            self.lines.append("    cx qa, qb;")
            self.lines.append("    rz(p0 / 2) qb;")
            self.lines.append("}")
            qa, qb = [int(i) for i in rng.choice(self.n, size=2, replace=False)]
            self.lines.append(f"mygate({a!r}) {self.q(qa)}, {self.q(qb)};")
            self.gates += [(G.ref_matrix("RX", [a], 1, {}), [qa]), (G.ref_matrix("CNOT", [], 2, {}), [qa, qb]), (G.ref_matrix("RZ", [a / 2], 1, {}), [qb])]
        elif f == "gphase":
            g = float(np.round(rng.uniform(0.2, 2.5), 3))
            qi = int(rng.integers(self.n))
            self.lines.append(f"ctrl @ gphase({g!r}) {self.q(qi)};")          # spec: controlled global phase e^{+i g} = phase gate p(g)
            self.gates.append((G.ref_matrix("PhaseShift", [g], 1, {}), [qi]))
        elif f == "intdiv":
            a, b = int(rng.integers(3, 12)), int(rng.integers(2, 5))
            if a % b == 0:
                a += 1
            qi = int(rng.integers(self.n))
            self.lines.append(f"int j = {a} / {b};")                           # spec: integer division
            self.lines.append(f"rx(j) {self.q(qi)};")
            self.gates.append((G.ref_matrix("RX", [float(a // b)], 1, {}), [qi]))
        for _ in range(int(rng.integers(0, 3))):
            self.emit_gate()
        return "\n".join(self.lines) + "\n"


Q3_FEATURES = ["basic", "modifiers", "modifiers", "loop_range", "loop_range_step", "loop_set", "branch", "const_arith", "custom_gate", "gphase", "intdiv"]


def import_case(ctx, qp, rng, gi):
    from pv.ref import bridge, sv

    n = int(rng.integers(1, 5))
    feature = Q3_FEATURES[gi % len(Q3_FEATURES)]
    gen = Q3Gen(rng, n, feature)
    text = gen.program()
    order = [f"q[{i}]" for i in range(n)]
    use_map = rng.random() < 0.3
    wire_map = {f"q[{i}]": lab for i, lab in enumerate(["a", 5, "w2", 0][:n])} if False else None
    info = {"feature": feature, "qasm3": text, "n": n}
    ctx.count("programs")
    ctx.case(fingerprint(text), nontrivial=True, cls=f"qasm3/{feature}", sample=info if rng.random() < 0.03 else None)
    ctx.ev("qasm3.semantics")
    try:
        tape = qp.tape.make_qscript(qp.from_qasm3(text, wire_map))()
    except Exception as e:  # noqa: BLE001
        _violation(ctx, "qasm3.semantics", f"from_qasm3 raised {type(e).__name__}: {str(e)[:200]} on a program of the supported subset ({feature})", case=info,
                      mech=f"qasm3:raises:{feature}:{type(e).__name__}")
        return
    ops = [o for o in tape.operations]
    bad = [w_ for o in ops for w_ in o.wires if w_ not in order]
    if bad:
        _violation(ctx, "qasm3.semantics", f"imported operations act on unknown wires {bad[:3]}", case=info, mech="qasm3:custom-gate-formal-wires" if feature == "custom_gate" else "qasm3:wires")
        return
    try:
        U, _ = bridge.tape_unitary(ops, order)
    except Exception as e:  # noqa: BLE001
        ctx.inconclusive_case(f"reference of imported ops failed: {type(e).__name__}: {e}")
        return
    Uref = sv.unitary([(M, [order[i] for i in qs]) for M, qs in gen.gates], order)
    d = sv.phase_dist(U, Uref)
    if d > 1e-8 * math.sqrt(2**n):
        mech = {"loop_range": "qasm3:for-range-end-exclusive", "loop_range_step": "qasm3:for-range-end-exclusive", "gphase": "qasm3:gphase-sign",
                "intdiv": "qasm3:int-division"}.get(feature, f"qasm3:semantics:{feature}")
        _violation(ctx, "qasm3.semantics", f"imported circuit differs from the program's meaning (feature {feature}; {len(ops)} ops imported, {len(gen.gates)} expected; "
                                         f"phase-insensitive distance {d:.3e})", case={**info, "imported": [f'{o.name}{list(o.wires)}' for o in ops][:30]}, mech=mech)


# ----------------------------------------------------------------------------------------------- driver
def run(ctx):
    import warnings

    import pennylane as qp

    from pv.ref import c67_qasm as Q
    from pv.ref import gates as G
    from pv.ref import sv

    warnings.filterwarnings("ignore")
    # interpreter self-test: qelib1 definitions vs the independent gate table
    pairs = {"cx": ("CNOT", 0, 2), "cz": ("CZ", 0, 2), "u3": ("U3", 3, 1), "u2": ("U2", 2, 1), "u1": ("U1", 1, 1), "x": ("PauliX", 0, 1), "y": ("PauliY", 0, 1),
             "z": ("PauliZ", 0, 1), "h": ("Hadamard", 0, 1), "s": ("S", 0, 1), "t": ("T", 0, 1), "rx": ("RX", 1, 1), "ry": ("RY", 1, 1), "rz": ("RZ", 1, 1),
             "crx": ("CRX", 1, 2), "cry": ("CRY", 1, 2), "crz": ("CRZ", 1, 2), "swap": ("SWAP", 0, 2), "ccx": ("Toffoli", 0, 3), "cswap": ("CSWAP", 0, 3)}
    for qn, (pl, npar, nw) in pairs.items():
        p = [float(x) for x in ctx.rng.uniform(-6, 6, size=npar)]
        M, R = Q.lib_matrix(qn, p, nw), G.ref_matrix(pl, p, nw, {})
        ok = (sv.dist(M, R) < 1e-10) if qn in EXACT_QELIB else (sv.phase_dist(M, R) < 1e-10)
        ctx.ev("selftest.qelib")
        if not ok:
            ctx.inconclusive_case(f"R-QASM self-test failed for {qn}")
            return
    plan = [("export", ctx.n(360, 20000), export_case), ("import", ctx.n(165, 5000), import_case)]
    base = 0
    for kind, count, fn in plan:
        for i in range(count):
            if not ctx.more():
                return
            gi = base + i * ctx.nshards + ctx.shard
            if ctx.only_case is not None and gi != ctx.only_case:
                continue
            ctx.case_index = gi
            with ctx.guard(kind, "harness error"):
                fn(ctx, qp, ctx.case_rng(gi), gi)
        base += 10_000_000
