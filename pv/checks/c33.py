"""C33 — Device preprocessing yields executable, equivalent circuits.

Translation validation of ``dev.preprocess()`` (the transform program a device returns): for every generated circuit and
every built-in simulator device the program is applied to the circuit and each produced program is validated against
its source:

* ``pre.native``     – every output tape contains only operations / observables / measurements for which the device's own
  published predicates hold (``stopping_condition``, ``accepted_*_measurement``, ``observable_stopping_condition``,
  ``supports_operation`` …) and only wires of the device;
* ``pre.executable`` – independently of those predicates, the RAW ``dev.execute(tapes, config)`` (no preprocessing) of the
  output tapes does not raise;
* ``pre.equivalent`` – the post-processed results equal the R-SV reference of the ORIGINAL circuit (state up to a global
  phase; analytic execution), so an unsupported circuit can only be rejected (DeviceError / DecompositionError /
  WireError …), never silently altered;
* M-PURE (C18's ambient monitor) is installed: preprocessing must not modify its input tape.

The circuits contain templates (QFT, Angle/Basis/Amplitude embeddings, BasicEntangler and StronglyEntangling layers,
GroverOperator, exponentials of Pauli words), symbolic operators, gates without native support on the device,
non-commuting and non-Pauli observables, measurements unsupported for the shot mode, and odd wire labels.
"""
import warnings

import os

import numpy as np

from pv.ctx import CaseTimeout, fingerprint

META = {
    "id": "C33",
    "level": "translation_validation",
    "technique": "per-program translation validation of device preprocessing: membership of every output operation in the device's published supported set + raw device execution + result equivalence with an independent reference of the source circuit",
    "level_text": "Each run validates every preprocessed program it produces (programs = circuits x devices) against its source circuit; templates are "
                  "referenced by their documented definitions (DFT matrix for QFT, gate lists for the embeddings / layer templates), not by their decompositions.",
    "level_note": "Mid-circuit measurements and dynamic wire allocation are left to C21 / C22 (their preprocessing transforms are validated there). With finite "
                  "shots only nativeness, raw executability and result structure are checked (distribution agreement is C29). null.qubit: structure only. "
                  "Known defects of individual devices' simulation cores that C27 reports are tagged with C27's mechanism names.",
    "shards": {"quick": 3, "thorough": 9},
    "budget_s": {"quick": 110, "thorough": 180},
    "min_evals": {"quick": 1000, "thorough": 20000},
    "deciding": ["pre.native", "pre.executable", "pre.equivalent"],
    "rule": "case = (circuit spec, device, shots); distinct = content fingerprint x device; non-trivial = preprocessing changed the tape (decomposed an "
            "operation, split or diagonalised measurements, expanded a broadcast) rather than passing it through",
    "assumptions": ["template definitions transcribed from their docstrings", "reference gate table transcribes the documented formulas"],
}

ALLOWED = ("DeviceError", "DecompositionError", "DecompositionUndefinedError", "WireError", "QuantumFunctionError")
DEVICES = ["default.qubit", "default.mixed", "reference.qubit", "default.clifford", "default.tensor/mps", "default.tensor/tn", "null.qubit"]


# ----------------------------------------------------------------------------- templates: builder + documented definition
def rand_template(rng, gen, wires):
    n = len(wires)
    kind = ["qft", "angle", "basisemb", "bel", "sel", "expw", "grover"][int(rng.integers(7))]
    pick = lambda k: [wires[int(i)] for i in rng.choice(n, size=k, replace=False)]  # noqa: E731
    if kind == "qft":
        return {"t": "qft", "wires": pick(int(rng.integers(1, min(n, 4) + 1)))}
    if kind == "angle":
        k = int(rng.integers(1, n + 1))
        return {"t": "angle", "features": [float(x) for x in rng.uniform(-3, 3, size=k)], "wires": pick(k), "rotation": "XYZ"[int(rng.integers(3))]}
    if kind == "basisemb":
        k = int(rng.integers(1, n + 1))
        return {"t": "basisemb", "bits": [int(x) for x in rng.integers(0, 2, size=k)], "wires": pick(k)}
    if kind == "bel":
        k = int(rng.integers(1, n + 1))
        L = int(rng.integers(1, 3))
        return {"t": "bel", "weights": rng.uniform(-3, 3, size=(L, k)), "wires": pick(k), "rotation": "XYZ"[int(rng.integers(3))]}
    if kind == "sel":
        k = int(rng.integers(1, n + 1))
        L = int(rng.integers(1, 3))
        return {"t": "sel", "weights": rng.uniform(-3, 3, size=(L, k, 3)), "wires": pick(k)}
    if kind == "expw":
        k = int(rng.integers(1, min(n, 3) + 1))
        return {"t": "expw", "word": "".join(rng.choice(list("XYZ"), size=k)), "theta": float(rng.uniform(-3, 3)), "wires": pick(k)}
    return {"t": "grover", "wires": pick(int(rng.integers(2, n + 1)))} if n >= 2 else {"t": "qft", "wires": pick(1)}


def build_op(qp, gen, s):
    t = s["t"]
    rot = {"X": qp.RX, "Y": qp.RY, "Z": qp.RZ}
    if t == "qft":
        return qp.QFT(wires=s["wires"])
    if t == "angle":
        return qp.AngleEmbedding(s["features"], wires=s["wires"], rotation=s["rotation"])
    if t == "basisemb":
        return qp.BasisEmbedding(np.array(s["bits"]), wires=s["wires"])
    if t == "bel":
        return qp.BasicEntanglerLayers(s["weights"], wires=s["wires"], rotation=rot[s["rotation"]])
    if t == "sel":
        return qp.StronglyEntanglingLayers(s["weights"], wires=s["wires"])
    if t == "expw":
        fac = [getattr(qp, "Pauli" + c)(w) for c, w in zip(s["word"], s["wires"])]
        P = fac[0]
        for f in fac[1:]:
            P = P @ f
        return qp.exp(P, 1j * s["theta"])
    if t == "ampemb":
        return qp.AmplitudeEmbedding(s["vec"], wires=s["wires"], normalize=True)
    return gen.build_op(qp, s, lambda x: x)


def ref_gates(qp, gen, s):
    """[(matrix, wires)] by the documented definition of the template; None → use the operator reference (c26_ref)."""
    from pv.ref import gates as G
    t = s["t"]
    rot = {"X": G.rx, "Y": G.ry, "Z": G.rz}
    ws = s.get("wires")
    if t == "qft":
        N = 2 ** len(ws)
        j = np.arange(N)
        return [(np.exp(2j * np.pi * np.outer(j, j) / N) / np.sqrt(N), ws)]
    if t == "angle":
        return [(rot[s["rotation"]](f), [w]) for f, w in zip(s["features"], ws)]
    if t == "basisemb":
        return [(G.X, [w]) for b, w in zip(s["bits"], ws) if b]
    if t == "bel":
        out = []
        n = len(ws)
        for layer in s["weights"]:
            out += [(rot[s["rotation"]](a), [w]) for a, w in zip(layer, ws)]
            if n == 2:
                out.append((G.FIXED["CNOT"], [ws[0], ws[1]]))
            elif n > 2:
                out += [(G.FIXED["CNOT"], [ws[i], ws[(i + 1) % n]]) for i in range(n)]
        return out
    if t == "sel":
        out = []
        n = len(ws)
        for l, layer in enumerate(s["weights"]):
            out += [(G.rot(*layer[i]), [ws[i]]) for i in range(n)]
            if n > 1:
                r = (l % (n - 1)) + 1
                out += [(G.FIXED["CNOT"], [ws[i], ws[(i + r) % n]]) for i in range(n)]
        return out
    if t == "expw":
        P = G.pauli_word_matrix(s["word"])
        th = s["theta"]
        return [(np.cos(th) * np.eye(P.shape[0]) + 1j * np.sin(th) * P, ws)]
    return None


def spec_wires(gen, s):
    return list(s["wires"]) if s["t"] in ("qft", "angle", "basisemb", "bel", "sel", "expw", "ampemb") else gen.spec_wires(s)


def reference_state(qp, gen, spec, order):
    from pv.ref import c26_ref as R
    from pv.ref import sv
    n = len(order)
    T = sv.zero_state(n).reshape(-1)
    axes_of = {w: i for i, w in enumerate(order)}
    for s in spec["ops"]:
        if s["t"] == "ampemb":
            v = np.asarray(s["vec"], dtype=complex)
            v = v / np.linalg.norm(v)
            T = sv.embed(np.outer(v, np.eye(len(v))[0]), s["wires"], order) @ T  # |v><0| on fresh wires
            continue
        g = ref_gates(qp, gen, s)
        if g is None:
            op = gen.build_op(qp, s, lambda x: x)
            if s["t"] in ("basis", "prep"):
                T, _ = R.run([op], order) if not np.any(np.abs(T[1:]) > 0) else (None, None)
                if T is None:
                    raise R.NoRef("state preparation after other operations")
                continue
            Tt, _ = R.apply_op(T.reshape([2] * n), op, axes_of, None)
            T = Tt.reshape(-1)
        else:
            for M, ws in g:
                T = sv.apply_tensor(T.reshape([2] * n), M, [axes_of[w] for w in ws]).reshape(-1)
    return T


# ----------------------------------------------------------------------------- published predicates per device
def predicates(qp, name):
    import pennylane.devices.default_mixed as dm
    import pennylane.devices.default_qubit as dq
    import pennylane.devices.default_tensor as dt
    import pennylane.devices.reference_qubit as rq
    if name in ("default.qubit", "null.qubit"):
        return {"op": dq.stopping_condition, "analytic": dq.accepted_analytic_measurement, "sample": dq.accepted_sample_measurement}
    if name == "default.mixed":
        return {"op": dm.stopping_condition, "obs": dm.observable_stopping_condition}
    if name == "reference.qubit":
        return {"op": rq.supports_operation}
    if name.startswith("default.tensor"):
        return {"op": dt.stopping_condition, "obs": dt.accepted_observables}
    if name == "default.clifford":
        import pennylane.devices.default_clifford as dc
        return {"op": lambda op: op.name in dc._OPERATIONS_MAP}
    return {}


def make_device(qp, name, wires):
    n = len(wires)
    if name == "default.tensor/mps":
        return qp.device("default.tensor", wires=wires, method="mps", max_bond_dim=2 ** int(np.ceil(n / 2)) if n > 1 else 2)
    if name == "default.tensor/tn":
        return qp.device("default.tensor", wires=wires, method="tn")
    return qp.device(name, wires=wires)


def gen_case(rng, gen):
    nw = int(rng.integers(1, 6))
    profile = "clifford" if rng.random() < 0.15 else "general"
    if profile == "clifford":
        from pv.checks import c27
        spec = c27.clifford_case(rng, gen)
        spec["ops"] = [s for s in spec["ops"]]
    else:
        spec = gen.rand_case(rng, nw=nw, n_ops=int(rng.integers(1, 7)), batch_p=0.12, prep_p=0.0,
                             allow=("special", "rot", "d1", "d2", "d3", "d4", "cnot", "mcx", "qu", "diag", "cqu", "multirz", "pcphase", "gphase", "sym", "paulirot", "intcmp", "noop"),
                             meas_kinds=("state", "dm", "expval", "var", "probs", "purity", "expval", "expval", "probs_op"),
                             obs_kinds=("pauli", "sprod", "sum", "lc", "herm", "proj", "projvec", "id", "hadamard", "sparse", "prodherm"),
                             dev_wires_mode=["same", "perm", "superset"][int(rng.integers(3))])
        wires = spec["wires"]
        ops = list(spec["ops"])
        for _ in range(int(rng.integers(1, 4))):
            ops.insert(int(rng.integers(0, len(ops) + 1)), rand_template(rng, gen, wires))
        r = rng.random()
        if r < 0.15:
            k = int(rng.integers(1, min(nw, 3) + 1))
            ops.insert(0, {"t": "ampemb", "vec": rng.normal(size=2**k) + 1j * rng.normal(size=2**k), "wires": wires[:k]})
        elif r < 0.3:
            k = int(rng.integers(1, nw + 1))
            ops.insert(0, {"t": "basis", "bits": [int(x) for x in rng.integers(0, 2, size=k)], "wires": [wires[int(i)] for i in rng.choice(nw, size=k, replace=False)]})
        elif r < 0.4:
            k = int(rng.integers(1, min(nw, 3) + 1))
            from pv.ref import sv
            ops.insert(0, {"t": "prep", "vec": sv.random_state(rng, k), "wires": wires[:k], "normalize": False})
        spec["ops"] = ops
    if len(spec["dev_wires"]) > 7:
        spec["dev_wires"] = list(spec["wires"])
    shots = None
    if rng.random() < 0.2 and not spec["batch"]:
        shots = [50, [20, 30], 1][int(rng.integers(3))]
        # finite shots: sample-type measurements, one analytic-only measurement now and then (must be rejected, not altered)
        ms = []
        w = spec["wires"]
        for _ in range(int(rng.integers(1, 4))):
            k = ["expval", "var", "probs", "sample", "counts", "expval_herm", "state"][int(rng.integers(7))]
            if k == "state" and rng.random() < 0.3:
                k = "expval"
            ms.append({"m": k, "wires": [w[int(i)] for i in rng.choice(len(w), size=int(rng.integers(1, len(w) + 1)), replace=False)]})
        spec["shot_meas"] = ms
    return spec, profile, shots


def build_shot_meas(qp, ms):
    out = []
    for m in ms:
        w = m["wires"]
        k = m["m"]
        if k == "expval":
            out.append(qp.expval(qp.PauliZ(w[0]) @ qp.PauliX(w[-1]) if len(w) > 1 else qp.PauliY(w[0])))
        elif k == "var":
            out.append(qp.var(qp.PauliX(w[0])))
        elif k == "probs":
            out.append(qp.probs(wires=w))
        elif k == "sample":
            out.append(qp.sample(wires=w))
        elif k == "counts":
            out.append(qp.counts(wires=w))
        elif k == "expval_herm":
            out.append(qp.expval(qp.Hermitian(np.array([[1.0, 0.5], [0.5, -1.0]]), wires=w[0])))
        else:
            out.append(qp.state())
    return out


def run(ctx):
    import pennylane as qp

    from pv.checks import c26 as C26
    from pv.checks import c27
    from pv.gen import c26_gen as gen
    from pv.ref import c26_ref as R
    from pv.ref import sv

    warnings.filterwarnings("ignore")
    try:
        from pv.mon import pure
        pure.install(ctx)
    except Exception as e:  # noqa: BLE001
        ctx.note("m_pure", f"not installed: {type(e).__name__}: {e}")
    N = ctx.n(110, 4000)
    for i in range(N):
        if not ctx.more():
            break
        gi = i * ctx.nshards + ctx.shard
        if ctx.only_case is not None and gi != ctx.only_case:
            continue
        ctx.case_index = gi
        rng = ctx.case_rng(gi)
        try:
            spec, profile, shots = gen_case(rng, gen)
        except Exception as e:  # noqa: BLE001
            ctx.inconclusive_case(f"generator failed: {type(e).__name__}: {e}")
            continue
        order = spec["dev_wires"]
        desc = gen.describe(spec)
        # ---- reference of the ORIGINAL circuit
        psi = None
        if not shots and not spec["batch"]:
            try:
                psi = reference_state(qp, gen, spec, order)
            except R.NoRef:
                psi = None
            except Exception as e:  # noqa: BLE001
                ctx.inconclusive_case(f"reference failed: {type(e).__name__}: {e}")
                continue
        for name in DEVICES:
            if name == "default.clifford" and profile != "clifford":
                continue
            if name == "reference.qubit" and (len(spec["wires"]) > 4 or len(spec["ops"]) > 8 or c27.heavy_for_reference(spec)):
                continue
            if name.startswith("default.tensor") and (len(spec["dev_wires"]) > 6 or c27.heavy_for_tensor(spec)):
                continue
            if name.startswith("default.tensor") and shots:
                continue
            if name.startswith("default.tensor") and not shots and {m["m"] for m in spec["meas"]} - {"state", "expval", "var"} and gi % 6:
                # measurement kinds the tensor simulator cannot evaluate: its preprocessing does not reject them (tagged
                # default.tensor:unsupported-measurement-not-rejected / density-matrix-as-state); one case in six keeps exercising that
                continue
            ctx.count("programs")
            info = {"spec": desc, "device": name, "shots": repr(shots), "profile": profile, "case_index": gi}
            ops = [build_op(qp, gen, s) for s in spec["ops"]]
            ms = build_shot_meas(qp, spec["shot_meas"]) if shots else gen.build_meas(qp, spec["meas"])
            tape = qp.tape.QuantumScript(ops, ms, shots=shots)
            dev = make_device(qp, name, order)
            try:
                program, config = dev.preprocess()
                out_tapes, fn = program([tape])
            except Exception as e:  # noqa: BLE001
                en = type(e).__name__
                if en in ALLOWED or (en in ("NotImplementedError", "ValueError") and any(k in str(e).lower() for k in ("not supported", "doesn't support", "does not support", "only supports", "not accepted"))):
                    ctx.reject(f"{name}:{en}")
                    ctx.note_add("rejection_messages", f"{name}: {en}: {str(e)[:110]}", cap=40)
                    continue
                ctx.ev("pre.native")
                ctx.violation("pre.native", f"{name}.preprocess raised {en}: {str(e)[:250]} (neither a result nor a documented rejection)", case=info,
                              mech=f"preprocess-raises:{name}:{en}")
                continue
            changed = len(out_tapes) != 1 or [type(o).__name__ for o in out_tapes[0].operations] != [type(o).__name__ for o in ops] or len(out_tapes[0].measurements) != len(ms)
            ctx.case(fingerprint(repr(desc), [np.asarray(p).tobytes() for s in spec["ops"] for p in s.get("params", [])], name, repr(shots)), nontrivial=bool(changed),
                     cls=f"{name}:{'shots' if shots else 'analytic'}", sample=info)
            for s in spec["ops"]:
                ctx.cover("op:" + (s.get("name") or s["t"]))
            # ---- (a1) published predicates
            pred = predicates(qp, name)
            bad = None
            devw = set(order)
            from pennylane.core.measurements import SampleMeasurement
            from pennylane.core.operator import StatePrepBase
            from pennylane.measurements import ClassicalShadowMP, ShadowExpvalMP
            for t in out_tapes:
                for pos_o, o in enumerate(t.operations):
                    ctx.ev("pre.native")
                    if pos_o == 0 and isinstance(o, StatePrepBase) and name != "reference.qubit":
                        continue  # documented: an initial state preparation is consumed natively (skip_initial_state_prep)
                    if "op" in pred and not pred["op"](o):
                        bad = f"operation {o.name} on {list(o.wires)} is not in the device's supported set"
                    if not set(o.wires) <= devw:
                        bad = f"operation {o.name} acts on wires {list(o.wires)} outside the device wires"
                for m in t.measurements:
                    ctx.ev("pre.native")
                    if "analytic" in pred and not t.shots and not pred["analytic"](m):
                        bad = f"analytic measurement {m} is not accepted by the device"
                    if "sample" in pred and t.shots and not pred["sample"](m):
                        bad = f"finite-shot measurement {m} is not accepted by the device"
                    if t.shots and not isinstance(m, (SampleMeasurement, ClassicalShadowMP, ShadowExpvalMP)):
                        # independent of the device's own predicate: a state-only measurement process cannot be evaluated from samples
                        bad = f"analytic-only measurement {type(m).__name__} kept with finite shots (must be rejected, not executed)"
                    if "obs" in pred and m.obs is not None and not pred["obs"](m.obs):
                        bad = f"observable {m.obs.name} is not accepted by the device"
                    if not set(m.wires) <= devw:
                        bad = f"measurement {m} uses wires outside the device wires"
                if bad:
                    break
            if bad:
                mech = f"not-native:{name}:{bad.split(' ')[0]}"
                if name == "reference.qubit" and bad.startswith("analytic-only"):
                    mech = "reference.qubit:state-with-shots-not-rejected"
                ctx.violation("pre.native", f"{name}: preprocessed tape is not native: {bad}", case=info, mech=mech)
                continue
            # ---- (a2) raw execution
            ctx.ev("pre.executable")
            try:
                # quimb's MPS gate application occasionally does not return for minutes (SVD sweeps in swap_sites_with_compress): watchdog
                if os.environ.get("PV_TRACE_CASES"):
                    print(f"TRACE case={gi} device={name}", flush=True)
                with ctx.time_limit(90 if name.startswith("default.tensor") else 600, f"{name} raw execution"):
                    raw = dev.execute(tuple(out_tapes), config)
                    res = fn(raw)[0]
            except CaseTimeout as e:
                ctx.inconclusive_case(f"watchdog: {e} exceeded its wall-clock limit")
                continue
            except Exception as e:  # noqa: BLE001
                ctx.violation("pre.executable", f"{name}: raw execution of the preprocessed tapes raised {type(e).__name__}: {str(e)[:250]}", case=info,
                              mech=retag(qp, C26, gen, spec, name, f"raw-execute:{name}:{type(e).__name__}", ms))
                continue
            # ---- (b) equivalence
            if shots:
                ctx.ev("pre.equivalent")
                per = [res] if not isinstance(shots, list) else (list(res) if isinstance(res, (tuple, list)) else None)
                nsh = len(shots) if isinstance(shots, list) else 1
                ok = per is not None and len(per) == nsh and all(len(ms) == 1 or (isinstance(r_, (tuple, list)) and len(r_) == len(ms)) for r_ in per)
                if not ok:
                    ctx.violation("pre.equivalent", f"{name}: finite-shot result does not have the structure (shot entries={nsh}) x (measurements={len(ms)})", case=info,
                                  mech="default.clifford:shot-vector-ignored" if (name == "default.clifford" and isinstance(shots, list)) else f"structure:shots:{name}")
                continue
            rr = (res,) if len(ms) == 1 else res
            if not isinstance(rr, (tuple, list)) or len(rr) != len(ms):
                ctx.ev("pre.equivalent")
                ctx.violation("pre.equivalent", f"{name}: result is not a tuple of {len(ms)} measurement results", case=info, mech=f"structure:{name}")
                continue
            if name == "null.qubit" or psi is None:
                ctx.count("equivalence_skipped_no_reference" if name != "null.qubit" else "null_structure_only")
                continue
            for k, m in enumerate(spec["meas"]):
                ctx.ev("pre.equivalent")
                try:
                    val, _ = R.measure(ms[k], psi, order)
                except R.NoRef:
                    continue
                val = np.asarray(val)
                try:
                    g = R._np(rr[k])
                except Exception as e:  # noqa: BLE001
                    ctx.violation("pre.equivalent", f"{name}: result {k} not array-like: {e}", case=info, mech=f"type:{name}")
                    continue
                if m["m"] == "state":
                    if name == "default.mixed":
                        val = np.outer(val, val.conj())
                        err = float(np.max(np.abs(g - val))) if g.shape == val.shape else float("inf")
                    else:
                        err = sv.phase_dist(g, val) if g.shape == val.shape else float("inf")
                else:
                    err = float(np.max(np.abs(g - val))) if g.shape == val.shape else float("inf")
                tol = (1e-7 if name.startswith("default.tensor") else 1e-8) * max(1.0, float(np.max(np.abs(val))) if val.size else 1.0)
                if not err <= tol:
                    ctx.violation("pre.equivalent", f"{name}: preprocessed+executed result {k} ({C26.mkind(m)}) differs from the reference of the original circuit "
                                  + (f"by {err:.3e}" if np.isfinite(err) else f"in shape {g.shape} vs {val.shape}"), case=info,
                                  mech=retag(qp, C26, gen, spec, name, f"equivalent:{name}:{C26.mkind(m)}", ms), observed=g, expected=val)


def retag(qp, C26, gen, spec, name, mech, ms):
    """Mechanism classifiers of defects C26 / C27 already report on the unchanged tree (tagging only)."""
    from pv.checks import c27
    plain = {**spec, "ops": [s for s in spec["ops"] if s["t"] not in ("qft", "angle", "basisemb", "bel", "sel", "expw", "ampemb")]}
    try:
        if C26.stale_batch_ops(qp, plain):
            return "batch-size-none:symbolic-op"
        if C26.bad_prods(qp, plain):
            return "prod-matrix:overlapping-wires"
    except Exception:  # noqa: BLE001
        pass
    kinds = {m["m"] for m in spec["meas"]}
    n = len(spec["dev_wires"])
    if name == "reference.qubit" and "AttributeError" in mech and any(m["m"] == "state" for m in spec.get("shot_meas", [])):
        return "reference.qubit:state-with-shots-not-rejected"
    if spec["batch"] and name == "reference.qubit" and "raw-execute" in mech:
        return "broadcast:GlobalPhase"  # every decomposition on reference.qubit ends in RZ + (then batched) GlobalPhase, which broadcast_expand does not slice
    if name.startswith("default.tensor") and mech.endswith(":dm"):
        return "default.tensor:density-matrix-as-state"
    if name.startswith("default.tensor") and "NotImplementedError" in mech and kinds - {"state", "expval", "var"}:
        return "default.tensor:unsupported-measurement-not-rejected"
    if name.startswith("default.tensor"):
        first = spec["ops"][0]["t"] if spec["ops"] else None
        standard = spec["dev_wires"] == list(range(n))
        if first in ("basis", "basisemb") and len(spec["ops"][0]["wires"]) < n:
            return "default.tensor:basisstate-subset"
        if not standard and ("state" in kinds or first in ("prep", "basis", "ampemb", "basisemb")):
            return "default.tensor:device-wire-order"
        if name.endswith("/mps") and (c27.wide_paulirot(plain) or any(s["t"] == "expw" and len(s["wires"]) >= 3 for s in spec["ops"])):
            return "default.tensor:paulirot-mpo-unsorted-sites"
    okinds = set()

    def walk_obs(o):
        okinds.add(o["o"])
        for k in ("base",):
            if k in o:
                walk_obs(o[k])
        for k in ("terms", "ops", "factors"):
            for t in o.get(k, []):
                walk_obs(t)
    for m in spec["meas"]:
        if "obs" in m:
            walk_obs(m["obs"])
    if name == "reference.qubit" and kinds & {"vn", "mi"}:
        return "entropy-ignores-wire-order:reference.qubit"
    if name == "reference.qubit" and okinds & {"herm", "projvec", "sparse"}:
        return "reference.qubit:undiagonalized-observable"
    if name == "default.mixed" and "MatrixUndefinedError" in mech and any(s["t"] in ("basisemb", "basis", "prep", "ampemb") for s in spec["ops"][1:]):
        return "default.mixed:mid-circuit-state-prep-kept"
    if name == "default.clifford":
        if "SX" in gen.spec_kinds(plain) and "ValueError" in mech:
            return "default.clifford:stim-gate-name:SX"
        if "probs" in mech:
            return "default.clifford:probs-wire-order"
        if "AttributeError" in mech and "var" in kinds:
            return "default.clifford:var-missing-kwargs"
    if name == "default.mixed" and spec.get("batch") == 1 and "raw-execute" in mech:
        return "batch1:default.mixed"  # a broadcast batch of size 1 is not expanded by the mixed-state kernels (same as C28)
    if name.startswith("default.tensor") and mech.startswith("equivalent:"):
        # a value mismatch of default.tensor alone that none of the root-caused mechanisms above explains
        return "default.tensor:result-mismatch:unrooted"
    return mech
