"""C26 — default.qubit simulates every circuit exactly.

Two deciding monitors on the REAL device:

* ``dq.result``  – post-condition at ``qp.execute([tape], default.qubit)`` (and, for a fraction of the cases, at a QNode
  built from the same operators): every measurement (state, density matrix on wire subsets, expval / var of Pauli words,
  sums, Hamiltonians, Hermitian, Projector, SparseHamiltonian, probs on wire subsets / orders / Pauli bases, purity,
  von Neumann entropy, mutual information) equals the functional of an independent dense state-vector simulation
  (pv/ref/c26_ref.py on top of R-GATES/R-SV), for any wire labels, device wire order (None / same / permuted / superset),
  broadcast batch and interface (numpy, autograd, jax, jax-jit, torch).
* ``dq.kernel``  – post-condition on every ``apply_operation`` kernel invocation the simulator makes (hooked at the
  call sites in devices/qubit/simulate.py and measure.py): output tensor == generic tensordot application of the
  operator's reference matrix (matrix-free references for wide MultiControlledX / GroverOperator) to the input tensor.
  Localises a wrong kernel and counts which single-dispatch kernels / contraction paths were reached.
"""
import warnings

import numpy as np

from pv.ctx import fingerprint

META = {
    "id": "C26",
    "level": "exploration",
    "technique": "reference-model differential: real default.qubit results and every apply_operation kernel call vs an independent dense einsum state-vector simulator and measurement functionals",
    "level_text": "Kernel-aimed random circuits over 1-13 labelled wires (special-cased gates, einsum / tensordot / wide-gate kernels, "
                  "state preparations on wire subsets, broadcasting, symbolic wrappers) with random measurement lists are executed on the real "
                  "device through qp.execute and QNodes in five interfaces; each result and each kernel invocation is compared with a reference "
                  "written from the documented gate matrices. Held on the circuits observed.",
    "level_note": "Trusts numpy/scipy and pv/ref/gates.py. Gates without a tabulated formula fall back to qp.matrix (fraction reported as "
                  "independent_fraction). ParametrizedEvolution kernel covered only for time-independent Hamiltonians (expm reference, ODE tolerance 1e-5) "
                  "in the thorough tier; sparse-only operator kernel (has_sparse_matrix and no matrix) is not reachable with built-in operations; tensorflow not installed.",
    "shards": {"quick": 3, "thorough": 9},
    "budget_s": {"quick": 110, "thorough": 180},
    "min_evals": {"quick": 1200, "thorough": 8000},
    "deciding": ["dq.result", "dq.kernel"],
    "rule": "case = (circuit spec, device wires, interface, path); distinct = fingerprint of the full spec; non-trivial = the reference final "
            "state is a genuine superposition (>= 2 amplitudes above 1e-6) or the circuit is broadcast",
    "assumptions": ["reference gate table transcribes the documented formulas", "tape wire order (ops then measurements) is the documented order when the device has no wires"],
}

TOL = 1e-9
ALLOWED = ("DeviceError", "DecompositionError", "DecompositionUndefinedError", "WireError")


# ----------------------------------------------------------------------------- kernel monitor
class KernelMonitor:
    def __init__(self, ctx, qp):
        self.ctx, self.qp = ctx, qp
        self.active = False
        self.case = None
        self.fail = 0
        self.ind = [0, 0]

    def install(self):
        import sys

        import pennylane.devices.qubit.apply_operation  # noqa: F401
        import pennylane.devices.qubit.measure  # noqa: F401
        import pennylane.devices.qubit.simulate  # noqa: F401
        AO = sys.modules["pennylane.devices.qubit.apply_operation"]
        self.AO = AO
        self.orig = AO.apply_operation
        for mname in ("pennylane.devices.qubit.simulate", "pennylane.devices.qubit.measure"):
            mod = sys.modules[mname]
            if getattr(mod, "apply_operation", None) is self.orig:
                setattr(mod, "apply_operation", self.wrapper)
            else:
                self.ctx.inconclusive_case(f"kernel hook: {mname}.apply_operation is not the dispatcher")

    def tag(self, op, state, is_state_batched):
        AO = self.AO
        fn = self.orig.dispatch(type(op)).__name__
        nd = state.ndim
        nw = len(op.wires)
        if fn == "apply_operation" or (fn in ("apply_multicontrolledx", "apply_grover") and nw < 9):
            try:
                sparse_only = op.has_sparse_matrix and not op.has_matrix
            except Exception:  # noqa: BLE001
                sparse_only = False
            if sparse_only:
                path = "csr"
            elif (nw < AO.EINSUM_OP_WIRECOUNT_PERF_THRESHOLD and nd < AO.EINSUM_STATE_WIRECOUNT_PERF_THRESHOLD) or (op.batch_size and is_state_batched):
                path = "einsum"
            else:
                path = "tensordot"
            return f"default/{path}/{min(nw, 5)}q" + ("+opbatch" if op.batch_size else "") + ("+statebatch" if is_state_batched else "")
        if fn in ("apply_multicontrolledx", "apply_grover"):
            return fn + "/wide" + ("+statebatch" if is_state_batched else "")
        big = "/big" if nd >= AO.EINSUM_STATE_WIRECOUNT_PERF_THRESHOLD else ""
        return fn + big + ("+opbatch" if getattr(op, "batch_size", None) else "") + ("+statebatch" if is_state_batched else "")

    def wrapper(self, op, state, is_state_batched=False, debugger=None, **kw):
        pre_bs = getattr(op, "batch_size", None) if self.active else None
        out = self.orig(op, state, is_state_batched=is_state_batched, debugger=debugger, **kw)
        if self.active:
            try:
                self.check(op, state, out, bool(is_state_batched), pre_bs)
            except Exception as e:  # noqa: BLE001  (monitor problem is never a verdict)
                self.ctx.count("kernel.monitor_error")
                self.ctx.note_add("kernel_monitor_errors", f"{type(op).__name__}: {type(e).__name__}: {str(e)[:120]}")
        return out

    def check(self, op, state, out, sb, pre_bs=None):
        from pv.ref import c26_ref as R
        qp, ctx = self.qp, self.ctx
        name = type(op).__name__
        if name == "ParametrizedEvolution":  # ODE solver (atol 1.4e-8): checked by dq.evolution with its own stated tolerance
            ctx.count("kernel.skipped_ode")
            return
        if name in ("Conditional", "MidMeasure", "MidMeasureMP") or qp.math.is_abstract(state) or qp.math.is_abstract(out):
            ctx.count("kernel.skipped_abstract_or_dynamic")
            return
        if any(qp.math.is_abstract(d) for d in op.data):
            ctx.count("kernel.skipped_abstract_or_dynamic")
            return
        S = R._np(state)
        O = R._np(out)
        n = S.ndim - int(sb)
        iface = qp.math.get_interface(state)
        try:
            bo = R.batch_size_of(op)
        except R.NoRef:
            bo = None
        Bout = S.shape[0] if sb else bo
        axes_of = {i: i for i in range(n)}
        tag = self.tag(op, state, sb)
        try:
            refs = []
            ind = True
            for b in range(Bout or 1):
                Tin = S[b] if sb else S
                Tr, i = R.apply_op(np.asarray(Tin, dtype=complex), op, axes_of, b if bo is not None else None)
                ind &= i
                refs.append(Tr)
            ref = np.stack(refs) if Bout is not None else refs[0]
        except (R.NoRef, bridge_noref()) as e:
            ctx.count("kernel.noref")
            ctx.note_add("kernel_noref", f"{name}: {str(e)[:80]}")
            return
        self.ind[0] += bool(ind)
        self.ind[1] += 1
        ctx.ev("dq.kernel")
        ctx.cover(f"kernel:{tag}")
        ctx.cover(f"kernel-iface:{iface}")
        ok = O.shape == ref.shape
        err = float(np.max(np.abs(O - ref))) if ok else float("inf")
        if not ok or not err < TOL * max(1.0, float(np.max(np.abs(ref)))):
            self.fail += 1
            ctx.violation("dq.kernel", f"apply_operation kernel {tag} ({iface}) applied {name} on axes {list(op.wires)} of a {n}-wire state: "
                          f"output differs from the reference application by {err:.3e} (shape {O.shape} vs {ref.shape})",
                          case={"op": name, "wires": list(op.wires), "params": [R._np(d).tolist() if R._np(d).size <= 8 else f"array{R._np(d).shape}" for d in op.data],
                                "state_batched": sb, "interface": iface, "n_wires": n, "spec": self.case},
                          mech=self.kernel_mech(op, tag, name, pre_bs, bo))

    def kernel_mech(self, op, tag, name, pre_bs=None, bo=None):
        if bo is not None and pre_bs is None:
            return "batch-size-none:symbolic-op"  # operator with broadcast data reported batch_size None to the simulator
        inner = op
        while type(inner).__name__ != "Prod" and getattr(inner, "base", None) is not None:
            inner = inner.base
        if type(inner).__name__ == "Prod":
            from pv.ref import c26_ref as R
            try:
                Mr = R.op_matrix(op)[0]
                if not np.max(np.abs(R._np(self.qp.matrix(op)) - Mr)) < 1e-9:
                    iface = self.qp.math.get_interface(*op.data)
                    if iface != "numpy":
                        return f"prod-matrix:interface-cast:{iface}"
                    return "prod-matrix:overlapping-wires"
            except Exception:  # noqa: BLE001
                pass
        return f"kernel:{tag.split('+')[0]}:{name if tag.startswith('default') else ''}".rstrip(":")


def bridge_noref():
    from pv.ref.bridge import NoReference
    return NoReference


# ----------------------------------------------------------------------------- helpers
def converters(qp):
    from pennylane import numpy as pnp
    conv = {"numpy": lambda x: x, "autograd": lambda x: pnp.array(x, requires_grad=True)}
    try:
        import jax
        import jax.numpy as jnp
        if jax.config.jax_enable_x64:
            conv["jax"] = lambda x: jnp.array(x)
            conv["jax-jit"] = None
    except Exception:  # noqa: BLE001
        pass
    try:
        import torch
        conv["torch"] = lambda x: torch.tensor(x, dtype=torch.float64)
    except Exception:  # noqa: BLE001
        pass
    return conv


def tape_wire_order(spec):
    """Wire order of wire-less measurements (state, probs()) on a device WITHOUT wires: the tape's wires (operations first,
    then measurement-only wires) — except when these already are in 'standard order' as documented in
    QuantumScript.map_to_standard_wires (operation wires = {0..k-1}, measurement-only wires = {k..}), in which case the
    integer labels themselves are the positions."""
    from pv.gen import c26_gen as gen
    order = []
    for s in spec["ops"]:
        if s["t"] == "barrier":  # has no matrix: removed by the device's decomposition, so it contributes no operation wires
            continue
        for w in gen.spec_wires(s):
            if w not in order:
                order.append(w)
    nop = len(order)
    for s in spec["ops"]:
        if s["t"] == "barrier":
            for w in s["wires"]:
                if w not in order:
                    order.append(w)
    nbar = len(order)
    for m in spec["meas"]:
        ws = []
        if m.get("wires"):
            ws = m["wires"]
        elif m["m"] == "mi":
            ws = m["w0"] + m["w1"]
        elif "obs" in m:
            ws = obs_wires(m["obs"])
        for w in ws:
            if w not in order:
                order.append(w)
    isint = all(isinstance(w, (int, np.integer)) and not isinstance(w, bool) for w in order)
    if nbar > nop:
        return None  # wires touched only by a Barrier: position in the wire-less results is not specified anywhere
    if isint and set(order[:nop]) == set(range(nop)) and set(order[nop:]) == set(range(nop, len(order))):
        return sorted(order)
    return order


def obs_wires(o):
    if "wires" in o:
        return list(o["wires"])
    out = []
    for k in ("base",):
        if k in o:
            out += obs_wires(o[k])
    for k in ("terms", "ops", "factors"):
        for t in o.get(k, []):
            out += [w for w in obs_wires(t) if w not in out]
    return out


def reference(qp, spec, order):
    """Reference results (list per measurement, stacked over the batch) + independent fraction + nontrivial flag."""
    from pv.gen import c26_gen as gen
    from pv.ref import c26_ref as R
    ops = gen.build_ops(qp, spec["ops"])
    ms = gen.build_meas(qp, spec["meas"])
    B = spec["batch"]
    per_b, fr, nontriv = [], [], False
    for b in range(B or 1):
        psi, frac = R.run(ops, order, b if B else None)
        fr.append(frac)
        nontriv |= int((np.abs(psi) > 1e-6).sum()) >= 2
        vals = []
        for mp in ms:
            v, ind = R.measure(mp, psi, order)
            fr.append(1.0 if ind else 0.0)
            vals.append(np.asarray(v))
        per_b.append(vals)
    if B:
        ref = [np.stack([per_b[b][k] for b in range(B)]) for k in range(len(ms))]
    else:
        ref = per_b[0]
    return ref, float(np.mean(fr)), bool(nontriv or B)


def mtol(m, ref, base=None):
    scale = max(1.0, float(np.max(np.abs(ref))) if np.size(ref) else 1.0)
    base = TOL if base is None else base
    return max(1e-8 if m["m"] in ("vn", "mi") else 0.0, base) * scale


def mkind(m):
    k = m["m"]
    if "obs" in m:
        return f"{k}:{m['obs']['o']}"
    return k


def compare(ctx, mon, res, ref, spec, info, what, retag=None, tol=None):
    """retag(default_mech) -> mech : lazily applied mechanism classifier (tagging only)."""
    from pv.ref import c26_ref as R
    retag = retag or (lambda m: m)
    ms = spec["meas"]
    if len(ms) == 1:
        res = (res,)
    bad = False
    if not isinstance(res, (tuple, list)) or len(res) != len(ms):
        ctx.ev(mon)
        ctx.violation(mon, f"{what}: result is not a tuple of {len(ms)} measurements", case=info, mech="result:structure")
        return True
    for k, m in enumerate(ms):
        ctx.ev(mon)
        ctx.cover(f"meas:{mkind(m)}")
        try:
            got = R._np(res[k])
        except Exception as e:  # noqa: BLE001
            ctx.violation(mon, f"{what}: result {k} not array-like: {e}", case=info, mech=f"result:{m['m']}:type")
            bad = True
            continue
        exp = np.asarray(ref[k])
        if got.shape != exp.shape:
            mech = f"result:{mkind(m)}:shape"
            if spec.get("batch") == 1 and got.shape == exp.shape[1:]:
                mech = f"batch1-squeezed:{m['m']}"  # size-1 broadcast dimension dropped by this measurement only
            ctx.violation(mon, f"{what}: measurement {k} ({mkind(m)}) has shape {got.shape}, reference {exp.shape}", case=info,
                          mech=retag(mech), observed=got, expected=exp)
            bad = True
            continue
        err = float(np.max(np.abs(got - exp))) if got.size else 0.0
        if not err <= mtol(m, exp, tol):
            ctx.violation(mon, f"{what}: measurement {k} ({mkind(m)}) differs from the reference by {err:.3e}", case=info,
                          mech=retag(f"result:{mkind(m)}"), observed=got, expected=exp)
            bad = True
    return bad


def run_real(qp, spec, iface, conv, dev, path):
    from pv.gen import c26_gen as gen
    ms = gen.build_meas(qp, spec["meas"])
    if iface == "jax-jit":
        import jax
        import jax.numpy as jnp
        vals = []
        gen.build_ops(qp, spec["ops"], lambda x: (vals.append(np.asarray(x, dtype=float)), x)[1])

        def f(plist):
            it = iter(plist)
            ops = gen.build_ops(qp, spec["ops"], lambda x: next(it))
            tape = qp.tape.QuantumScript(ops, ms)
            return qp.execute([tape], dev, diff_method="backprop", interface="jax-jit")[0]

        return jax.jit(f)([jnp.array(v) for v in vals])
    ops = gen.build_ops(qp, spec["ops"], conv)
    if path == "qnode":
        def qfunc():
            for o in ops:
                qp.apply(o)
            out = tuple(qp.apply(m) for m in ms)
            return out[0] if len(out) == 1 else out

        return qp.QNode(qfunc, dev, diff_method="backprop" if iface != "numpy" else None)()
    tape = qp.tape.QuantumScript(ops, ms)
    return qp.execute([tape], dev, diff_method="backprop" if iface != "numpy" else None)[0]


def jit_ok(spec):
    if spec["batch"]:
        return False
    for m in spec["meas"]:
        if m["m"] in ("vn", "mi"):
            return False
        if "obs" in m and m["obs"]["o"] in ("sparse", "herm", "projvec", "prodherm", "sum", "lc", "proj", "hadamard", "prod") and m["m"] != "expval":
            return False
        if "obs" in m and m["obs"]["o"] in ("sparse",):
            return False
    return True


def iface_ok(spec, iface):
    """Documented restrictions: SparseHamiltonian is numpy/scipy only."""
    if iface == "numpy":
        return True
    for m in spec["meas"]:
        if "obs" in m and m["obs"]["o"] == "sparse":
            return False
    return True


# ----------------------------------------------------------------------------- driver
def run(ctx):
    import pennylane as qp

    from pv.gen import c26_gen as gen

    warnings.filterwarnings("ignore")
    mon = KernelMonitor(ctx, qp)
    mon.install()
    conv = converters(qp)
    for k in ("jax", "jax-jit", "torch"):
        if k not in conv:
            ctx.uncovered(f"interface:{k}", "not importable / x64 disabled")
    N = ctx.n(330, 26000)
    ifaces = ["numpy"] * 11 + ["autograd"] * 3 + ["jax"] * 2 + ["torch"] * 3 + ["jax-jit"]
    fr_sum = fr_n = 0.0
    for i in range(N):
        if not ctx.more():
            break
        gi = i * ctx.nshards + ctx.shard
        if ctx.only_case is not None and gi != ctx.only_case:
            continue
        ctx.case_index = gi
        rng = ctx.case_rng(gi)
        try:
            spec = gen.rand_case(rng)
        except Exception as e:  # noqa: BLE001
            ctx.inconclusive_case(f"generator failed: {type(e).__name__}: {e}")
            continue
        iface = ifaces[int(rng.integers(len(ifaces)))]
        if iface not in conv or not iface_ok(spec, iface) or (iface == "jax-jit" and (not jit_ok(spec) or len(spec["wires"]) > 6)):
            iface = "numpy"
        if len(spec["wires"]) > 10 and iface in ("jax", "jax-jit"):
            iface = "numpy"
        path = "qnode" if (iface != "jax-jit" and rng.random() < 0.2) else "execute"
        order = spec["dev_wires"] if spec["dev_wires"] is not None else tape_wire_order(spec)
        if order is None:  # only for devices without wires: give the device explicit wires instead
            spec["dev_wires"] = order = list(spec["wires"])
        desc = gen.describe(spec)
        info = {"spec": desc, "interface": iface, "path": path, "case_index": gi}
        mon.case = desc
        try:
            ref, frac, nontriv = reference(qp, spec, order)
        except Exception as e:  # noqa: BLE001
            ctx.inconclusive_case(f"reference failed: {type(e).__name__}: {e}")
            continue
        fr_sum += frac
        fr_n += 1
        ctx.case(fingerprint(repr(desc), [np.asarray(p).tobytes() for s in spec["ops"] for p in s.get("params", [])], iface, path),
                 nontrivial=nontriv, cls=f"iface:{iface}", sample=info)
        ctx.cover(f"path:{path}")
        ctx.cover(f"nwires:{len(spec['wires'])}")
        ctx.cover(f"devwires:{'none' if spec['dev_wires'] is None else ('superset' if len(spec['dev_wires']) > len(spec['wires']) else 'explicit')}")
        for kd in gen.spec_kinds(spec):
            ctx.cover(f"op:{kd}")
        dev = qp.device("default.qubit", wires=spec["dev_wires"]) if spec["dev_wires"] is not None else qp.device("default.qubit")
        memo = {}

        def retag(mech, spec=spec, info=info, memo=memo, iface=iface):
            """Lazily applied mechanism classifiers for defects seen on the unchanged tree (tagging only)."""
            if "m" not in memo:
                memo["m"] = None
                sb = stale_batch_ops(qp, spec)
                if sb:
                    info["ops_with_batch_size_none"] = sb
                    memo["m"] = "batch-size-none:symbolic-op"
                else:
                    bp = bad_prods(qp, spec, conv.get(iface) if iface not in ("numpy", "jax-jit") else None)
                    if bp:
                        info["prod_with_wrong_own_matrix"] = bp
                        memo["m"] = "prod-matrix:" + bp[0][0] + (f":{iface}" if bp[0][0] == "interface-cast" else "")
            return memo["m"] or mech

        mon.active = True
        try:
            res = run_real(qp, spec, iface, conv.get(iface), dev, path)
        except Exception as e:  # noqa: BLE001
            mon.active = False
            en = type(e).__name__
            if en in ALLOWED:
                ctx.reject(f"{en}")
                ctx.note_add("rejection_messages", f"case {gi}: {en}: {str(e)[:140]}")
                continue
            ctx.ev("dq.result")
            kinds = sorted(gen.spec_kinds(spec))
            ctx.violation("dq.result", f"default.qubit raised {en}: {str(e)[:300]} on a circuit of supported operations ({iface}, {path})", case=info,
                          mech=retag(f"raises:{en}:{iface}:{classify_raise(spec, e)}"))
            continue
        finally:
            mon.active = False
        compare(ctx, "dq.result", res, ref, spec, info, f"default.qubit[{iface},{path}]", retag)
    if fr_n:
        ctx.note("independent_fraction_results", round(fr_sum / fr_n, 4))
    if mon.ind[1]:
        ctx.note("independent_fraction_kernel_refs", round(mon.ind[0] / mon.ind[1], 4))
    if ctx.only_case is None and ctx.shard == ctx.nshards - 1:
        gphase_broadcast_probe(ctx, qp)
    if not ctx.quick and ctx.shard == 0 and ctx.only_case is None:
        evolution_cases(ctx, qp, mon)


def stale_batch_ops(qp, spec):
    """Mechanism classifier (tagging only): operators built from broadcast data whose ``batch_size`` is None."""
    from pv.gen import c26_gen as gen
    from pv.ref import c26_ref as R
    out = []
    for s in spec["ops"]:
        if s["t"] in ("adj", "ctrl", "cqu", "pow", "prod", "gphase") and gen.spec_batched(s):
            try:
                op = gen.build_op(qp, s, lambda x: x)
                if op.batch_size is None and R.batch_size_of(op) is not None:
                    out.append(type(op).__name__)
            except Exception:  # noqa: BLE001
                pass
    return sorted(set(out))


def bad_prods(qp, spec, conv=None):
    """Mechanism classifier (tagging only): Prod operators in the circuit whose own ``matrix()`` differs from the product of
    their factors' reference matrices (seen on the unchanged tree for factors with partially overlapping wires)."""
    from pv.gen import c26_gen as gen
    from pv.ref import c26_ref as R
    out = []

    def walk(s):
        if s["t"] == "prod":
            try:
                op = gen.build_op(qp, s, lambda x: x)
                M, _ = R.op_matrix(op)
                if not np.max(np.abs(np.asarray(qp.matrix(op)) - M)) < 1e-9:
                    out.append(["overlapping-wires"] + [type(f).__name__ + str(list(f.wires)) for f in op.operands])
                elif conv is not None:
                    opi = gen.build_op(qp, s, conv)
                    if not np.max(np.abs(R._np(qp.matrix(opi)) - M)) < 1e-9:
                        out.append(["interface-cast"] + [type(f).__name__ + str(list(f.wires)) for f in op.operands])
            except Exception:  # noqa: BLE001
                pass
        if "base" in s:
            walk(s["base"])
        for f in s.get("factors", []):
            walk(f)
    for s in spec["ops"]:
        walk(s)
    return out


def classify_raise(spec, e):
    """Stable mechanism tag for an unexpected exception: measurement kinds + batch flag + first line of the message."""
    ms = "+".join(sorted({mkind(m) for m in spec["meas"]}))
    return f"{'batch' if spec['batch'] else 'nobatch'}:{ms}"[:120]


def evolution_cases(ctx, qp, mon):
    """ParametrizedEvolution kernel (state-evolution path) for time-independent Hamiltonians: reference = expm."""
    try:
        import jax
        import jax.numpy as jnp
        from scipy.linalg import expm
    except Exception:  # noqa: BLE001
        ctx.uncovered("kernel:apply_parametrized_evolution", "jax not importable")
        return
    from pv.ref import gates as G
    from pv.ref import sv
    rng = ctx.stream(5)
    dev = qp.device("default.qubit")
    for j in range(6):
        n = int(rng.integers(2, 4))
        c1, c2 = float(rng.uniform(0.2, 1.5)), float(rng.uniform(0.2, 1.5))
        T = float(rng.uniform(0.3, 1.2))
        H = qp.pulse.constant * (qp.PauliX(0) @ qp.PauliZ(1)) + qp.pulse.constant * qp.PauliY(1)
        ev = qp.evolve(H)([jnp.array(c1), jnp.array(c2)], t=T)
        pre = [qp.RY(0.7, 0), qp.CNOT([0, 1])] + ([qp.Hadamard(2)] if n == 3 else [])
        tape = qp.tape.QuantumScript(pre + [ev], [qp.state()])
        mon.active = True
        try:
            got = np.asarray(qp.execute([tape], dev, diff_method="backprop", interface="jax")[0])
        except Exception as e:  # noqa: BLE001
            ctx.note_add("evolution_errors", f"{type(e).__name__}: {str(e)[:100]}")
            continue
        finally:
            mon.active = False
        Hm = c1 * np.kron(G.X, G.Z) + c2 * np.kron(np.eye(2), G.Y)
        U = expm(-1j * T * Hm)
        gates = [(G.ry(0.7), [0]), (G.FIXED["CNOT"], [0, 1])] + ([(G.H, [2])] if n == 3 else []) + [(U, [0, 1])]
        ref = sv.run(gates, list(range(n)))
        ctx.ev("dq.evolution")
        ctx.cover("kernel:apply_parametrized_evolution")
        err = float(np.max(np.abs(got - ref)))
        if not err < 1e-5:
            ctx.violation("dq.evolution", f"ParametrizedEvolution with constant coefficients differs from expm(-iHt) by {err:.2e}", case={"c": [c1, c2], "T": T, "n": n},
                          mech="kernel:apply_parametrized_evolution")


def gphase_broadcast_probe(ctx, qp):
    """Broadcast GlobalPhase (documented: one parameter with 0 dimensions, so a 1-d input is a batch; its matrix, eigvals and the
    default.qubit kernel all handle a batch): results must carry the batch dimension like for every other broadcast gate."""
    from pv.ref import gates as G
    from pv.ref import sv
    rng = ctx.stream(7)
    dev = qp.device("default.qubit")
    for j in range(6 if ctx.quick else 60):
        n = int(rng.integers(1, 4))
        B = int(rng.integers(1, 5))
        phis = rng.uniform(-3, 3, size=B)
        a = float(rng.uniform(0.2, 2.9))
        after = bool(rng.integers(2))  # a batched RX *before* the GlobalPhase makes the state batched already
        thetas = rng.uniform(-3, 3, size=B)
        ops = [qp.RY(a, 0)] + [qp.Hadamard(w) for w in range(1, n)]
        gates = [(G.ry(a), [0])] + [(G.H, [w]) for w in range(1, n)]
        if after:
            ops.append(qp.RX(thetas, 0))
        ops.append(qp.GlobalPhase(phis))
        tape = qp.tape.QuantumScript(ops, [qp.state(), qp.probs(wires=[0]), qp.expval(qp.PauliZ(0))])
        info = {"n": n, "batch": B, "phis": phis.tolist(), "batched_rx_before": after}
        ctx.case(fingerprint("gphase", n, phis.tobytes(), after), True, cls="probe:broadcast-GlobalPhase", sample=info)
        refs = []
        for b in range(B):
            g = list(gates) + ([(G.rx(thetas[b]), [0])] if after else [])
            psi = sv.run(g, list(range(n))) * np.exp(-1j * phis[b])
            refs.append((psi, sv.probs(psi, list(range(n)), [0]), float(np.real(sv.expval(psi, G.Z, [0], list(range(n)))))))
        exp = [np.stack([np.asarray(r[k]) for r in refs]) for k in range(3)]
        try:
            res = qp.execute([tape], dev)[0]
        except Exception as e:  # noqa: BLE001
            ctx.ev("dq.result")
            ctx.violation("dq.result", f"default.qubit raised {type(e).__name__}: {str(e)[:200]} for a broadcast GlobalPhase", case=info, mech="broadcast:GlobalPhase")
            continue
        for k, nm in enumerate(("state", "probs", "expval")):
            ctx.ev("dq.result")
            got = np.asarray(res[k])
            if got.shape != exp[k].shape or not np.max(np.abs(got - exp[k])) < TOL:
                ctx.violation("dq.result", f"broadcast GlobalPhase (batch {B}, {n} wire(s)): {nm} has shape {got.shape}, expected {exp[k].shape}"
                              + ("" if got.shape != exp[k].shape else f"; values differ by {np.max(np.abs(got - exp[k])):.2e}"),
                              case=info, mech="broadcast:GlobalPhase", observed=got, expected=exp[k])
                break
