"""C13 — Measurement-based decompositions act deterministically.

Rules are selected live: every rule the framework lists for a generated instance (same enumeration as C10) is invoked and
kept when the framework's own predicate ``_decomp_contains_mcm`` says so or the emitted queue contains
``MidMeasure`` / ``PauliMeasure`` / ``Conditional``.  ``PauliMeasure`` circuits are documented as not executable on any
device, so the oracle is the harness's own branch-enumerating interpreter (R-BR, ``pv.ref.c13_branch``): Pauli-product
measurements as projectors (1 +/- P)/2 with outcome 0 <-> +1, computational-basis measurements with reset/postselect,
classically controlled operations evaluated with ``Conditional.meas_val.concretize`` on the branch's outcome record.
All 2^k outcome strings are enumerated exhaustively; for every branch with p > 0 the Kraus operator restricted to the
admitted inputs (operator's register free, work wires in their allocated start state) must factorise as

        K_b  =  sqrt(p_b) e^{i phi_b} . U (x) |a_b>

* ``branch.unitary`` – the residual of that factorisation is zero: the target register undergoes exactly the operator's
  unitary (global phase per branch free) and stays unentangled with the auxiliary wires; p_b is then input independent;
* ``branch.aux``     – the auxiliary wires end in a *known* state: the same |a> on every branch (and |0> again for wires
  allocated as zeroed/restored);
* ``branch.total``   – harness sanity: the branch probabilities add up to 1.
"""
import numpy as np

from pv.ctx import fingerprint

META = {
    "id": "C13",
    "level": "exploration",
    "exhaustive": True,
    "technique": "branch-enumerating reference interpreter (projective Pauli-product / computational measurements, concretised "
                 "conditions) over all outcome strings of every measurement-based decomposition rule; per-branch Kraus operator "
                 "must equal the target unitary times a fixed auxiliary state",
    "level_text": "Every decomposition rule whose emitted circuit contains mid-circuit measurements (PPM / lattice-surgery rules of "
                  "Hadamard, CNOT, CY, CZ, measurement-based uncomputation of TemporaryAND and QROM, ...) is executed on generated "
                  "instances (wire labels, control values, sizes); all 2^k outcome branches are enumerated exhaustively by an "
                  "independent interpreter and each branch with p>0 is required to act as the operator's unitary up to a phase with the "
                  "auxiliary wires in one branch-independent state. Exhaustive over branches, exploration over instances.",
    "level_note": "Target unitary = the operator's matrix (templates: harness simulation of the legacy decomposition on the documented "
                  "domain). default.qubit tree-traversal as a second opinion for computational-basis rules is not used (C21 documents "
                  "crashes of that path). Rules with postselection are interpreted on the postselected branch only.",
    "shards": {"quick": 2, "thorough": 4},
    "budget_s": {"quick": 50, "thorough": 150},
    "min_evals": {"quick": 60, "thorough": 600},
    "min_nontrivial": {"quick": 20, "thorough": 40},
    "deciding": ["branch.unitary", "branch.aux"],
    "rule": "case = (rule, instance, outcome string) with branch probability > 0; distinct = distinct (rule, operator class, symbolic wrapper, "
            "resource params, control values, outcome string); non-trivial = the branch contains at least one measurement",
    "assumptions": ["outcome 0 <-> eigenvalue +1 (pauli_measure docstring)", "Conditional.meas_val.concretize evaluates the classical predicate"],
}

TOL = 1e-9


_PER_MECH = {}


def _viol(ctx, monitor, message, case=None, mech=None, observed=None, expected=None):
    """At most 3 witnesses per mechanism and shard (the bus keeps 40 per shard): further ones are only counted."""
    n = _PER_MECH.get(mech, 0)
    _PER_MECH[mech] = n + 1
    if n < 3:
        ctx.violation(monitor, message, case=case, mech=mech, observed=observed, expected=expected)
    else:
        ctx.count(f"more_witnesses[{mech}]")


def run(ctx):  # noqa: C901
    import warnings

    import pennylane as qp
    from pennylane.decomposition.decomposition_rule import _decomp_contains_mcm

    from pv.gen import c10_instances as GI
    from pv.ref import c10_circuit as CC
    from pv.ref import c13_branch as BR

    warnings.filterwarnings("ignore")
    mcm_classes = set()
    seen_rules = set()

    def handle(name, inst, rule, src, key):
        op = inst.op
        tagkey = key if key != "generated" else f"generated[{inst.tag or 'base'}]"
        try:
            P = CC.prepare(qp, rule, op)
        except Exception:  # noqa: BLE001
            return
        if P is None or P.error is not None:
            return
        declared = False
        try:
            declared = bool(_decomp_contains_mcm(rule, P.params))
        except Exception:  # noqa: BLE001
            pass
        if not (P.info["has_mcm"] or declared):
            return
        mcm_classes.add(name)
        info = {"class": name, "rule": rule.name, "registry_key": key, **GI.describe(inst),
                "emitted": [repr(o)[:90] for o in P.ops[:16]]}
        ctx.count("mcm_pairs")
        if declared != P.info["has_mcm"]:
            ctx.count("predicate_vs_scan_disagree")
            ctx.note_add("predicate_vs_scan_disagree", f"{tagkey}::{rule.name}: _decomp_contains_mcm={declared}, emitted has measurement={P.info['has_mcm']}")
        if not P.info["has_mcm"]:
            return
        try:
            t = CC.target_of(qp, inst)
            work = list(P.work) + list(t["work"])
            reg = list(t["wires"])
            if len(reg) + len(work) > 12:
                ctx.count("skipped_too_large")
                return
            order = [(w.wire, None if w.start == "any" else CC._START[w.start]) for w in work]   # pylint: disable=protected-access
            Vw = CC._input_isometry(order)                                                       # pylint: disable=protected-access
            V0 = np.kron(t["Vin"], Vw)
            wire_order = reg + [w.wire for w in work]
            if len(set(wire_order)) != len(wire_order):
                raise CC.Unsupported("duplicate wire")
            branches, nmeas = BR.enumerate_branches(qp, P.ops, wire_order, V0)
        except CC.Unsupported as e:
            ctx.count("unsupported")
            ctx.note_add("unsupported", f"{name}/{inst.tag}/{rule.name}: {str(e)[:160]}")
            ctx.uncovered(f"{key}::{rule.name}", f"unsupported: {str(e)[:120]}")
            return
        except Exception as e:  # noqa: BLE001
            ctx.inconclusive_case(f"{name}/{rule.name}: harness {type(e).__name__}: {e}")
            return
        ctx.cover(f"{key}::{rule.name}")
        seen_rules.add(f"{key}::{rule.name}")
        Uin = t["Uin"]
        Dt, Dti = Uin.shape
        Dw = 2 ** len(work)
        Dm = Vw.shape[1]
        postselected = any(BR._attr(o, "postselect") is not None for o in P.ops if type(o).__name__ in ("MidMeasure", "MidMeasureMP", "PauliMeasure"))
        ptot = 0.0
        aux = []
        try:
            rp = repr(sorted((k, repr(v)[:80]) for k, v in P.params.items()))
        except Exception:  # noqa: BLE001
            rp = ""
        try:
            cvals = [int(bool(v)) for v in (getattr(op, "control_values", None) if getattr(op, "control_values", None) is not None
                                            else getattr(getattr(op, "base", None), "control_values", []))]
        except Exception:  # noqa: BLE001
            cvals = []
        for b in branches:
            T = b.T.reshape(Dt, Dw, Dti, Dm)
            A = np.einsum("ac,awcm->wm", Uin.conj(), T) / Dti
            p = float(np.linalg.norm(A) ** 2 / Dm)
            pb_direct = float(np.linalg.norm(T) ** 2 / (Dti * Dm))
            ptot += pb_direct
            ctx.ev("branch.unitary")
            ctx.case(fingerprint(rule.name, type(op).__name__, inst.tag, rp, b.record, cvals), nontrivial=nmeas > 0,
                     cls=f"{key}::{rule.name}", sample={"rule": rule.name, "op": info["op"][:120], "branch": b.record, "p": pb_direct})
            E = np.einsum("ac,wm->awcm", Uin, A)
            res = float(np.max(np.abs(T - E))) / max(np.sqrt(pb_direct), 1e-12)
            binfo = {**info, "branch": b.record, "p": pb_direct, "n_measurements": nmeas, "work": [w.kind for w in work]}
            if res > 1e-7:
                _viol(ctx, "branch.unitary", f"{tagkey}::{rule.name} on {info['op']}: outcome branch {b.record!r} (p={pb_direct:.4f}) does not act "
                                                f"as the operator's unitary times a fixed auxiliary state (relative residual {res:.3e})",
                              case=binfo, mech=f"branch:{tagkey}:{rule.name}", observed={"residual": res, "p": pb_direct})
                continue
            aux.append((b.record, A / max(np.linalg.norm(A), 1e-300) * np.sqrt(Dm), pb_direct))
        if not postselected and abs(ptot - 1.0) > 1e-8:
            ctx.ev("branch.total")
            ctx.inconclusive_case(f"{name}/{rule.name}: branch probabilities sum to {ptot}")
        else:
            ctx.ev("branch.total")
        # ---- auxiliary wires: one known state
        if aux and work:
            ctx.ev("branch.aux")
            ref = aux[0][1]
            for rec, A, p in aux[1:]:
                d = sv_phase_dist(A, ref)
                if d > 1e-7:
                    _viol(ctx, "branch.aux", f"{tagkey}::{rule.name} on {info['op']}: auxiliary wires end in different states on branches "
                                                f"{aux[0][0]!r} and {rec!r} (distance {d:.3e}) — not a known state",
                                  case={**info, "branches": [aux[0][0], rec], "work": [w.kind for w in work]},
                                  mech=f"aux-branch-dependent:{tagkey}:{rule.name}", observed={"distance": d})
                    break
            # restored wires must be back in their start state
            restored = [i for i, w in enumerate(work) if w.restored]
            if restored and Dm == 1:
                a = ref.reshape([2] * len(work))
                for i in restored:
                    w = work[i]
                    if w.start != "zero":
                        continue
                    other = tuple(j for j in range(len(work)) if j != i)
                    pr = np.sum(np.abs(a) ** 2, axis=other) if other else np.abs(a) ** 2
                    if pr[1] > 1e-9:
                        _viol(ctx, "branch.aux", f"{tagkey}::{rule.name} on {info['op']}: zeroed work wire is not restored to |0> "
                                                    f"(P(1)={pr[1]:.3e})", case=info, mech=f"aux-not-restored:{tagkey}:{rule.name}")
                        break
        elif aux:
            ctx.ev("branch.aux")   # no auxiliary wires: trivially a known state

    # round 0: all classes (discover the measurement-based rules live); then extra rounds on the classes that have them
    for name, inst, rule, src, key in GI.workload(ctx, qp, rounds=1):
        handle(name, inst, rule, src, key)
    # (the known measurement-based classes are added so that every shard works on all of them; shards take different rounds)
    extra = 3 if ctx.quick else 12
    hint = {"Hadamard", "CNOT", "CY", "CZ", "TemporaryAND", "QROM", "PauliX", "PauliY", "PauliZ", "Toffoli", "FFQRAM"}
    if mcm_classes or hint:
        for name, inst, rule, src, key in GI.workload(ctx, qp, rounds=extra, only=set(mcm_classes) | hint, start_round=1 + ctx.shard,
                                                       shard_classes=False, round_step=ctx.nshards):
            handle(name, inst, rule, src, key)
    ctx.note("mcm_classes", sorted(mcm_classes))
    ctx.note("mcm_rules", sorted(seen_rules))


def sv_phase_dist(A, B):
    A = np.asarray(A, dtype=complex).reshape(-1)
    B = np.asarray(B, dtype=complex).reshape(-1)
    t = np.vdot(B, A)
    ph = t / abs(t) if abs(t) > 1e-14 else 1.0
    return float(np.linalg.norm(A - ph * B))
