"""C47 — Resource estimation composes additively.

Monitors (all on the REAL estimator code):

(a) M-ESTWIRES on ``WireResourceManager`` (installed in place on the class, so every manager that
    ``estimate`` creates is monitored too): class invariant ``zeroed >= 0 and any_state >= 0`` and the
    documented post-conditions of ``grab_zeroed`` / ``free_wires`` (conservation) through *icontract*
    (``pv.deps.icontract()``; plain wrapper fall-back when it is missing), plus "raises exactly when
    documented, and then leaves the state untouched".  A plain-int *peak* model of the manager
    (state = (total auxiliary wires, wires in use); zeroed is derived) is driven side by side with the
    real manager over random grab/free histories and compared after every step.
(b) recorded history + offline checker: wrappers on ``estimate._update_counts_from_compressed_res_op``
    and ``estimate._get_resource_decomposition`` log the call tree (op, scalar, decomposition, manager
    calls in order).  The checker re-derives, from the log alone, (i) that every child was visited with
    scalar = parent scalar x count, (ii) that every Allocate/Deallocate reached the manager with the
    documented amount (x scalar unless the decomposition is balanced), (iii) the gate counts as
    sum(scalar of the leaves) and (iv) the final auxiliary wires with the closed formula
    any = a0 + grabs - frees, zeroed + any = max(z0 + a0, peak(any)).
(c) differentials at the ``estimate`` boundary: counts(A;B) = counts(A) + counts(B) = counts(B;A),
    k-fold repetition = k x counts (repeated qfunc, ``Prod([(op, k)])``, ``k * op`` through the Resources
    path, ``Pow(op, k)`` for classes with the default pow rule), two-stage estimation through a larger
    gate set, tight-budget runs raise exactly when the recorded peak exceeds the budget, and a fully
    independent interpreter for workflows made of harness-defined block operators.
"""
import os
import sys

from pv.ctx import fingerprint

META = {
    "id": "C47",
    "level": "exploration",
    "technique": "icontract class invariant/post-conditions + plain-int peak model on WireResourceManager; recorded call-tree "
                 "history of estimate() with an offline re-computation; additivity / k-fold / two-stage differentials at the estimate boundary",
    "level_text": "Random workflows over 80+ estimator operator classes (symbolic Adjoint/Controlled/Pow/Prod/ChangeOpBasis, PennyLane "
                  "operators mapped through _map_to_resource_op, harness-defined block operators with programmable Allocate/Deallocate "
                  "patterns), random gate sets, configs and wire budgets are pushed through the real estimate(); every call is re-derived "
                  "from its logged call tree, gate counts are compared type-wise across A, B, A;B, B;A and k-fold forms, and every "
                  "WireResourceManager in the process runs under the M-ESTWIRES contract; 20k+ random grab/free steps are compared with a peak model.",
    "level_note": "Trusted: the per-operator decomposition tables (what an operator decomposes into) — only their composition is checked; "
                  "the balanced-allocation rule ('allocate/deallocate in series, not scaled') is taken from the comment/documentation in estimate.py. "
                  "Wire totals are deliberately not compared additively (peak, not sum). Negative gate counts produced by a decomposition table "
                  "(seen for TrotterCDF with one fragment) are outside the statement and only noted. Nothing of the design is left out; the "
                  "QNode form of workflows is only driven with default.qubit.",
    "design_ref": "7/C47",
    "shards": {"quick": 3, "thorough": 8},
    "budget_s": {"quick": 45, "thorough": 170},
    "min_evals": {"quick": 20000, "thorough": 400000},
    "min_nontrivial": {"quick": 150, "thorough": 2000},
    "deciding": ["mgr.contract", "mgr.shadow", "est.replay", "est.wires", "est.additive", "est.repeat", "est.twostage",
                 "est.tight", "est.model"],
    "rule": "case = (list A, list B of operator specs, gate set, config, budgets) or one manager history; distinct = fingerprint of the "
            "spec / history; non-trivial = workflow with >= 2 operators in which >= 1 allocation reached the manager, or a history "
            "with >= 1 grab and >= 1 free",
    "assumptions": ["decomposition tables are trusted; composition is what is checked",
                    "balanced allocations are not scaled, unbalanced ones are (rule stated in estimate.py)"],
    "allow_rejections": True,
}

DEFAULT_GATES = frozenset({"Toffoli", "T", "CNOT", "X", "Y", "Z", "S", "Hadamard"})  # documented default gate set
PRIMS = ["X", "Y", "Z", "S", "T", "Hadamard", "CNOT", "Toffoli"]
PRIM_WIRES = {"X": 1, "Y": 1, "Z": 1, "S": 1, "T": 1, "Hadamard": 1, "CNOT": 2, "Toffoli": 3}
EXTRA_GATES = ["RZ", "RX", "RY", "PhaseShift", "QFT", "MultiControlledX", "TemporaryAND", "Identity", "GlobalPhase", "SWAP",
               "CZ", "CY", "CH", "CCZ", "CSWAP", "Rot", "Adjoint(T)", "Adjoint(S)", "Adjoint(TemporaryAND)", "SemiAdder",
               "BasisRotation", "QROM", "Adjoint(QFT)", "ControlledPhaseShift", "CRZ", "MultiRZ", "PauliRot"]
HIST_BASE = 1_000_000_000  # case indices of manager histories start here


class PvContractError(AssertionError):
    """Raised by the M-ESTWIRES contract inside the real code (already recorded as a violation)."""


def I(rng, lo, hi):
    return int(rng.integers(lo, min(hi, 2 ** 62) + 1))


def pick(rng, seq):
    return seq[int(rng.integers(len(seq)))]


# =============================================================================================== monitors
class Trace:
    __slots__ = ("roots", "stack", "gd_depth", "mgr", "managers", "nnodes", "mgr_exc", "neg_requests")

    def __init__(self):
        self.roots, self.stack, self.gd_depth, self.mgr, self.managers = [], [], 0, [], []
        self.nnodes, self.mgr_exc, self.neg_requests = 0, None, 0


class Node:
    __slots__ = ("op", "scalar", "gate_set", "events", "decomp")

    def __init__(self, op, scalar, gate_set):
        self.op, self.scalar, self.gate_set, self.events, self.decomp = op, scalar, gate_set, [], None


def _state(m):
    return (m.zeroed, m.any_state, m._algo_wires, m.tight_budget)  # noqa: SLF001


def post_grab(pre, n, post):
    """Documented post-condition of grab_zeroed (no exception): failed clause names."""
    bad = []
    if post[1] != pre[1] + n:
        bad.append("any_state+=n")
    if post[0] != max(pre[0] - n, 0):
        bad.append("zeroed-=min(n,zeroed)")
    if post[2] != pre[2] or post[3] != pre[3]:
        bad.append("algo/tight-unchanged")
    if (post[0] + post[1]) != (pre[0] + pre[1]) + max(0, n - pre[0]):
        bad.append("total-accounts-allocation")
    return bad


def post_free(pre, n, post):
    bad = []
    if post[1] != pre[1] - n:
        bad.append("any_state-=n")
    if post[0] != pre[0] + n:
        bad.append("zeroed+=n")
    if post[2] != pre[2] or post[3] != pre[3]:
        bad.append("algo/tight-unchanged")
    if (post[0] + post[1]) != (pre[0] + pre[1]):
        bad.append("total-conserved")
    return bad


class Monitors:
    """Installs M-ESTWIRES on the class and the call-tree recorder on the estimate module."""

    def __init__(self, ctx, qre, E):
        self.ctx, self.qre, self.E = ctx, qre, E
        self.trace = None
        self.ic = None
        self.where = "?"  # what the driver is doing (for witnesses)
        self.witness = None

    # ------------------------------------------------------------------ M-ESTWIRES
    def _viol(self, mech, msg, **case):
        self.ctx.violation("mgr.contract", msg, case={"during": self.where, "workflow": self.witness, **case}, mech=mech)

    def install(self):
        from pv import deps

        ctx, W = self.ctx, self.qre.WireResourceManager
        ic = None if os.environ.get("PV_C47_NO_ICONTRACT") else deps.icontract()
        self.ic = ic
        ctx.note("icontract", getattr(ic, "__version__", None) if ic else "absent: plain wrapper fall-back")
        mon = self
        raw = {"grab": W.grab_zeroed, "free": W.free_wires}
        posts = {"grab": post_grab, "free": post_free}
        inner = {}
        if ic is not None:
            for kind in ("grab", "free"):
                def mk(kind=kind):
                    def cond(self, num_wires, OLD):
                        return num_wires < 0 or not posts[kind](OLD.pre, num_wires, _state(self))

                    def err(self, num_wires, OLD):
                        bad = posts[kind](OLD.pre, num_wires, _state(self))
                        mon._viol(f"mgr:post:{kind}:{bad[0]}", f"{kind}({num_wires}) broke documented post-condition(s) {bad}: "
                                  f"(zeroed, any_state, algo, tight) {OLD.pre} -> {_state(self)}", pre=OLD.pre, n=num_wires, post=_state(self))
                        return PvContractError(f"post-condition of {kind} broken: {bad}")

                    f = ic.ensure(cond, error=err)(raw[kind])
                    return ic.snapshot(lambda self: _state(self), name="pre")(f)
                inner[kind] = mk()
        else:
            for kind in ("grab", "free"):
                def mk(kind=kind):
                    def f(self, num_wires):
                        pre = _state(self)
                        r = raw[kind](self, num_wires)
                        if num_wires >= 0:
                            bad = posts[kind](pre, num_wires, _state(self))
                            if bad:
                                mon._viol(f"mgr:post:{kind}:{bad[0]}", f"{kind}({num_wires}) broke documented post-condition(s) {bad}: "
                                          f"{pre} -> {_state(self)}", pre=pre, n=num_wires, post=_state(self))
                        return r
                    return f
                inner[kind] = mk()

        def outer(kind):
            fn = inner[kind]

            def wrapper(self, num_wires):
                pre = _state(self)
                tr = mon.trace
                documented = (kind == "grab" and pre[3] and num_wires > pre[0]) or (kind == "free" and num_wires > pre[1])
                ctx.ev("mgr.contract")
                if num_wires < 0:
                    ctx.count("mgr.negative_request")
                    if tr is not None:
                        tr.neg_requests += 1
                try:
                    r = fn(self, num_wires)
                except ValueError as e:
                    post = _state(self)
                    if not documented:
                        mon._viol(f"mgr:raise-undocumented:{kind}", f"{kind}({num_wires}) raised ValueError outside its documented condition; state {pre}: {e}",
                                  pre=pre, n=num_wires)
                    if post != pre:
                        mon._viol(f"mgr:state-changed-on-raise:{kind}", f"{kind}({num_wires}) raised but changed the state {pre} -> {post}", pre=pre, n=num_wires, post=post)
                    if tr is not None:
                        tr.mgr_exc = e
                        tr.mgr.append((kind, num_wires, True))
                        if tr.stack:
                            tr.stack[-1].events.append(("m", kind, num_wires, True))
                    raise
                if num_wires < 0 and tr is not None:
                    post = _state(self)
                    mon._viol("mgr:negative-allocation" + mon._culprit(), f"{kind}({num_wires}): a negative number of auxiliary wires was requested"
                              f"{mon._culprit(True)}; (zeroed, any_state) went {pre[:2]} -> {post[:2]}"
                              + (" (negative bookkeeping)" if min(post[:2]) < 0 else " (phantom wires: later allocations are under-counted)"),
                              pre=pre, n=num_wires, post=post)
                    tr.mgr.append((kind, num_wires, False))
                    raise PvContractError(f"negative allocation {kind}({num_wires})")
                if documented:
                    mon._viol(f"mgr:missing-raise:{kind}", f"{kind}({num_wires}) must raise ValueError (documented) in state {pre} but returned; now {_state(self)}",
                              pre=pre, n=num_wires, post=_state(self))
                if ic is None:
                    mon._inv(self, f"after {kind}({num_wires})")
                if tr is not None:
                    tr.mgr.append((kind, num_wires, False))
                    if tr.stack:
                        tr.stack[-1].events.append(("m", kind, num_wires, False))
                return r

            wrapper.__name__ = raw[kind].__name__
            wrapper.__doc__ = raw[kind].__doc__
            return wrapper

        W.grab_zeroed = outer("grab")
        W.free_wires = outer("free")
        raw_init = W.__init__

        def init(self, *a, **k):
            raw_init(self, *a, **k)
            if mon.trace is not None:
                mon.trace.managers.append(_state(self))
            if ic is None:
                mon._inv(self, "after __init__")

        init.__name__ = "__init__"
        init.__doc__ = raw_init.__doc__
        W.__init__ = init
        if ic is not None:
            def inv_err(self):
                mon._viol("mgr:invariant-negative" + mon._culprit(), f"class invariant zeroed >= 0 and any_state >= 0 broken{mon._culprit(True)}: "
                          f"zeroed={self.zeroed}, any_state={self.any_state}", state=_state(self), last_manager_calls=mon.trace.mgr[-4:] if mon.trace else None)
                return PvContractError(f"WireResourceManager invariant broken: zeroed={self.zeroed}, any_state={self.any_state}")

            ic.invariant(lambda self: self.zeroed >= 0 and self.any_state >= 0, error=inv_err)(W)

        # -------------------------------------------------------------- call-tree recorder
        E = self.E
        orig_upd = E._update_counts_from_compressed_res_op  # noqa: SLF001
        orig_gd = E._get_resource_decomposition  # noqa: SLF001

        def upd(comp_res_op, gate_counts_dict, wire_manager, gate_set=None, scalar=1, config=None):
            tr = mon.trace
            if tr is None:
                return orig_upd(comp_res_op, gate_counts_dict, wire_manager, gate_set=gate_set, scalar=scalar, config=config)
            node = Node(comp_res_op, scalar, gate_set)
            (tr.stack[-1].events if tr.stack else tr.roots).append(("c", node))
            tr.stack.append(node)
            tr.nnodes += 1
            try:
                return orig_upd(comp_res_op, gate_counts_dict, wire_manager, gate_set=gate_set, scalar=scalar, config=config)
            finally:
                tr.stack.pop()

        def gd(comp_res_op, config):
            tr = mon.trace
            if tr is None or tr.gd_depth > 0 or not tr.stack:
                return orig_gd(comp_res_op, config)
            tr.gd_depth += 1
            try:
                d = orig_gd(comp_res_op, config)
            finally:
                tr.gd_depth -= 1
            tr.stack[-1].decomp = (comp_res_op, list(d))
            return d

        E._update_counts_from_compressed_res_op = upd  # noqa: SLF001
        E._get_resource_decomposition = gd  # noqa: SLF001

    def _inv(self, m, when):
        if not (m.zeroed >= 0 and m.any_state >= 0):
            self._viol("mgr:invariant-negative" + self._culprit(), f"class invariant zeroed >= 0 and any_state >= 0 broken {when}{self._culprit(True)}: "
                       f"zeroed={m.zeroed}, any_state={m.any_state}", state=_state(m))

    def _culprit(self, text=False):
        """The operator class whose decomposition is being carried out (mechanism tag of a contract breach inside estimate)."""
        tr = self.trace
        if tr is None or not tr.stack:
            return ""
        op = tr.stack[-1].op
        while op.op_type.__name__ in ("Adjoint", "Controlled", "Pow") and "base_cmpr_op" in op.params:
            op = op.params["base_cmpr_op"]  # the symbolic wrappers only re-use their base's decomposition
        name = op.op_type.__name__
        return f" while carrying out the decomposition of {tr.stack[-1].op.name}" if text else ":" + name


# =============================================================================================== peak model
class PeakModel:
    """Independent plain-int model of the documented manager: ``tot`` auxiliary wires exist, ``a`` of them are in use
    (unknown state); zeroed is what is left.  Allocation beyond the pool grows the pool (unless the budget is tight)."""

    def __init__(self, z, a, algo, tight):
        self.tot, self.a, self.algo, self.tight = z + a, a, algo, tight

    @property
    def z(self):
        return self.tot - self.a

    def grab(self, n):
        if self.a + n > self.tot:
            if self.tight:
                return False
            self.tot = self.a + n
        self.a += n
        return True

    def free(self, n):
        if n > self.a:
            return False
        self.a -= n
        return True


def run_history(ctx, qre, rng, idx):
    """One random grab/free history on a real manager next to the peak model."""
    W = qre.WireResourceManager
    z0, a0, algo = pick(rng, [0, 0, 1, 3, 8, 40]), pick(rng, [0, 0, 0, 2, 10]), I(rng, 0, 20)
    tight = bool(rng.random() < 0.35)
    form = I(rng, 0, 2)
    if form == 0:
        m = W(z0, a0, algo, tight)
    elif form == 1:
        m = W(zeroed=z0, any_state=a0, algo_wires=algo, tight_budget=tight)
    else:
        m = W(z0, any_state=a0, tight_budget=tight)
        m.algo_wires = algo
    sh = PeakModel(z0, a0, algo, tight)
    nsteps = I(rng, 15, 60)
    steps, ngrab, nfree, nerr = [], 0, 0, 0
    for s in range(nsteps):
        r = rng.random()
        if r < 0.45:
            kind = "grab"
            n = pick(rng, [0, 1, 1, 2, 3, sh.z, sh.z + 1, max(sh.z - 1, 0), I(rng, 0, 12), 10 ** 6 if rng.random() < 0.1 else 5, 2 ** 70 if rng.random() < 0.03 else 4])
        elif r < 0.9:
            kind = "free"
            n = pick(rng, [0, 1, 1, 2, sh.a, sh.a + 1 if rng.random() < 0.3 else sh.a, max(sh.a - 1, 0), I(rng, 0, max(sh.a, 1)), sh.a // 2])
        else:
            kind = "algo"
            n = I(rng, 0, 30)
        steps.append((kind, n))
        ctx.ev("mgr.shadow")
        raised = None
        try:
            if kind == "grab":
                m.grab_zeroed(n)
            elif kind == "free":
                m.free_wires(n)
            else:
                m.algo_wires = n
        except ValueError as e:
            raised = e
        except PvContractError:
            return s + 1  # recorded by the contract
        if kind == "algo":
            sh.algo, ok = n, True
        else:
            ok = sh.grab(n) if kind == "grab" else sh.free(n)
            ngrab += kind == "grab" and ok
            nfree += kind == "free" and ok
        nerr += not ok
        wit = {"init": [z0, a0, algo, tight], "steps": steps[-12:], "step": s}
        if ok and raised is not None:
            ctx.violation("mgr.shadow", f"{kind}({n}) raised {raised} but the model allows it (model zeroed={sh.z}, any={sh.a}, tight={tight})",
                          case=wit, mech=f"shadow:spurious-raise:{kind}")
            return s + 1
        if not ok and raised is None:
            ctx.violation("mgr.shadow", f"{kind}({n}) must raise ValueError (model zeroed={sh.z}, any={sh.a}, tight={tight}) but returned",
                          case=wit, mech=f"shadow:missing-raise:{kind}")
            return s + 1
        obs = {"zeroed": m.zeroed, "any_state": m.any_state, "algo_wires": m.algo_wires, "total_wires": m.total_wires}
        exp = {"zeroed": sh.z, "any_state": sh.a, "algo_wires": sh.algo, "total_wires": sh.tot + sh.algo}
        for k in obs:
            if obs[k] != exp[k]:
                ctx.violation("mgr.shadow", f"after {kind}({n}): {k} = {obs[k]} but the model says {exp[k]}", case=wit, mech=f"shadow:{k}:{kind}",
                              observed=obs, expected=exp)
                return s + 1
        if s % 7 == 0:  # equality view: a fresh manager with the model's numbers must compare equal
            twin = W(sh.z, sh.a, sh.algo, tight)
            if not (m == twin) or (m == W(sh.z + 1, sh.a, sh.algo, tight)):
                ctx.violation("mgr.shadow", f"__eq__ disagrees with the state after {kind}({n}): {m!r} vs {twin!r}", case=wit, mech="shadow:eq")
                return s + 1
    ctx.case(fingerprint("hist", z0, a0, algo, tight, steps), nontrivial=bool(ngrab and nfree), cls="history",
             sample={"kind": "manager history", "init": [z0, a0, algo, tight], "steps": steps[:10], "grabs": int(ngrab), "frees": int(nfree), "documented_errors": int(nerr)}
             if idx % 50 == 0 else None)
    return nsteps


# =============================================================================================== operator specs
def prim(rng):
    return {"c": pick(rng, PRIMS), "kw": {}}


def _simple(rng):
    names = ["X", "Y", "Z", "Hadamard", "S", "T", "CNOT", "CZ", "CY", "CH", "SWAP", "Toffoli", "CCZ", "CSWAP", "TemporaryAND", "RX", "RY", "RZ", "Rot",
             "PhaseShift", "CRX", "CRY", "CRZ", "CRot", "ControlledPhaseShift", "SingleExcitation", "Identity", "GlobalPhase",
             "SingleQubitComparator", "TwoQubitComparator"]
    n = pick(rng, names)
    kw = {}
    if n in ("RX", "RY", "RZ", "Rot", "PhaseShift", "CRX", "CRY", "CRZ", "CRot", "ControlledPhaseShift", "SingleExcitation") and rng.random() < 0.4:
        kw["precision"] = pick(rng, [1e-3, 1e-5, 1e-9, 1e-12])
    if n == "Toffoli" and rng.random() < 0.5:
        kw["elbow"] = pick(rng, ["left", "right"])
    return {"c": n, "kw": kw}


def _thc(rng):
    return {"ham": "THCHamiltonian", "kw": {"num_orbitals": I(rng, 2, 5), "tensor_rank": I(rng, 2, 8)}}


def _pham(rng):
    terms = {"X": I(rng, 1, 3), "XX": I(rng, 1, 3), "ZY": 1}
    if rng.random() < 0.5:
        terms["ZZZ"] = I(rng, 1, 2)
    return {"ham": "PauliHamiltonian", "kw": {"num_qubits": 4, "pauli_terms": terms}}


def _order(rng):
    return pick(rng, [1, 2, 2, 4])


RECIPES = {
    "AQFT": lambda r: {"order": I(r, 1, 3), "num_wires": I(r, 3, 5)},
    "AliasSampling": lambda r: {"num_coeffs": I(r, 2, 9)},
    "BBQRAM": lambda r: {"num_bitstrings": 4, "size_bitstring": 3, "num_wires": 15},
    "BasisEmbedding": lambda r: {"num_wires": I(r, 1, 5)},
    "BasisRotation": lambda r: {"dim": I(r, 2, 5)},
    "BasisState": lambda r: {"num_wires": I(r, 1, 5)},
    "IntegerComparator": lambda r: {"value": I(r, 0, 9), "register_size": I(r, 2, 5), "geq": bool(I(r, 0, 1))},
    "IQP": lambda r: {"num_wires": 3, "pattern": [[[0]], [[1]], [[0, 1]]]},
    "MPSPrep": lambda r: {"num_mps_matrices": I(r, 2, 4), "max_bond_dim": I(r, 2, 5)},
    "MultiControlledX": lambda r: (lambda n: {"num_ctrl_wires": n, "num_zero_ctrl": I(r, 0, n)})(I(r, 1, 6)),
    "MultiRZ": lambda r: {"num_wires": I(r, 1, 5)},
    "OutMultiplier": lambda r: {"a_num_wires": I(r, 1, 4), "b_num_wires": I(r, 1, 4)},
    "OutOfPlaceSquare": lambda r: {"register_size": I(r, 1, 5)},
    "PCPhase": lambda r: {"num_wires": I(r, 2, 4), "dim": I(r, 1, 4)},
    "PauliRot": lambda r: {"pauli_string": "".join("XYZ"[I(r, 0, 2)] for _ in range(I(r, 1, 4)))},
    "PhaseGradient": lambda r: {"num_wires": I(r, 1, 6)},
    "QFT": lambda r: {"num_wires": I(r, 1, 5)},
    "QROM": lambda r: {"num_bitstrings": I(r, 1, 12), "size_bitstring": I(r, 1, 5), "restored": bool(I(r, 0, 1))},
    "QROMStatePreparation": lambda r: {"num_state_qubits": I(r, 1, 4), "positive_and_real": bool(I(r, 0, 1))},
    "QubitUnitary": lambda r: {"num_wires": I(r, 1, 4)},
    "RegisterComparator": lambda r: {"first_register": I(r, 1, 5), "second_register": I(r, 1, 5), "geq": bool(I(r, 0, 1))},
    "SelectPauliRot": lambda r: {"rot_axis": "XYZ"[I(r, 0, 2)], "num_ctrl_wires": I(r, 1, 4)},
    "SemiAdder": lambda r: {"max_register_size": I(r, 1, 6)},
    "UniformStatePrep": lambda r: {"num_states": I(r, 2, 12)},
    "Reflection": lambda r: {"num_wires": I(r, 1, 4)},
    "Select": lambda r: {"ops": [_simple(r) for _ in range(I(r, 1, 5))]},
    "ControlledSequence": lambda r: {"base": _simple(r), "num_control_wires": I(r, 1, 4)},
    "QPE": lambda r: {"base": _simple(r), "num_estimation_wires": I(r, 1, 4)},
    "IterativeQPE": lambda r: {"base": _simple(r), "num_iter": I(r, 1, 4)},
    "Qubitization": lambda r: {"prep_op": {"c": "UniformStatePrep", "kw": {"num_states": I(r, 2, 6)}},
                               "select_op": {"c": "Select", "kw": {"ops": [_simple(r) for _ in range(3)]}}},
    "UnaryIterationQPE": lambda r: {"walk_op": {"c": "Qubitization", "kw": RECIPES["Qubitization"](r)}, "num_iterations": I(r, 1, 5)},
    "GQSP": lambda r: {"signal_operator": _simple(r), "d_plus": I(r, 1, 4), "d_minus": I(r, 0, 3)},
    "QSP": lambda r: {"block_encoding": {"c": "RX", "kw": {}}, "poly_deg": I(r, 1, 5), "convention": "XZ"[I(r, 0, 1)]},
    "QSVT": lambda r: {"block_encoding": _simple(r), "encoding_dims": {"tuple": [1, 1]}, "poly_deg": I(r, 1, 5)},
    "GQSPTimeEvolution": lambda r: {"walk_op": _simple(r), "time": 0.5, "one_norm": 1.5, "poly_approx_precision": 1e-3},
    "HybridQRAM": lambda r: {"data": ["010", "111", "110", "000"], "num_wires": 11, "num_select_wires": 1, "num_control_wires": 2},
    "SelectOnlyQRAM": lambda r: {"data": ["010", "111", "110", "000"], "num_wires": 9, "num_control_wires": 2, "num_select_wires": 2},
    "PrepTHC": lambda r: {"thc_ham": _thc(r)},
    "SelectTHC": lambda r: {"thc_ham": _thc(r)},
    "QubitizeTHC": lambda r: {"thc_ham": _thc(r)},
    "TrotterTHC": lambda r: {"thc_ham": _thc(r), "num_steps": I(r, 1, 3), "order": _order(r)},
    "TrotterCDF": lambda r: {"cdf_ham": {"ham": "CDFHamiltonian", "kw": {"num_orbitals": I(r, 2, 4), "num_fragments": I(r, 1, 3)}},
                             "num_steps": I(r, 1, 3), "order": _order(r)},
    "TrotterPauli": lambda r: {"pauli_ham": _pham(r), "num_steps": I(r, 1, 3), "order": _order(r)},
    "SelectPauli": lambda r: {"pauli_ham": _pham(r)},
    "TrotterProduct": lambda r: {"first_order_expansion": [_simple(r) for _ in range(I(r, 1, 4))], "num_steps": I(r, 1, 3), "order": _order(r)},
    "TrotterVibrational": lambda r: {"vibration_ham": {"ham": "VibrationalHamiltonian", "kw": {"num_modes": 2, "grid_size": 2, "taylor_degree": 2}},
                                     "num_steps": 1, "order": I(r, 1, 2)},
    "TrotterVibronic": lambda r: {"vibronic_ham": {"ham": "VibronicHamiltonian", "kw": {"num_modes": 2, "num_states": 2, "grid_size": 2, "taylor_degree": 2}},
                                  "num_steps": 1, "order": I(r, 1, 2)},
}
TEMPLATES = sorted(RECIPES)
SIMPLE_NAMES = ["X", "Y", "Z", "Hadamard", "S", "T", "CNOT", "CZ", "CY", "CH", "SWAP", "Toffoli", "CCZ", "CSWAP", "TemporaryAND", "RX", "RY", "RZ", "Rot",
                "PhaseShift", "CRX", "CRY", "CRZ", "CRot", "ControlledPhaseShift", "SingleExcitation", "Identity", "GlobalPhase",
                "SingleQubitComparator", "TwoQubitComparator"]
SYMBOLIC = ["Adjoint", "Controlled", "Pow", "Prod", "ChangeOpBasis"]
ALL_CLASSES = sorted(set(TEMPLATES) | set(SIMPLE_NAMES) | set(SYMBOLIC))

# PennyLane operators pushed through _map_to_resource_op: (name, number of parameters, number of wires)
PL_OPS = [("Hadamard", 0, 1), ("S", 0, 1), ("T", 0, 1), ("X", 0, 1), ("Y", 0, 1), ("Z", 0, 1), ("SWAP", 0, 2), ("CNOT", 0, 2), ("CZ", 0, 2), ("CY", 0, 2),
          ("CH", 0, 2), ("Toffoli", 0, 3), ("CCZ", 0, 3), ("CSWAP", 0, 3), ("RX", 1, 1), ("RY", 1, 1), ("RZ", 1, 1), ("PhaseShift", 1, 1), ("Rot", 3, 1),
          ("CRX", 1, 2), ("CRY", 1, 2), ("CRZ", 1, 2), ("CRot", 3, 2), ("ControlledPhaseShift", 1, 2), ("SingleExcitation", 1, 2),
          ("IsingXX", 1, 2), ("IsingZZ", 1, 2), ("MultiRZ", 1, 3), ("QFT", 0, 3), ("Identity", 0, 1), ("GlobalPhase", 1, 1), ("DoubleExcitation", 1, 4),
          ("SX", 0, 1), ("ISWAP", 0, 2)]
PL_SYMBOLIC_BASES = [("S", 0, 1), ("T", 0, 1), ("RX", 1, 1), ("Hadamard", 0, 1), ("CNOT", 0, 2), ("RZ", 1, 1), ("SWAP", 0, 2)]


def gen_block(rng, depth, pure, leafgen):
    """Spec of a harness-defined block operator with a programmable Allocate/Deallocate pattern."""
    body = []
    for _ in range(I(rng, 1, 4)):
        r = rng.random()
        if r < 0.6 or depth >= 2:
            child = prim(rng)
        elif r < 0.85 or pure:
            child = gen_block(rng, depth + 1, pure, leafgen)
        else:
            child = leafgen(rng)
        body.append(["g", child, pick(rng, [0, 1, 1, 1, 2, 3, 5, 10])])
    style = pick(rng, ["none", "balanced", "balanced", "balanced", "nested", "split", "leak", "leak", "partial", "free-first", "net-free", "zero"])
    n = I(rng, 1, 4)
    if style == "none":
        prog = body
    elif style == "balanced":
        prog = [["a", n]] + body + [["d", n]]
    elif style == "nested":
        m = I(rng, 1, 3)
        j = I(rng, 0, len(body))
        prog = [["a", n]] + body[:j] + [["a", m]] + body[j:] + [["d", m], ["d", n]]
    elif style == "split":
        n += 1
        k = I(rng, 1, n - 1)
        j = I(rng, 0, len(body))
        prog = [["a", n]] + body[:j] + [["d", k]] + body[j:] + [["d", n - k]]
    elif style == "leak":
        prog = [["a", n]] + body + ([["d", I(rng, 0, n - 1)]] if rng.random() < 0.5 else [])
    elif style == "partial":
        j = I(rng, 0, len(body))
        prog = [["a", n + 1]] + body[:j] + [["d", 1]] + body[j:] + [["a", I(rng, 1, 3)]]
    elif style == "free-first":  # balanced, but frees before it allocates: legal only with any_state wires around
        prog = [["d", n]] + body + [["a", n]]
    elif style == "net-free":
        prog = body + [["d", n]]
    else:
        prog = [["a", 0]] + body + [["d", 0]]
    return {"c": "PvBlock", "kw": {"prog": prog, "num_wires": I(rng, 1, 4)}}


def gen_real(rng):
    r = rng.random()
    if r < 0.35:
        return _simple(rng)
    name = pick(rng, TEMPLATES)
    return {"c": name, "kw": RECIPES[name](rng)}


def gen_symbolic(rng, depth, basegen):
    kind = pick(rng, SYMBOLIC)
    sub = (lambda: gen_symbolic(rng, depth + 1, basegen)) if depth < 1 and rng.random() < 0.3 else (lambda: basegen(rng))
    if kind == "Adjoint":
        return {"c": "Adjoint", "kw": {"base_op": sub()}}
    if kind == "Controlled":
        n = I(rng, 1, 3)
        return {"c": "Controlled", "kw": {"base_op": sub(), "num_ctrl_wires": n, "num_zero_ctrl": I(rng, 0, n)}}
    if kind == "Pow":
        return {"c": "Pow", "kw": {"base_op": sub(), "pow_z": pick(rng, [0, 1, 2, 3, 4, 7])}}
    if kind == "Prod":
        fs = []
        for _ in range(I(rng, 1, 4)):
            s = sub()
            fs.append({"f": s, "n": pick(rng, [0, 1, 2, 3, 6])} if rng.random() < 0.5 else s)
        return {"c": "Prod", "kw": {"res_ops": fs}}
    kw = {"compute_op": sub(), "target_op": sub()}
    if rng.random() < 0.4:
        kw["uncompute_op"] = sub()
    return {"c": "ChangeOpBasis", "kw": kw}


def gen_pl(rng, pool):
    r = rng.random()
    if r < 0.75:
        name, npar, nw = pick(rng, PL_OPS)
        return {"pl": name, "args": [round(float(rng.uniform(-3, 3)), 6) for _ in range(npar)], "w": [pool[int(i)] for i in rng.choice(len(pool), size=nw, replace=False)]}
    name, npar, nw = pick(rng, PL_SYMBOLIC_BASES)
    idx = rng.choice(len(pool), size=nw + 2, replace=False)
    base = {"pl": name, "args": [round(float(rng.uniform(-3, 3)), 6) for _ in range(npar)], "w": [pool[int(i)] for i in idx[:nw]]}
    kind = pick(rng, ["adjoint", "pow", "ctrl", "prod"])
    if kind == "adjoint":
        return {"pl": "adjoint", "base": base}
    if kind == "pow":
        return {"pl": "pow", "base": base, "z": pick(rng, [2, 3, 5])}
    if kind == "ctrl":
        nc = I(rng, 1, 2)
        return {"pl": "ctrl", "base": base, "control": [pool[int(i)] for i in idx[nw:nw + nc]], "values": [bool(I(rng, 0, 1)) for _ in range(nc)]}
    return {"pl": "prod", "factors": [base, {"pl": "Hadamard", "args": [], "w": [base["w"][0]]}]}


class Builder:
    """Turns JSON-able specs into live operators (inside or outside a recording queue)."""

    def __init__(self, qp, qre):
        self.qp, self.qre = qp, qre
        ResourceOperator, CompressedResourceOp = qre.ResourceOperator, qre.CompressedResourceOp
        GateCount, Allocate, Deallocate = qre.GateCount, qre.Allocate, qre.Deallocate

        class PvBlock(ResourceOperator):
            """Harness-defined resource operator: ``prog`` is its decomposition, verbatim."""

            resource_keys = {"prog", "num_wires"}

            def __init__(self, prog, num_wires, wires=None):
                self.prog = prog
                self.num_wires = num_wires
                super().__init__(wires=wires)

            @property
            def resource_params(self):
                return {"prog": self.prog, "num_wires": self.num_wires}

            @classmethod
            def resource_rep(cls, prog, num_wires):
                return CompressedResourceOp(cls, num_wires, {"prog": prog, "num_wires": num_wires})

            @classmethod
            def resource_decomp(cls, prog, num_wires):
                out = []
                for act in prog:
                    if act[0] == "g":
                        out.append(GateCount(act[1], act[2]))
                    elif act[0] == "a":
                        out.append(Allocate(act[1]))
                    else:
                        out.append(Deallocate(act[1]))
                return out

        self.PvBlock = PvBlock

    def value(self, v):
        if isinstance(v, dict):
            if "c" in v or "pl" in v:
                return self.op(v)
            if "ham" in v:
                return getattr(self.qre, v["ham"])(**{k: self.value(x) for k, x in v["kw"].items()})
            if "f" in v:
                return (self.op(v["f"]), v["n"])
            if "tuple" in v:
                return tuple(v["tuple"])
            return {k: self.value(x) for k, x in v.items()}
        if isinstance(v, list):
            return [self.value(x) for x in v]
        return v

    def op(self, spec):
        qp, qre = self.qp, self.qre
        if "pl" in spec:
            k = spec["pl"]
            if k == "adjoint":
                return qp.adjoint(self.op(spec["base"]))
            if k == "pow":
                return qp.pow(self.op(spec["base"]), spec["z"])
            if k == "ctrl":
                return qp.ctrl(self.op(spec["base"]), control=spec["control"], control_values=spec["values"])
            if k == "prod":
                return qp.prod(*[self.op(f) for f in spec["factors"]])
            return getattr(qp, k)(*spec["args"], wires=spec["w"])
        c = spec["c"]
        w = spec.get("w")
        if c == "PvBlock":
            with qp.QueuingManager.stop_recording():
                prog = []
                for act in spec["kw"]["prog"]:
                    if act[0] == "g":
                        prog.append(("g", self.op(act[1]).resource_rep_from_op(), act[2]))
                    else:
                        prog.append((act[0], act[1]))
            return self.PvBlock(tuple(prog), spec["kw"]["num_wires"], wires=w)
        cls = getattr(qre, c)
        kw = {k: self.value(x) for k, x in spec["kw"].items()}
        if w is not None:
            kw["wires"] = w
        return cls(**kw)


def spec_classes(spec, out):
    """Names of all operator classes mentioned in a spec (for coverage)."""
    if isinstance(spec, dict):
        if "c" in spec:
            out.add(spec["c"])
        if "pl" in spec:
            out.add("pl:" + spec["pl"])
        for v in spec.values():
            spec_classes(v, out)
    elif isinstance(spec, list):
        for v in spec:
            spec_classes(v, out)
    return out


def is_pure(spec):
    if spec.get("c") in PRIMS and not spec.get("kw"):
        return True
    if spec.get("c") == "PvBlock":
        return all(act[0] != "g" or is_pure(act[1]) for act in spec["kw"]["prog"])
    return False


# =============================================================================================== independent interpreter
def model_run(specs, z0, a0):
    """Counts (by gate name) and final (zeroed, any_state) of a pure workflow, from the specs alone.
    Returns (counts, (zeroed, any) | "free-exceeds")."""
    counts, calls = {}, []

    def go(spec, scalar):
        c = spec["c"]
        if c != "PvBlock":
            counts[c] = counts.get(c, 0) + scalar
            return
        prog = spec["kw"]["prog"]
        bal = sum(a[1] for a in prog if a[0] == "a") - sum(a[1] for a in prog if a[0] == "d")
        for act in prog:
            if act[0] == "g":
                go(act[1], scalar * act[2])
            else:
                calls.append((act[0], act[1] * (scalar if bal != 0 else 1)))

    for s in specs:
        go(s, 1)
    m = PeakModel(z0, a0, 0, False)
    for kind, n in calls:
        if kind == "a":
            m.grab(n)
        elif not m.free(n):
            return counts, "free-exceeds"
    return {k: v for k, v in counts.items() if v}, (m.z, m.a)


# =============================================================================================== driver
def canon(x):
    """Canonical, hashable form of a compressed operator / parameter value.  Written for the harness so that grouping
    "by operator type" never relies on CompressedResourceOp.__eq__/__hash__ (values that Python's dict would merge,
    True/1/1.0, are merged here too)."""
    if hasattr(x, "op_type") and hasattr(x, "params"):
        return ("op", x.op_type.__name__, canon(x.num_wires), canon(x.params))
    if isinstance(x, dict):
        return ("d",) + tuple(sorted(((str(k), canon(v)) for k, v in x.items()), key=repr))
    if isinstance(x, (list, tuple)):
        return ("l",) + tuple(canon(v) for v in x)
    if isinstance(x, (set, frozenset)):
        return ("s",) + tuple(sorted((canon(v) for v in x), key=repr))
    if hasattr(x, "tolist") and hasattr(x, "shape"):
        return canon(x.tolist()) if tuple(x.shape) == () else ("nd", tuple(x.shape), canon(x.tolist()))
    if isinstance(x, bool):
        return int(x)
    if isinstance(x, float) and x.is_integer() and abs(x) < 2 ** 53:
        return int(x)
    if x is None or isinstance(x, (int, float, str)):
        return x
    return repr(x)


def show(key, cap=160):
    """Short readable form of a canonical key."""
    if isinstance(key, tuple) and key and key[0] == "op":
        return f"{key[1]}[{key[2]}]{show(key[3], cap)}"[:cap]
    return repr(key)[:cap]


def counts_of(res):
    """Type-wise gate counts of a Resources object keyed by the canonical form of the compressed operator (zeros dropped)."""
    out = {}
    for k, v in res.gate_types.items():
        if v:
            key = canon(k)
            out[key] = out.get(key, 0) + v
    return {k: v for k, v in out.items() if v}


def cadd(a, b, kb=1):
    out = dict(a)
    for k, v in b.items():
        out[k] = out.get(k, 0) + kb * v
    return {k: v for k, v in out.items() if v}


def cscale(a, k):
    return {g: v * k for g, v in a.items() if v * k}


def ceq(a, b):
    if a.keys() != b.keys():
        return False
    for k in a:
        x, y = a[k], b[k]
        if isinstance(x, int) and isinstance(y, int):
            if x != y:
                return False
        elif abs(x - y) > 1e-9 * max(1.0, abs(x), abs(y)):
            return False
    return True


def cdiff(a, b, cap=6):
    d = {}
    for k in sorted(set(a) | set(b), key=repr):
        if a.get(k, 0) != b.get(k, 0):
            d[show(k)] = [a.get(k, 0), b.get(k, 0)]
            if len(d) >= cap:
                break
    return d


def where_raised(e):
    """Mechanism tag of an exception escaping the real code: type @ file:function of the innermost PennyLane frame."""
    tb, last = e.__traceback__, None
    while tb is not None:
        fn = tb.tb_frame.f_code.co_filename
        if "pennylane" in fn and "/pv/" not in fn:
            last = (os.path.basename(fn), tb.tb_frame.f_code.co_name)
        tb = tb.tb_next
    return f"raise:{type(e).__name__}@{last[0]}:{last[1]}" if last else f"raise:{type(e).__name__}"


class Driver:
    def __init__(self, ctx, qp, qre, mon, builder):
        self.ctx, self.qp, self.qre, self.mon, self.b = ctx, qp, qre, mon, builder
        from pennylane.exceptions import ResourcesUndefinedError
        self.RUE = ResourcesUndefinedError
        self.default_pow = qre.ResourceOperator.pow_resource_decomp.__func__
        self.allocs_seen = 0

    # ------------------------------------------------------------------ one monitored estimate() call
    def est(self, what, wf, witness, gate_set=None, z0=0, a0=0, tight=False, config=None, min_algo=None, roots=None):
        """Runs the real estimate under the recorder and the offline checker.
        Returns ("ok", Resources, trace) | ("reject", kind, trace) | ("bad", None, trace)."""
        ctx, mon = self.ctx, self.mon
        tr = Trace()
        mon.where, mon.witness = what, witness
        mon.trace = tr
        try:
            res = self.qre.estimate(wf, gate_set=gate_set, zeroed_wires=z0, any_state_wires=a0, tight_wires_budget=tight, config=config)
            if callable(res) and not isinstance(res, self.qre.Resources):
                res = res()
        except PvContractError:
            return "bad", None, tr
        except ValueError as e:
            mon.trace = None
            if tr.mgr_exc is e:
                kind = "tight-budget" if tr.mgr and tr.mgr[-1][0] == "grab" else "free-exceeds-any_state"
                ctx.reject(kind)
                self.check_tree(what, tr, None, witness, gate_set, roots, partial=True)
                return "reject", kind, tr
            ctx.violation("est.replay", f"{what}: estimate raised ValueError that does not come from the wire manager: {e}", case=witness,
                          mech=where_raised(e))
            return "bad", None, tr
        except (self.RUE, NotImplementedError) as e:
            mon.trace = None
            ctx.reject(type(e).__name__)
            return "reject", type(e).__name__, tr
        except Exception as e:  # noqa: BLE001
            mon.trace = None
            ctx.violation("est.replay", f"{what}: estimate raised {type(e).__name__}: {e}", case=witness, mech=where_raised(e))
            return "bad", None, tr
        finally:
            mon.trace = None
        self.allocs_seen += len(tr.mgr)
        self.check_tree(what, tr, res, witness, gate_set, roots, partial=False)
        self.check_wires(what, tr, res, witness, z0, a0, tight, min_algo)
        return "ok", res, tr  # the differentials below run on whatever estimate returned, whether or not the history checked out

    # ------------------------------------------------------------------ offline checker: the call tree
    def check_tree(self, what, tr, res, witness, gate_set, roots, partial):
        ctx = self.ctx
        qre = self.qre
        gs = DEFAULT_GATES if gate_set is None else gate_set
        counts = {}
        bad = []

        def v(mech, msg, **extra):
            if not bad:
                ctx.violation("est.replay", f"{what}: {msg}", case={**witness, **extra}, mech=mech)
            bad.append(mech)

        def visit(node, path):
            name = node.op.name
            here = path + [name]
            if name in gs:
                if node.events or node.decomp is not None:
                    v("replay:leaf-decomposed", f"{name} is in the gate set but was decomposed further", path=here)
                key = canon(node.op)
                counts[key] = counts.get(key, 0) + node.scalar
                return
            if node.decomp is None:
                if not partial:
                    v("replay:no-decomposition", f"{name} is not in the gate set, yet no decomposition was requested for it", path=here)
                return
            dop, decomp = node.decomp
            if dop is not node.op and canon(dop) != canon(node.op):
                v("replay:decomposed-other-op", f"decomposition requested for {dop.name} while visiting {name}", path=here)
            bal = 0
            for act in decomp:
                if isinstance(act, qre.Allocate):
                    bal += act.num_wires
                elif isinstance(act, qre.Deallocate):
                    bal -= act.num_wires
            exp = []
            for act in decomp:
                if isinstance(act, qre.GateCount):
                    exp.append(("c", act.gate, node.scalar * act.count))
                elif isinstance(act, qre.Allocate):
                    exp.append(("m", "grab", act.num_wires * (node.scalar if bal != 0 else 1)))
                elif isinstance(act, qre.Deallocate):
                    exp.append(("m", "free", act.num_wires * (node.scalar if bal != 0 else 1)))
                else:
                    v("replay:unknown-action", f"decomposition of {name} contains {type(act).__name__}", path=here)
            evs = node.events
            for i, e in enumerate(exp):
                if i >= len(evs):
                    if not partial:
                        v("replay:action-skipped", f"decomposition of {name} (scalar {node.scalar}) has {len(exp)} actions but only {len(evs)} were carried out; "
                                                   f"first missing: {e[:1] + (getattr(e[1], 'name', e[1]),) + e[2:]}", path=here)
                    break
                g = evs[i]
                if e[0] == "c":
                    if g[0] != "c":
                        v("replay:sequence", f"in {name}: expected a visit of {e[1].name}, saw manager call {g[1:]}", path=here)
                        break
                    ch = g[1]
                    if ch.op is not e[1] and canon(ch.op) != canon(e[1]):
                        v("replay:child-op", f"in {name}: expected child {e[1].name}, visited {ch.op.name}", path=here)
                    if ch.scalar != e[2]:
                        v("replay:child-scalar", f"in {name} (scalar {node.scalar}): child {e[1].name} x{e[2] // node.scalar if node.scalar else '?'} "
                                                 f"visited with scalar {ch.scalar}, expected {e[2]}", path=here, observed_scalar=ch.scalar, expected_scalar=e[2])
                    if ch.gate_set is not node.gate_set and ch.gate_set != gs:
                        v("replay:gate-set-changed", f"in {name}: the gate set changed on the way down", path=here)
                    visit(ch, here)
                else:
                    if g[0] != "m" or g[1] != e[1]:
                        v("replay:sequence", f"in {name}: expected manager call {e[1]}({e[2]}), saw {g[0]} {g[1] if g[0] == 'm' else g[1].op.name}", path=here)
                        break
                    if g[2] != e[2]:
                        v(f"replay:alloc-amount:{'unbalanced' if bal else 'balanced'}",
                          f"in {name} (scalar {node.scalar}, allocation balance {bal}): {e[1]} of {g[2]} wires reached the manager, documented amount is {e[2]}",
                          path=here, observed=g[2], expected=e[2])
            if len(evs) > len(exp):
                v("replay:extra-action", f"{name}: {len(evs)} actions carried out for a decomposition of {len(exp)}", path=here)

        for kind, node in tr.roots:
            visit(node, [])
        if roots is not None and not partial:
            got = [(canon(n.op), n.scalar) for _, n in tr.roots]
            expd = [(canon(o), s) for o, s in roots]
            if got != expd:
                v("replay:roots", f"top-level visits {[(n.op.name, n.scalar) for _, n in tr.roots][:8]} differ from the workflow's operators "
                                  f"{[(o.name, s) for o, s in roots][:8]}")
        if res is not None:
            ctx.ev("est.replay")
            counts = {k: c for k, c in counts.items() if c}
            got = counts_of(res)
            if not ceq(got, counts):
                v("replay:counts", f"returned gate counts differ from the sum over the logged leaves (scalar-weighted): {cdiff(got, counts)}",
                  observed=cdiff(got, counts))
            if any(isinstance(c, (int, float)) and c < 0 for c in got.values()):
                ctx.count("negative_gate_counts_from_tables")
                ctx.note_add("negative_gate_count_ops", sorted({n.op.name for _, n in tr.roots})[:4])
        return not bad

    # ------------------------------------------------------------------ offline checker: the wires
    def check_wires(self, what, tr, res, witness, z0, a0, tight, min_algo):
        ctx = self.ctx
        ctx.ev("est.wires")
        bad = []

        def v(mech, msg, **extra):
            if not bad:
                ctx.violation("est.wires", f"{what}: {msg}", case={**witness, "budget": [z0, a0, tight], "manager_calls": tr.mgr[:40], **extra}, mech=mech)
            bad.append(mech)

        z, a, algo = res.zeroed_wires, res.any_state_wires, res.algo_wires
        if len(tr.managers) != 1:
            v("wires:manager-count", f"{len(tr.managers)} wire managers were created for one estimate")
        elif tr.managers[0][:2] != (z0, a0) or bool(tr.managers[0][3]) != bool(tight):
            v("wires:budget-ignored", f"the manager started from (zeroed, any_state, algo, tight) = {tr.managers[0]} for a budget of ({z0}, {a0}, tight={tight})")
        if z < 0 or a < 0:
            v("wires:negative", f"reported zeroed_wires={z}, any_state_wires={a}")
        if res.total_wires != algo + z + a:
            v("wires:total-sum", f"total_wires={res.total_wires} but algo + zeroed + any_state = {algo}+{z}+{a}")
        if res.total_wires < algo:
            v("wires:below-algo", f"total_wires={res.total_wires} < algo_wires={algo}")
        if min_algo is not None and algo < min_algo:
            v("wires:algo-lower-bound", f"algo_wires={algo} but the workflow acts on at least {min_algo} wires")
        # every allocation accounted: closed formula over the logged (successful) manager calls
        cur, peak = a0, a0
        for kind, n, raised in tr.mgr:
            if raised:
                continue
            cur += n if kind == "grab" else -n
            peak = max(peak, cur)
        if tr.neg_requests == 0:
            if a != cur:
                v("wires:final-any_state", f"any_state_wires={a}, but {a0} + grabs - frees = {cur}", expected=cur, observed=a)
            tot = max(z0 + a0, peak)
            if z + a != tot:
                v("wires:final-total", f"zeroed+any_state = {z + a}, but max(pre-allocated {z0 + a0}, peak wires in use {peak}) = {tot}", expected=tot, observed=z + a)
            if tight and z + a != z0 + a0:
                v("wires:tight-exceeded", f"tight budget of {z0 + a0} auxiliary wires, yet {z + a} reported")
        return not bad

    # ------------------------------------------------------------------ workflow forms
    def qfunc(self, specs):
        b = self.b

        def wf():
            for s in specs:
                b.op(s)
        return wf

    def min_algo(self, ops):
        labelled, unl = set(), 0
        for o in ops:
            w = getattr(o, "wires", None)
            if w is not None and len(w):
                labelled |= set(w.tolist() if hasattr(w, "tolist") else list(w))
            nw = getattr(o, "num_wires", None)
            if isinstance(nw, int):
                unl = max(unl, nw if not (w is not None and len(w)) else 0)
        return max(len(labelled), unl)

    def cmpr(self, op):
        if isinstance(op, self.qre.ResourceOperator):
            return op.resource_rep_from_op()
        E = self.mon.E
        with self.qp.QueuingManager.stop_recording():
            return E._map_to_resource_op(op).resource_rep_from_op()  # noqa: SLF001


def gen_gate_set(rng, pure):
    r = rng.random()
    if r < 0.4:
        return None
    gs = set(DEFAULT_GATES)
    for _ in range(I(rng, 0, 5)):
        gs.add(pick(rng, EXTRA_GATES))
    if r > 0.8 and not pure:
        for g in ["Toffoli", "X", "Y", "Z", "S"]:
            if rng.random() < 0.35:
                gs.discard(g)
    return gs if rng.random() < 0.8 else frozenset(gs)


def gen_config(rng, qre):
    """Returns (ResourceConfig | None, JSON description)."""
    if rng.random() < 0.55:
        return None, None
    cfg = qre.ResourceConfig()
    desc = {}
    if rng.random() < 0.5:
        p = pick(rng, [1e-2, 1e-4, 1e-7, 1e-11])
        cfg.set_single_qubit_rot_precision(p)
        desc["rot_precision"] = p
    if rng.random() < 0.3:
        p = pick(rng, [1e-3, 1e-6])
        cfg.set_precision(qre.QubitUnitary, p)
        cfg.set_precision(qre.SelectPauliRot, p)
        desc["unitary_precision"] = p
    if rng.random() < 0.6:
        # custom decompositions that allocate: balanced, leaking, or plain
        cn, h, t = qre.resource_rep(qre.CNOT), qre.resource_rep(qre.Hadamard), qre.resource_rep(qre.T)
        style = pick(rng, ["balanced", "leak", "plain"])
        n = I(rng, 1, 3)

        def dec():
            core = [qre.GateCount(cn, 3), qre.GateCount(h, 2)]
            if style == "balanced":
                return [qre.Allocate(n)] + core + [qre.Deallocate(n)]
            if style == "leak":
                return [qre.Allocate(n + 1)] + core + [qre.Deallocate(1)]
            return core

        target = pick(rng, ["SWAP", "CZ", "CH"])
        cfg.set_decomp(getattr(qre, target), dec)
        desc["custom_decomp"] = [target, style, n]
        if rng.random() < 0.4:
            def powdec(pow_z, target_resource_params=None):
                return [qre.Allocate(1), qre.GateCount(t, pow_z), qre.Deallocate(1)]

            cfg.set_decomp(qre.T, powdec, "pow")
            desc["custom_pow_T"] = True
    return cfg, desc


def run_workflow_case(drv, rng, idx):
    ctx, qp, qre, b = drv.ctx, drv.qp, drv.qre, drv.b
    pure = rng.random() < 0.25
    pool = None
    from pv.gen.num import wire_labels
    pool = wire_labels(rng, 12)

    def leaf(r):
        return gen_real(r)

    def one(r):
        x = r.random()
        if pure:
            return gen_block(r, 0, True, leaf) if x < 0.8 else prim(r)
        if x < 0.30:
            return gen_block(r, 0, False, leaf)
        if x < 0.62:
            return gen_real(r)
        if x < 0.82:
            return gen_symbolic(r, 0, lambda rr: gen_block(rr, 1, False, leaf) if rr.random() < 0.3 else gen_real(rr))
        return gen_pl(r, pool)

    def with_wires(spec):
        """Validates a spec by building it once (not recorded) and, sometimes, attaches explicit wire labels."""
        with qp.QueuingManager.stop_recording():
            op = b.op(spec)
            if "c" in spec and rng.random() < 0.5 and isinstance(getattr(op, "num_wires", None), int) and 0 < op.num_wires <= len(pool) \
                    and spec["c"] not in ("Adjoint", "Pow", "IterativeQPE"):
                s2 = dict(spec, w=[pool[int(i)] for i in rng.choice(len(pool), size=op.num_wires, replace=False)])
                try:
                    b.op(s2)
                    return s2
                except Exception:  # noqa: BLE001 - the class does not take these labels; keep it unlabelled
                    return spec
        return spec

    def gen_list(n):
        out = []
        for _ in range(n):
            for attempt in range(4):
                s = one(rng)
                try:
                    out.append(with_wires(s))
                    break
                except Exception as e:  # noqa: BLE001 - recipe outside the constructor's domain
                    ctx.count("recipe_rejected_by_constructor")
                    ctx.note_add("constructor_rejections", f"{s.get('c', s.get('pl'))}: {type(e).__name__}: {str(e)[:120]}", cap=20)
        return out

    A = gen_list(I(rng, 1, 3))
    B = gen_list(I(rng, 1, 3))
    if not A or not B:
        ctx.inconclusive_case("no operator could be built for a workflow")
        return
    gate_set = gen_gate_set(rng, pure)
    config, cdesc = gen_config(rng, qre)
    hostile_frees = any('"d"' in repr(s).replace("'", '"') for s in A + B)
    z0 = pick(rng, [0, 0, 0, 1, 3, 20, 500])
    a0 = pick(rng, [0, 0, 0, 2, 7, 64] if not hostile_frees else [0, 4, 7, 64, 64])
    wit = {"A": A, "B": B, "gate_set": sorted(gate_set) if gate_set is not None else None, "config": cdesc, "budget": [z0, a0]}
    kw = {"gate_set": gate_set, "config": config}
    as_qnode = rng.random() < 0.08

    def form(specs):
        f = drv.qfunc(specs)
        if as_qnode:
            def g():
                f()
                return qp.probs(wires=[pool[0]])
            return qp.QNode(g, qp.device("default.qubit"))
        return f

    def built(specs):
        with qp.QueuingManager.stop_recording():
            return [b.op(s) for s in specs]

    opsA, opsB = built(A), built(B)
    rootsA = [(drv.cmpr(o), 1) for o in opsA]
    rootsB = [(drv.cmpr(o), 1) for o in opsB]
    before = drv.allocs_seen
    sA, rA, _ = drv.est("estimate(A)", form(A), wit, z0=z0, a0=a0, min_algo=drv.min_algo(opsA), roots=rootsA, **kw)
    sB, rB, _ = drv.est("estimate(B)", form(B), wit, z0=pick(rng, [0, z0]), a0=a0, min_algo=drv.min_algo(opsB), roots=rootsB, **kw)
    sAB, rAB, trAB = drv.est("estimate(A;B)", form(A + B), wit, z0=z0, a0=a0, min_algo=drv.min_algo(opsA + opsB), roots=rootsA + rootsB, **kw)
    sBA, rBA, _ = drv.est("estimate(B;A)", form(B + A), wit, z0=z0, a0=2 * a0, min_algo=drv.min_algo(opsA + opsB), roots=rootsB + rootsA, **kw)
    classes = spec_classes(A + B, set())
    if sA == sB == sAB == "ok":
        for c in classes:
            ctx.cover(c)
        cA, cB, cAB = counts_of(rA), counts_of(rB), counts_of(rAB)
        ctx.ev("est.additive")
        if not ceq(cAB, cadd(cA, cB)):
            ctx.violation("est.additive", f"gate counts of estimate(A;B) differ from estimate(A) + estimate(B): {cdiff(cAB, cadd(cA, cB))}", case=wit,
                          mech="additive:AB", observed=cdiff(cAB, cadd(cA, cB)))
        if sBA == "ok":
            ctx.ev("est.additive")
            if not ceq(counts_of(rBA), cAB):
                ctx.violation("est.additive", f"gate counts depend on the order of the parts: {cdiff(counts_of(rBA), cAB)}", case=wit, mech="additive:order")
        # names view of the same counts
        nm = dict(rAB.gate_counts)
        nmsum = {}
        for r in (rA, rB):
            for k, v in r.gate_counts.items():
                nmsum[k] = nmsum.get(k, 0) + v
        ctx.ev("est.additive")
        if not ceq({k: v for k, v in nm.items() if v}, {k: v for k, v in nmsum.items() if v}):
            ctx.violation("est.additive", "gate_counts (by name) of A;B differ from the sum of the parts", case=wit, mech="additive:by-name")
        # Resources algebra on the same objects (documented rules of add_series / add_parallel / multiply_*)
        if all(v >= 0 for v in cA.values()) and all(v >= 0 for v in cB.values()):
            ctx.ev("res.algebra")
            ser, par = rA.add_series(rB), rA.add_parallel(rB)
            k = I(rng, 0, 5)
            ms, mp = rA.multiply_series(k), rA.multiply_parallel(k)
            probs = []
            if not ceq(counts_of(ser), cadd(cA, cB)) or not ceq(counts_of(par), cadd(cA, cB)):
                probs.append("add-gates")
            if not ceq(counts_of(ms), cscale(cA, k)) or not ceq(counts_of(mp), cscale(cA, k)):
                probs.append("multiply-gates")
            if ser.zeroed_wires != max(rA.zeroed_wires, rB.zeroed_wires) or ser.any_state_wires != rA.any_state_wires + rB.any_state_wires \
                    or ser.algo_wires != max(rA.algo_wires, rB.algo_wires):
                probs.append("add_series-wires")
            if par.zeroed_wires != max(rA.zeroed_wires, rB.zeroed_wires) or par.any_state_wires != rA.any_state_wires + rB.any_state_wires \
                    or par.algo_wires != rA.algo_wires + rB.algo_wires:
                probs.append("add_parallel-wires")
            for p in probs:
                ctx.violation("res.algebra", f"Resources algebra breaks its documented rule: {p}", case=wit, mech=f"algebra:{p}")

        # two separately built copies of one operator must land on one gate type (this is how counts accumulate)
        jj = I(rng, 0, len(A) - 1)
        if "c" in A[jj]:
            ctx.ev("res.algebra")
            with qp.QueuingManager.stop_recording():
                twin = b.op(A[jj])
            try:
                tw = opsA[jj].add_series(twin)
                if {k: v for k, v in counts_of(tw).items()} != {canon(rootsA[jj][0]): 2}:
                    ctx.violation("res.algebra", f"op.add_series(identical op) does not give one gate type with count 2: {cdiff(counts_of(tw), {canon(rootsA[jj][0]): 2})}",
                                  case=dict(wit, op=A[jj]), mech="algebra:twin-not-merged")
            except Exception as e:  # noqa: BLE001
                ctx.violation("res.algebra", f"op.add_series(identical op) raised {type(e).__name__}: {e}", case=dict(wit, op=A[jj]), mech=where_raised(e))

        # ---------------------------------------------------------------- two-stage through a larger gate set
        G = set(DEFAULT_GATES if gate_set is None else gate_set)
        G1 = set(G)
        names = set()

        def collect(node, depth):
            if depth <= 3:
                names.add(node.op.name)
                for e in node.events:
                    if e[0] == "c":
                        collect(e[1], depth + 1)
        for _, n in trAB.roots:
            collect(n, 0)
        cand = sorted(names - G)
        for _ in range(I(rng, 1, 4)):
            if cand:
                G1.add(pick(rng, cand))
        wit2 = dict(wit, stage1_gate_set=sorted(G1))
        s1, r1, _ = drv.est("estimate(A;B, larger gate set)", form(A + B), wit2, gate_set=G1, config=config, z0=z0, a0=a0)
        if s1 == "ok":
            roots2 = [(op, cnt) for op, cnt in r1.gate_types.items()]
            s2, r2, _ = drv.est("estimate(Resources from stage 1)", r1, wit2, gate_set=gate_set, config=config, z0=z0, a0=a0 + 64, roots=roots2)
            if s2 == "ok":
                ctx.ev("est.twostage")
                if not ceq(counts_of(r2), cAB):
                    ctx.violation("est.twostage", f"estimating in two stages (gate set + {sorted(G1 - G)} first) changes the gate counts: "
                                                  f"{cdiff(counts_of(r2), cAB)}", case=wit2, mech="twostage:counts")

        # ---------------------------------------------------------------- tight budget: raises exactly when the peak exceeds it
        cur, peak = a0, a0
        for kind, n, raised in trAB.mgr:
            cur += n if kind == "grab" else -n
            peak = max(peak, cur)
        need = max(0, peak - a0)
        zt = pick(rng, [need, need, max(need - 1, 0), need + 1, 0, need // 2])
        wit3 = dict(wit, tight_zeroed=zt)
        st, rt, _ = drv.est("estimate(A;B, tight budget)", form(A + B), wit3, z0=zt, a0=a0, tight=True, **kw)
        must_raise = peak > zt + a0
        if st != "bad":
            ctx.ev("est.tight")
        if st == "ok" and must_raise:
            ctx.violation("est.tight", f"tight budget of {zt}+{a0} wires, peak use {peak}: estimate must raise but returned {rt.zeroed_wires}+{rt.any_state_wires}",
                          case=wit3, mech="tight:missing-raise")
        elif st == "reject" and not must_raise:
            ctx.violation("est.tight", f"tight budget of {zt}+{a0} wires suffices for a peak use of {peak}, yet estimate raised ({rt})", case=wit3,
                          mech="tight:spurious-raise")
        elif st == "ok" and not ceq(counts_of(rt), cAB):
            ctx.violation("est.tight", "gate counts under a tight budget differ from the unconstrained ones", case=wit3, mech="tight:counts")

    # -------------------------------------------------------------------- k-fold repetition
    if sA == "ok":
        cA = counts_of(rA)
        k = pick(rng, [0, 1, 2, 3, 3, 7, 50] if len(A) > 1 else [2, 3, 7, 50, 1000])
        if k <= 50:
            sk, rk, _ = drv.est(f"estimate(A x{k})", form(A * k), dict(wit, k=k), z0=z0, a0=a0, roots=rootsA * k, **kw)
            if sk == "ok":
                ctx.ev("est.repeat")
                if not ceq(counts_of(rk), cscale(cA, k)):
                    ctx.violation("est.repeat", f"{k}-fold repetition of A does not give {k} x counts: {cdiff(counts_of(rk), cscale(cA, k))}", case=dict(wit, k=k),
                                  mech="repeat:qfunc")
        # single operator forms (estimator operators only: PennyLane operators go through the qfunc path above)
        j = I(rng, 0, len(A) - 1)
        spec = A[j]
        if "c" in spec:
            witj = dict(wit, op=spec, k=k)
            nwj = getattr(opsA[j], "num_wires", None)
            s1, r1, _ = drv.est("estimate(op)", opsA[j], witj, z0=z0, a0=a0, min_algo=nwj if isinstance(nwj, int) else None, roots=[(rootsA[j][0], 1)], **kw)
            if s1 == "ok":
                c1 = counts_of(r1)
                with qp.QueuingManager.stop_recording():
                    scaled = opsA[j] * k if rng.random() < 0.5 else k * opsA[j]
                sk, rk, _ = drv.est(f"estimate({k} * op)", scaled, witj, z0=z0, a0=a0, roots=[(rootsA[j][0], k)], **kw)
                if sk == "ok":
                    ctx.ev("est.repeat")
                    if not ceq(counts_of(rk), cscale(c1, k)):
                        ctx.violation("est.repeat", f"estimate({k} * op) is not {k} x estimate(op): {cdiff(counts_of(rk), cscale(c1, k))}", case=witj,
                                      mech="repeat:scalar-resources")
                k2 = pick(rng, [0, 1, 2, 5, 12])
                pspec = {"c": "Prod", "kw": {"res_ops": [{"f": dict(spec, w=None), "n": k2}]}}
                if "Prod" not in (gate_set or ()):
                    sp, rp, _ = drv.est(f"estimate(Prod([(op, {k2})]))", drv.qfunc([pspec]), dict(witj, k=k2), z0=z0, a0=a0, **kw)
                    if sp == "ok":
                        ctx.ev("est.repeat")
                        if not ceq(counts_of(rp), cscale(c1, k2)):
                            ctx.violation("est.repeat", f"Prod([(op, {k2})]) is not {k2} x estimate(op): {cdiff(counts_of(rp), cscale(c1, k2))}",
                                          case=dict(witj, k=k2), mech="repeat:prod")
                cls = type(opsA[j])
                k3 = pick(rng, [1, 2, 3, 6])
                if cls.pow_resource_decomp.__func__ is drv.default_pow and (config is None or cls not in config.pow_custom_decomps) \
                        and f"Pow({rootsA[j][0].name}, {k3})" not in (gate_set or ()):
                    wspec = {"c": "Pow", "kw": {"base_op": dict(spec, w=None), "pow_z": k3}}
                    sw, rw, _ = drv.est(f"estimate(Pow(op, {k3}))", drv.qfunc([wspec]), dict(witj, k=k3), z0=z0, a0=a0, **kw)
                    if sw == "ok":
                        ctx.ev("est.repeat")
                        if not ceq(counts_of(rw), cscale(c1, k3)):
                            ctx.violation("est.repeat", f"Pow(op, {k3}) of an operator with the default power rule is not {k3} x estimate(op): "
                                                        f"{cdiff(counts_of(rw), cscale(c1, k3))}", case=dict(witj, k=k3), mech="repeat:pow")
                    # power of a power: Pow(Pow(op, a), b) repeats op a*b times (pairs chosen so that a*b != a+b)
                    ka, kb = pick(rng, [(2, 3), (3, 2), (1, 4), (4, 1), (3, 3), (0, 3), (2, 5)])
                    nspec = {"c": "Pow", "kw": {"base_op": {"c": "Pow", "kw": {"base_op": dict(spec, w=None), "pow_z": ka}, "w": None}, "pow_z": kb}}
                    if not any(f"Pow({rootsA[j][0].name}, {z})" in (gate_set or ()) for z in (ka, kb, ka * kb)) and "Pow" not in str(gate_set or ()):
                        sn, rn, _ = drv.est(f"estimate(Pow(Pow(op, {ka}), {kb}))", drv.qfunc([nspec]), dict(witj, k=(ka, kb)), z0=z0, a0=a0, **kw)
                        if sn == "ok":
                            ctx.ev("est.repeat")
                            ctx.count("est.repeat.nested_pow")
                            if not ceq(counts_of(rn), cscale(c1, ka * kb)):
                                ctx.violation("est.repeat", f"Pow(Pow(op, {ka}), {kb}) of an operator with the default power rule is not {ka * kb} x estimate(op): "
                                                            f"{cdiff(counts_of(rn), cscale(c1, ka * kb))}", case=dict(witj, k=(ka, kb)), mech="repeat:pow-of-pow")

    # -------------------------------------------------------------------- independent interpreter (pure workflows)
    if pure and all(is_pure(s) for s in A + B):
        for what, specs, st, res in (("estimate(A)", A, sA, rA), ("estimate(A;B)", A + B, sAB, rAB)):
            mcounts, mw = model_run(specs, z0, a0)
            if st == "bad":
                continue
            ctx.ev("est.model")
            if mw == "free-exceeds":
                if st == "ok":
                    ctx.violation("est.model", f"{what}: the interpreter frees more wires than are in use (documented ValueError), estimate returned", case=wit,
                                  mech="model:missing-raise")
                continue
            if st == "reject":
                ctx.violation("est.model", f"{what}: estimate rejected ({res}) a workflow the interpreter completes", case=wit, mech="model:spurious-raise")
                continue
            got = {k: v for k, v in res.gate_counts.items() if v}
            if not ceq(got, mcounts):
                ctx.violation("est.model", f"{what}: gate counts {got} differ from the interpreter's {mcounts}", case=wit, mech="model:counts",
                              observed=got, expected=mcounts)
            if (res.zeroed_wires, res.any_state_wires) != mw:
                ctx.violation("est.model", f"{what}: (zeroed, any_state) = {(res.zeroed_wires, res.any_state_wires)} but the interpreter gets {mw}", case=wit,
                              mech="model:wires", observed=[res.zeroed_wires, res.any_state_wires], expected=list(mw))
    nalloc = drv.allocs_seen - before
    ctx.case(fingerprint("wf", A, B, wit["gate_set"], cdesc, z0, a0), nontrivial=(len(A) + len(B) >= 2 and nalloc >= 1 and sAB == "ok"),
             cls="pure-workflow" if pure else "workflow",
             sample={"A": [s.get("c", s.get("pl")) for s in A], "B": [s.get("c", s.get("pl")) for s in B], "gate_set": wit["gate_set"], "config": cdesc,
                     "budget": [z0, a0], "manager_calls": int(nalloc), "status": [sA, sB, sAB],
                     "AB": None if sAB != "ok" else {"zeroed": rAB.zeroed_wires, "any_state": rAB.any_state_wires, "algo": rAB.algo_wires,
                                                     "total_gates": rAB.total_gates}})


def run(ctx):
    import warnings

    import pennylane as qp
    import pennylane.estimator as qre

    warnings.filterwarnings("ignore")
    E = sys.modules["pennylane.estimator.estimate"]
    mon = Monitors(ctx, qre, E)
    mon.install()
    builder = Builder(qp, qre)
    drv = Driver(ctx, qp, qre, mon, builder)
    for c in ALL_CLASSES:
        ctx.uncovered(c, "not reached by a successful estimate in this run")

    n_wf = 600 if ctx.quick else 30000
    n_steps = 20000 if ctx.quick else 2000000
    only = ctx.only_case
    t_ready = ctx.elapsed()  # the soft budget counts from here: importing PennyLane takes 5 s idle, 40 s on a loaded machine

    def used():
        return ctx.elapsed() - t_ready

    # ---- part 1: manager histories (about a third of the budget at most)
    if only is None or only >= HIST_BASE:
        mon.where = "manager history"
        steps, i = 0, ctx.shard
        target = -(-n_steps // ctx.nshards)
        while steps < target:
            if only is not None:
                i = only - HIST_BASE
            if (i // ctx.nshards) % 64 == 0 and used() > 0.35 * ctx.budget_s:
                ctx.stopped_by_time = True
                break
            ctx.case_index = HIST_BASE + i
            with ctx.guard("mgr.shadow"):
                steps += run_history(ctx, qre, ctx.case_rng(HIST_BASE + i), i) or 0
            i += ctx.nshards
            if only is not None:
                break

    # ---- part 2: workflows
    if only is None or only < HIST_BASE:
        for i in range(ctx.shard, n_wf, ctx.nshards):
            if only is not None:
                i = only
            if used() > ctx.budget_s:
                ctx.stopped_by_time = True
                break
            ctx.case_index = i
            with ctx.guard("est.workflow"):
                run_workflow_case(drv, ctx.case_rng(i), i)
            mon.trace = None
            if only is not None:
                break
    ctx.note("manager_calls_inside_estimate", drv.allocs_seen)
