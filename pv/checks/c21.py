"""C21 — Mid-circuit measurement methods agree with the exact semantics.

Deciding monitors (post-conditions at the QNode boundary, reference = R-BR branch average, pv/ref/c21_branch.py):

* ``mcm.analytic``  – shots=None, mcm_method ∈ {deferred, tree-traversal, default}: every terminal measurement (wire
  observables and statistics of measurement values) equals the branch average to 1e-9.
* ``mcm.shots``     – finite shots, mcm_method ∈ {deferred, tree-traversal, one-shot, default} × postselect_mode:
  rigorous concentration bounds (Bernstein, per-test α = 1e-9, union bound over cells) on means / variances /
  frequencies, exact support checks (an outcome that is impossible in the reference must never be sampled), exact
  shot accounting (fill-shots ⇒ exactly ``shots`` valid samples, hw-like ⇒ ≤ shots and Binomial(shots, p_post)-consistent);
  a rejection is confirmed with a fresh seed and 8× the shots before it counts.
* ``defer.tape``    – the output tape of ``qp.defer_measurements`` itself: no MidMeasure / Conditional left, at most
  one extra wire per MCM, and its R-SV simulation reproduces the branch average.
"""
from __future__ import annotations

import math
import traceback

import numpy as np

from pv.ctx import fingerprint

META = {
    "id": "C21",
    "level": "exploration",
    "technique": "differential post-condition at the QNode boundary against an independent branch-enumerating interpreter (R-BR); "
                 "rigorous concentration bounds + support/shot-accounting checks for sampled methods",
    "level_text": "Random dynamic circuits (≤5 MCMs, reset/postselect, nested qp.cond with else branches, measurement-value "
                  "arithmetic, MCM statistics) are executed with every mcm_method × postselect_mode and compared with the "
                  "sum over measurement histories computed by a numpy-only interpreter from the generator's AST.",
    "level_note": "Trusts R-GATES/R-SV/R-BR. Broadcast gate parameters are driven in analytic mode only (flat programs, no "
                  "postselection). Statistical tests use Bernstein bounds (false-alarm ≤ 1e-9 per test by "
                  "construction) and a two-stage confirmation; they detect frequency deviations ≳ 0.05–0.1 only. "
                  "'elif' branches with MCM predicates are documented as unsupported in tape mode (ConditionalTransformError) "
                  "and are exercised as a rejection only. jax/torch interfaces and lightning devices are not driven. "
                  "Arithmetic between two boolean-typed measurement values (numpy 'or' vs python '+') is not generated.",
    "design_ref": "7/C21",
    "shards": {"quick": 3, "thorough": 16},
    "budget_s": {"quick": 55, "thorough": 420},
    "min_evals": {"quick": 250, "thorough": 3000},
    "deciding": ["mcm.analytic", "mcm.shots", "defer.tape"],
    "rule": "G-DYN AST programs (2–4 wires with hostile labels, 1–5 MCMs, reset/postselect mixes, conds on arithmetic/"
            "boolean expressions of several MCMs, nested conds, 1–3 terminal measurements mixing wire observables and MCM "
            "statistics); distinct = fingerprint of (AST, measurements); non-trivial = ≥2 surviving branches and ≥1 cond or MCM statistic",
    "assumptions": ["R-BR implements the documented semantics (projective measurement, reset to |0>, postselection = "
                    "conditioning, conditionals evaluated on the branch's outcomes)",
                    "default.qubit seeded runs are deterministic"],
    "allow_rejections": True,
}

ATOL = 1e-9
ALPHA = 1e-9


# ------------------------------------------------------------------------------------------------ measurements
def pauli_word(rng, wires, kmax=2):
    k = int(rng.integers(1, min(kmax, len(wires)) + 1))
    ws = [wires[int(i)] for i in rng.choice(len(wires), size=k, replace=False)]
    return [["XYZ"[int(rng.integers(3))], w] for w in ws]


def gen_measurements(rng, prog, shots):
    from pv.gen import c21_dyn as D

    wires = prog["wires"]
    avail = list(range(prog["n_mcm"]))
    n = int(rng.integers(1, 4))
    out = []
    for _ in range(n):
        mcm_stat = rng.random() < 0.5
        if not mcm_stat:
            kinds = ["expval_obs", "var_obs", "probs_w"] + (["counts_w", "sample_w", "counts_obs", "sample_obs"] if shots else ["expval_sum"])
            k = kinds[int(rng.integers(len(kinds)))]
            if k in ("probs_w", "counts_w", "sample_w"):
                kk = int(rng.integers(1, min(3, len(wires)) + 1))
                out.append([k, [wires[int(i)] for i in rng.choice(len(wires), size=kk, replace=False)]])
            elif k == "expval_sum":
                out.append([k, [[float(rng.normal()), pauli_word(rng, wires)] for _ in range(int(rng.integers(2, 4)))]])
            else:
                out.append([k, pauli_word(rng, wires)])
        else:
            kinds = ["expval_mv", "var_mv", "probs_mv"] + (["counts_mv", "sample_mv"] if shots else [])
            k = kinds[int(rng.integers(len(kinds)))]
            if k in ("expval_mv", "var_mv"):
                out.append([k, D.gen_expr(rng, avail, 0, None, floats=True)])
            elif k == "probs_mv":
                if rng.random() < 0.5 or len(avail) == 1:
                    out.append([k, ["s", int(avail[int(rng.integers(len(avail)))])]])
                else:
                    kk = int(rng.integers(2, min(3, len(avail)) + 1))
                    out.append([k, ["l", [int(x) for x in rng.choice(avail, size=kk, replace=False)]]])
            else:
                if rng.random() < 0.6:
                    out.append([k, ["e", D.gen_expr(rng, avail, 0, None)]])
                else:
                    kk = int(rng.integers(1, min(3, len(avail)) + 1))
                    out.append([k, ["l", [int(x) for x in rng.choice(avail, size=kk, replace=False)]]])
    return out


def word_matrix(word):
    from pv.ref import gates as G

    return G.kron(*[G.PAULI[p] for p, _ in word]), [w for _, w in word]


def build_mp(qp, m, ms):
    from pv.gen import c21_dyn as D

    k = m[0]

    def obs(word):
        o = None
        for p, w in word:
            f = getattr(qp, "Pauli" + p)(w)
            o = f if o is None else o @ f
        return o

    if k == "expval_obs":
        return qp.expval(obs(m[1]))
    if k == "var_obs":
        return qp.var(obs(m[1]))
    if k == "expval_sum":
        return qp.expval(qp.sum(*[c * obs(w) for c, w in m[1]]))
    if k == "probs_w":
        return qp.probs(wires=m[1])
    if k == "counts_w":
        return qp.counts(wires=m[1])
    if k == "sample_w":
        return qp.sample(wires=m[1])
    if k == "counts_obs":
        return qp.counts(obs(m[1]))
    if k == "sample_obs":
        return qp.sample(obs(m[1]))
    if k == "expval_mv":
        return qp.expval(D.to_mv(m[1], ms))
    if k == "var_mv":
        return qp.var(D.to_mv(m[1], ms))
    spec = m[1]
    op = ms[spec[1]] if spec[0] == "s" else ([ms[i] for i in spec[1]] if spec[0] == "l" else D.to_mv(spec[1], ms))
    if k == "probs_mv":
        return qp.probs(op=op)
    if k == "counts_mv":
        return qp.counts(op)
    if k == "sample_mv":
        return qp.sample(op)
    raise ValueError(k)


def ref_distribution(R, m, ev=None):
    """Reference for one terminal measurement: dict with 'value' (analytic) and 'dist' ({outcome: prob}) where useful."""
    from pv.gen import c21_dyn as D

    ev = ev or D.eval_expr

    k = m[0]
    if k in ("expval_obs", "var_obs", "counts_obs", "sample_obs"):
        O, ws = word_matrix(m[1])
        dist = R.obs_distribution(O, ws)
        dist = {float(round(a)): p for a, p in dist.items()}
        val = R.expval(O, ws) if k != "var_obs" else R.var(O, ws)
        return {"value": val, "dist": dist, "kind": "scalar"}
    if k == "expval_sum":
        val = 0.0
        for c, w in m[1]:
            O, ws = word_matrix(w)
            val += c * R.expval(O, ws)
        return {"value": val, "dist": None, "kind": "scalar"}
    if k in ("probs_w", "counts_w", "sample_w"):
        p = R.probs(m[1])
        kk = len(m[1])
        return {"value": p, "dist": {format(i, f"0{kk}b"): float(p[i]) for i in range(2**kk)}, "kind": "bits", "k": kk}
    if k in ("expval_mv", "var_mv"):
        e = m[1]
        fn = lambda oc: ev(e, oc)  # noqa: E731
        return {"value": R.mv_expval(fn) if k == "expval_mv" else R.mv_var(fn), "dist": {float(a): p for a, p in R.mv_distribution(fn).items()}, "kind": "scalar"}
    spec = m[1]
    if spec[0] in ("s", "l"):
        idx = [spec[1]] if spec[0] == "s" else list(spec[1])
        p = R.mv_probs_list(idx)
        kk = len(idx)
        if spec[0] == "s" or (k != "probs_mv" and False):
            pass
        d = {format(i, f"0{kk}b"): float(p[i]) for i in range(2**kk)}
        return {"value": p, "dist": d, "kind": "bits", "k": kk, "single": spec[0] == "s"}
    e = spec[1]
    fn = lambda oc: ev(e, oc)  # noqa: E731
    return {"value": None, "dist": {float(a): p for a, p in R.mv_distribution(fn).items()}, "kind": "scalar"}


# ------------------------------------------------------------------------------------------------ statistics
def bern(var, rng_, n, L):
    """Bernstein deviation bound for the mean of n iid variables with variance ``var`` and |X-mu| <= rng_."""
    return math.sqrt(2.0 * max(var, 0.0) * L / n) + 2.0 * rng_ * L / (3.0 * n)


def nvalid_bounds(shots, Z, mode, has_ps):
    """(lo, hi, exact) bounds on the number of valid shots."""
    if not has_ps or mode == "fill-shots":
        return shots, shots, True
    L = math.log(4 / ALPHA)
    d = bern(Z * (1 - Z), 1.0, shots, L) * shots
    return max(0, math.floor(shots * Z - d)), min(shots, math.ceil(shots * Z + d)), False


def check_dist(dist, emp, n, ncells_hint=None):
    """emp: {outcome: count}; dist: {outcome: prob}.  Returns None or a message."""
    L = math.log(2 * max(len(dist), 2) / ALPHA)
    for o, p in dist.items():
        f = emp.get(o, 0) / n
        tol = bern(p * (1 - p), 1.0, n, L)
        if abs(f - p) > tol:
            return f"frequency of {o!r}: {f:.4f} vs reference {p:.4f} (tol {tol:.4f}, n={n})"
    return None


def stat_check(m, ref, res, shots, Z, mode, has_ps):
    """Compare one sampled result with the reference.  Returns (message|None|"skip", mechanism suffix).  Exact parts
    (support, shot accounting) are always checked; concentration bounds only when ≥ 30 valid shots are guaranteed."""
    k = m[0]
    lo, hi, exact = nvalid_bounds(shots, Z, mode, has_ps)
    few = lo < 30
    if k.startswith("counts") or k.startswith("sample"):
        if k.startswith("counts"):
            if not isinstance(res, dict):
                return f"counts returned {type(res).__name__}", "type"
            if ref["kind"] == "bits":
                emp = {str(a): int(c) for a, c in res.items()}
            else:
                emp = {}
                for a, c in res.items():
                    emp[float(a)] = emp.get(float(a), 0) + int(c)
        else:
            arr = np.asarray(res)
            if ref["kind"] == "bits":
                kk = ref["k"]
                arr = arr.reshape(-1, kk) if arr.size else arr.reshape(0, kk)
                emp = {}
                for row in arr:
                    key = "".join(str(int(round(float(x)))) for x in row)
                    emp[key] = emp.get(key, 0) + 1
            else:
                emp = {}
                for x in arr.reshape(-1):
                    emp[float(np.round(float(x), 9))] = emp.get(float(np.round(float(x), 9)), 0) + 1
        n = sum(emp.values())
        dist = ref["dist"]
        if ref["kind"] != "bits":
            dist = {float(np.round(a, 9)): p for a, p in dist.items()}
        for o, c in emp.items():
            if c > 0 and dist.get(o, 0.0) < 1e-12:
                return f"impossible outcome {o!r} sampled {c}x (reference probability {dist.get(o, 0.0):.3g})", "support"
        if exact and n != shots:
            return f"{n} valid samples returned for shots={shots} (mode={mode}, postselection={'yes' if has_ps else 'no'})", "shot-count"
        if n > shots:
            return f"{n} samples > shots={shots}", "shot-count"
        if not exact and not (lo <= n <= hi):
            return f"{n} valid samples of {shots} shots; expected Binomial(shots, {Z:.4f}) in [{lo},{hi}]", "shot-count"
        if few or n < 30:
            return "skip", None
        msg = check_dist(dist, emp, n)
        return msg, "freq"
    n = max(lo, 1)
    L = math.log(2 / ALPHA)
    if k.startswith("probs"):
        p = np.asarray(res, dtype=float).reshape(-1)
        rp = np.asarray(ref["value"], dtype=float)
        if p.shape != rp.shape:
            return f"probs shape {p.shape} vs {rp.shape}", "shape"
        if np.any(np.isnan(p)):
            return ("skip", None) if few else (f"probs contain NaN although ≥{lo} valid shots are certain", "nan")
        if abs(p.sum() - 1) > 1e-9:
            return f"probs sum to {p.sum()}", "norm"
        for i, (a, b) in enumerate(zip(p, rp)):
            if b < 1e-12 and a > 0:
                return f"impossible outcome index {i} has estimated probability {a}", "support"
        if few:
            return "skip", None
        Lc = math.log(2 * len(rp) / ALPHA)
        for i, (a, b) in enumerate(zip(p, rp)):
            tol = bern(b * (1 - b), 1.0, n, Lc)
            if abs(a - b) > tol:
                return f"probs[{i}] = {a:.4f} vs reference {b:.4f} (tol {tol:.4f}, n≥{n})", "freq"
        return None, None
    dist = {a: p for a, p in ref["dist"].items() if p > 1e-12}
    vals = np.array(list(dist.keys()), dtype=float)
    ps = np.array(list(dist.values()), dtype=float)
    ps = ps / ps.sum()
    mu = float((vals * ps).sum())
    var = float(((vals - mu) ** 2 * ps).sum())
    R_ = float(np.max(np.abs(vals - mu))) if len(vals) else 0.0
    x = float(np.asarray(res).reshape(-1)[0]) if np.size(res) == 1 else None
    if x is None:
        return f"scalar statistic returned shape {np.shape(res)}", "shape"
    if x != x:
        return ("skip", None) if few else (f"{k} is NaN although ≥{lo} valid shots are certain", "nan")
    lo_v, hi_v = float(vals.min()), float(vals.max())
    if k.startswith("expval"):
        if x < lo_v - 1e-9 or x > hi_v + 1e-9:
            return f"expval {x} outside the support [{lo_v},{hi_v}] of the reference distribution", "support"
        if few:
            return "skip", None
        tol = bern(var, R_, n, L) + 1e-12
        if abs(x - mu) > tol:
            return f"expval {x:.5f} vs reference {mu:.5f} (tol {tol:.5f}, n≥{n})", "mean"
        return None, None
    # variance: bounded by ((max-min)/2)² (exactly 0 for a deterministic statistic, up to the n/(n-1) convention)
    vmax = ((hi_v - lo_v) / 2) ** 2
    if x < -1e-9 or x > vmax * 1.0000001 + 1e-9 + (vmax / max(n - 1, 1)):
        return f"var {x} outside [0, {vmax}] allowed by the support of the reference distribution", "support"
    if few:
        return "skip", None
    m2 = float((vals**2 * ps).sum())
    var2 = float(((vals**2 - m2) ** 2 * ps).sum())
    R2 = float(np.max(np.abs(vals**2 - m2))) if len(vals) else 0.0
    Lv = math.log(4 / ALPHA)
    d2 = bern(var2, R2, n, Lv)
    d1 = bern(var, R_, n, Lv)
    amax = float(np.max(np.abs(vals))) if len(vals) else 0.0
    tol = d2 + d1 * 2 * amax + var / max(n - 1, 1) + 1e-12
    if abs(x - var) > tol:
        return f"var {x:.5f} vs reference {var:.5f} (tol {tol:.5f}, n≥{n})", "var"
    return None, None


# ------------------------------------------------------------------------------------------------ execution
def make_qnode(qp, prog, meas, method, mode, shots, seed):
    from pv.gen import c21_dyn as D

    dev = qp.device("default.qubit", seed=seed)

    def circuit():
        ms = D.run_pennylane(qp, prog)
        mps = [build_mp(qp, m, ms) for m in meas]
        return mps[0] if len(mps) == 1 else tuple(mps)

    kw = {}
    if method is not None:
        kw["mcm_method"] = method
    if mode is not None:
        kw["postselect_mode"] = mode
    qn = qp.QNode(circuit, dev, **kw)
    if shots:
        qn = qp.set_shots(qn, shots)
    return qn, circuit


def last_frames(e, k=3):
    tb = traceback.extract_tb(e.__traceback__)
    return [f"{f.filename.split('/pennylane/')[-1]}:{f.lineno}:{f.name}" for f in tb[-k:]]


def classify_exception(e, eff_method, shots, prog, meas):
    """Mechanism tag of an internal crash (stable: exception type + innermost pennylane function + method)."""
    tb = traceback.extract_tb(e.__traceback__)
    fn = "?"
    for f in reversed(tb):
        if "/pennylane/" in f.filename:
            fn = f.name
            break
    from pv.gen import c21_dyn as D

    if eff_method == "tree-traversal" and isinstance(e, TypeError) and "numpy boolean subtract" in str(e):
        return "tree-traversal-bool-outcome-arith"
    if eff_method == "tree-traversal" and not shots and fn == "insert_mcms" and isinstance(e, TypeError):
        return "tree-traversal-analytic-insert-mcms-single-wire-measurement"
    if eff_method == "tree-traversal" and D.postselects(prog) and fn in ("_", "combine_measurements", "combine_measurements_core") \
            and isinstance(e, (ZeroDivisionError, TypeError, ValueError)):
        return "tree-traversal-postselect-empty-subtree"
    mode = "" if fn in ("<lambda>",) else ("-shots" if shots else "-analytic")
    return f"{eff_method}{mode}-crash:{type(e).__name__}@{fn}"


def documented_rejection(e, method, mode, shots, prog, meas):
    """Exceptions the documentation announces for the configuration."""
    import pennylane as qp

    msg = str(e)
    if isinstance(e, qp.exceptions.DeviceError) and "fill-shots" in msg:
        return "fill-shots-needs-deferred"
    if isinstance(e, ValueError) and "one-shot" in msg and "analytic" in msg:
        return "one-shot-analytic"
    if isinstance(e, RuntimeError) and "probability of the postselected" in msg:
        return "fill-shots-zero-prob"
    return None


def tt_hypotheses(prog, R):
    """Wrong-semantics hypotheses used only to *classify* a tree-traversal mismatch (never to excuse it):
    (1) postselection renormalised inside each subtree: a branch weighs the product of the conditional probabilities of its
        non-postselected MCMs only;
    (2) outcome 1 of the last MCM is handed to predicates / measurement-value arithmetic as the boolean True, so numpy's
        boolean arithmetic applies (True + True = True);
    (3) both.  Each entry: (mechanism tag, Result, evaluator)."""
    from pv.gen import c21_dyn as D
    from pv.ref import c21_branch as br

    def rew(Rx):
        return Rx.reweighted(lambda b: float(np.prod([pc for (_k, _b, pc, ps) in b.path if not ps])))

    out = []
    has_ps = bool(D.postselects(prog))
    if has_ps:
        out.append(("tree-traversal-postselect-subtree-renormalised", rew(R), None))
    last = prog["n_mcm"] - 1
    ps1 = {s[1] for s in prog["stmts"] if s[0] == "m" and s[4] == 1}  # the 1-branch of these is entered "sideways" (boolean True)
    for ids in ([{last}] + ([{last} | ps1] if ps1 - {last} else [])):
        evb = lambda e, oc, ids=ids: D.eval_expr_boolish(e, oc, ids)  # noqa: E731
        try:
            Rb = br.enumerate_branches(D.rbr_program(prog, ev=evb), prog["wires"])
            out.append(("tree-traversal-bool-outcome-arith", Rb, evb))
            if has_ps:
                out.append(("tree-traversal-postselect-subtree-renormalised", rew(Rb), evb))
        except TypeError:
            pass
    # mixed variant of the same mechanism: branch predicates are evaluated on Python values (so `m - m` works), but the statistics of
    # measurement-value expressions are gathered from numpy-boolean outcomes (True + True -> True)
    for ids in (None, {last}):
        out.append(("tree-traversal-bool-outcome-arith", R, lambda e, oc, ids=ids: D.eval_expr_boolish(e, oc, ids)))
    return out


def compare_analytic(m, r, ref, eff_method, tag, hyps=(), meas=(), ctxinfo=None):
    """Returns list of (monitor, message, mech, observed, expected)."""
    mon = "mcm.analytic"
    exp = ref["value"]
    try:
        got = np.asarray(r, dtype=float)
    except Exception:  # noqa: BLE001
        return [(mon, f"[{tag}] {m[0]}: non-numeric result {type(r).__name__}", f"{eff_method}-analytic-type", repr(r)[:100], exp)]
    expa = np.asarray(exp, dtype=float)
    out = []
    shape_bad = got.shape != expa.shape
    if shape_bad and got.size != expa.size:
        n_wire = sum(1 for x in meas if not x[0].endswith("_mv"))
        if eff_method == "tree-traversal" and n_wire == 1 and len(meas) > 1 and not m[0].endswith("_mv") and got.size == 1 \
                and abs(float(got.reshape(-1)[0]) - float(expa.reshape(-1)[0])) < 1e-6 or (
                eff_method == "tree-traversal" and n_wire == 1 and len(meas) > 1 and not m[0].endswith("_mv") and got.size == 1 and hyps):
            # insert_mcms does list(results) on the bare result of the only wire measurement: a probs vector loses all but
            # its first entry
            return [(mon, f"[{tag}] {m[0]}: shape {got.shape} vs {expa.shape} (only the first entry of the vector survives)",
                     "tree-traversal-analytic-insert-mcms-single-wire-measurement", list(got.shape), list(expa.shape))]
        return [(mon, f"[{tag}] {m[0]}: shape {got.shape} vs {expa.shape}", f"{eff_method}-analytic-shape-size", list(got.shape), list(expa.shape))]
    g2 = got.reshape(expa.shape)
    tol = ATOL * max(1.0, float(np.max(np.abs(expa))))
    if not np.all(np.abs(g2 - expa) <= tol):
        mech = f"{eff_method}-analytic-value"
        extra = ""
        for htag, Rh, evh in hyps:
            try:
                alt = np.asarray(ref_distribution(Rh, m, evh)["value"], dtype=float)
            except TypeError:
                continue
            if alt.shape == g2.shape and np.all(np.abs(g2 - alt) <= 1e-7 * max(1.0, float(np.max(np.abs(alt))))):
                mech = htag
                extra = f" [equals the value predicted by the wrong-semantics hypothesis '{htag}']"
                break
        ci = ctxinfo or {}
        if mech.endswith("-value") and eff_method == "tree-traversal" and np.any(np.isnan(g2)) and ci.get("dead_ps"):
            mech = "tree-traversal-postselect-empty-subtree"
            extra = " [a subtree has no surviving postselection outcome]"
        out.append((mon, f"[{tag}] {m[0]}: {g2} vs branch average {expa}{extra}", mech, g2, expa))
    if shape_bad:
        if eff_method == "tree-traversal" and m[0].endswith("_mv") and got.ndim == expa.ndim + 1 and got.shape[0] == 1:
            mech = "tree-traversal-analytic-mcm-stat-extra-dim"
        else:
            mech = f"{eff_method}-analytic-shape"
        out.append(("mcm.shape", f"[{tag}] {m[0]}: result has shape {got.shape}, expected {expa.shape}", mech, list(got.shape), list(expa.shape)))
    return out


def run_case(ctx, qp, prog, meas, R, method, mode, shots, seed, fp, stage=1, count=True):  # noqa: ARG001
    """Execute one configuration and compare.  Returns list of (monitor, message, mech, observed, expected)."""
    from pv.gen import c21_dyn as D

    has_ps = bool(D.postselects(prog))
    analytic = not shots
    mon = "mcm.analytic" if analytic else "mcm.shots"
    tag = f"{method or 'default'}/{mode or 'none'}/{'analytic' if analytic else 'shots'}"
    eff_method = method or ("one-shot" if shots else "deferred")
    out = []

    def ev():
        if count:
            ctx.ev(mon)

    try:
        qn, _ = make_qnode(qp, prog, meas, method, mode, shots, seed)
        res = qn()
    except Exception as e:  # noqa: BLE001
        rej = documented_rejection(e, method, mode, shots, prog, meas)
        if rej:
            if count:
                ctx.reject(rej)
            return out
        ev()
        out.append((mon, f"[{tag}] {type(e).__name__}: {str(e)[:200]} @ {last_frames(e)}",
                    classify_exception(e, eff_method, shots, prog, meas), None, None))
        return out
    shot_list = [shots] if (not shots or isinstance(shots, int)) else list(shots)
    if shots and not isinstance(shots, int):
        raw = list(res) if isinstance(res, (tuple, list)) else [res]
        res_sets = [((r,) if len(meas) == 1 else tuple(r)) for r in raw]
    else:
        res_sets = [(res,) if len(meas) == 1 else tuple(res)]
    if len(res_sets) != len(shot_list):
        ev()
        out.append((mon, f"[{tag}] {len(res_sets)} result sets for shot vector {shots}", f"{eff_method}-shot-vector-shape", None, None))
        return out
    hyps = tt_hypotheses(prog, R) if eff_method == "tree-traversal" else ()
    ctxinfo = {"dead_ps": R.dead_ps}
    for sh, rs in zip(shot_list, res_sets):
        if len(rs) != len(meas):
            ev()
            out.append((mon, f"[{tag}] {len(rs)} results for {len(meas)} measurements", f"{eff_method}-result-arity", None, None))
            continue
        for m, r in zip(meas, rs):
            ref = ref_distribution(R, m)
            ev()
            if analytic:
                out.extend(compare_analytic(m, r, ref, eff_method, tag, hyps, meas, ctxinfo))
                continue
            smode = (mode or "hw-like") if eff_method == "deferred" else "hw-like"
            msg, kind = stat_check(m, ref, r, sh, R.Z, smode, has_ps)
            if msg == "skip":
                if count:
                    ctx.count("stat_skipped_few_valid_shots")
                continue
            if msg:
                mech = f"{eff_method}-shots-{kind}"
                if kind == "nan" and eff_method == "tree-traversal" and has_ps:
                    mech = "tree-traversal-postselect-empty-subtree"
                if kind in ("freq", "mean", "var", "support"):
                    for htag, Rh, evh in hyps:
                        try:
                            msg2, _ = stat_check(m, ref_distribution(Rh, m, evh), r, sh, R.Z, smode, has_ps)
                        except TypeError:
                            continue
                        if msg2 is None:
                            mech = htag
                            msg += f" [consistent with the wrong-semantics hypothesis '{htag}']"
                            break
                out.append((mon, f"[{tag}] {m[0]} shots={sh}: {msg}", mech, None, None))
    return out


def run_batched(ctx, qp, prog, meas, Rs, method, seed, in_cond=False):
    """Analytic execution of a program with broadcast gate parameters; reference = one R-BR run per batch entry."""
    from pv.gen import c21_dyn as D

    mon = "mcm.analytic"
    tag = f"{method}/broadcast/analytic"
    out = []
    try:
        qn, _ = make_qnode(qp, prog, meas, method, None, None, seed)
        res = qn()
    except Exception as e:  # noqa: BLE001
        ctx.ev(mon)
        mech = classify_exception(e, method, None, prog, meas)
        if method == "deferred" and in_cond:
            mech = "deferred-broadcast-conditional-op-batch-size"
        return [(mon, f"[{tag}] {type(e).__name__}: {str(e)[:200]} @ {last_frames(e)}", mech, None, None)]
    rs = (res,) if len(meas) == 1 else tuple(res)
    if len(rs) != len(meas):
        ctx.ev(mon)
        return [(mon, f"[{tag}] {len(rs)} results for {len(meas)} measurements", f"{method}-result-arity", None, None)]
    out = _compare_batched(ctx, prog, meas, rs, Rs, method, tag)
    if in_cond:
        # A broadcast parameter that only occurs inside a classically controlled gate whose branch can never be taken (e.g. the
        # else-branch of `m0 >= m0`) leaves no batched operation in the executed circuit; an un-batched result is then the
        # plain-Python-control-flow answer as well.  Accept a missing batch axis when every batch entry has the same reference value
        # and the returned value equals it (recorded, not judged).
        kept = []
        for (mo, msg, mech_, o, e), m, r in [(x, None, None) for x in out]:
            kept.append((mo, msg, mech_, o, e))
        out2 = []
        for item in kept:
            mo, msg, mech_, o, e = item
            if str(mech_).endswith("-analytic-broadcast-shape") and o is not None and e is not None:
                idx = next((k for k, mm in enumerate(meas) if f"] {mm[0]}: shape" in msg), None)
                if idx is not None:
                    exp = np.stack([np.asarray(ref_distribution(Rb, meas[idx])["value"], dtype=float) for Rb in Rs])
                    got = np.asarray(rs[idx], dtype=float)
                    if exp.shape[0] * got.size == exp.size and np.allclose(exp, exp[0], atol=ATOL) and np.allclose(got.reshape(exp[0].shape), exp[0], atol=ATOL):
                        ctx.count("broadcast.dead_branch_unbatched_result_accepted")
                        continue
            out2.append(item)
        out = out2
    if method == "deferred" and in_cond:
        # mechanism: a broadcast parameter sits in a classically controlled gate; deferral wraps it in a generic Controlled
        # operator whose batch_size is None (ControlledOp2 does not delegate batch_size to its base)
        out = [(mo, msg + " [broadcast parameter inside a conditional gate]", "deferred-broadcast-conditional-op-batch-size", o, e) for mo, msg, _m, o, e in out]
    return out


def _compare_batched(ctx, prog, meas, rs, Rs, method, tag):
    from pv.gen import c21_dyn as D

    mon = "mcm.analytic"
    out = []
    for m, r in zip(meas, rs):
        ctx.ev(mon)
        exp = np.stack([np.asarray(ref_distribution(Rb, m)["value"], dtype=float) for Rb in Rs])
        try:
            got = np.asarray(r, dtype=float)
        except Exception:  # noqa: BLE001
            out.append((mon, f"[{tag}] {m[0]}: non-numeric result", f"{method}-analytic-type", None, None))
            continue
        if got.size != exp.size:
            n_wire = sum(1 for x in meas if not x[0].endswith("_mv"))
            mech = "tree-traversal-analytic-insert-mcms-single-wire-measurement" if (method == "tree-traversal" and n_wire == 1 and len(meas) > 1 and not m[0].endswith("_mv")) \
                else f"{method}-analytic-broadcast-shape"
            out.append((mon, f"[{tag}] {m[0]}: shape {got.shape} vs {exp.shape}", mech, list(got.shape), list(exp.shape)))
            continue
        g2 = got.reshape(exp.shape)
        if not np.all(np.abs(g2 - exp) <= ATOL * max(1.0, float(np.max(np.abs(exp))))):
            mech = f"{method}-analytic-broadcast-value"
            if method == "tree-traversal":
                last = prog["n_mcm"] - 1
                if any(D.bool_sensitive(e, {last}) for e in D.all_exprs(prog, meas)):
                    mech = "tree-traversal-bool-outcome-arith"
            out.append((mon, f"[{tag}] {m[0]}: {g2} vs per-entry branch averages {exp}", mech, g2, exp))
        elif got.shape != exp.shape:
            mech = "tree-traversal-analytic-mcm-stat-extra-dim" if (method == "tree-traversal" and m[0].endswith("_mv")) else f"{method}-analytic-broadcast-shape"
            out.append(("mcm.shape", f"[{tag}] {m[0]}: result has shape {got.shape}, expected {exp.shape}", mech, list(got.shape), list(exp.shape)))
    return out


def classify_nested(ctx, qp, viol, prog, meas, R, method, mode, shots, seed, fp):
    """Mechanism classifier for deferred + nested qp.cond: the same program with the nested conds flattened into conds on
    the conjunction of the predicates is executed; if that agrees, the nesting is what broke."""
    from pv.gen import c21_dyn as D

    eff_method = method or ("one-shot" if shots else "deferred")
    if not viol or eff_method != "deferred" or not D.has_nested(prog["stmts"]):
        return viol
    flat = dict(prog, stmts=D.flatten_nested(prog["stmts"]))
    again = run_case(ctx, qp, flat, meas, R, method, mode, shots, seed, fp, count=False)
    if again:
        return viol
    return [(mon, msg + " [variant with the nested conds flattened to conjunctions agrees]",
             "deferred-nested-conditional-inner-predicate-dropped", o, e) for mon, msg, mech, o, e in viol]


def defer_tape_check(ctx, qp, prog, meas, R):
    """Structural + R-SV validation of the defer_measurements output tape."""
    from pv.gen import c21_dyn as D
    from pv.ref import bridge, sv

    wire_meas = [m for m in meas if m[0] in ("expval_obs", "probs_w", "var_obs")]

    def circuit():
        ms = D.run_pennylane(qp, prog)
        return [build_mp(qp, m, ms) for m in wire_meas] + [qp.probs(op=[ms[i] for i in range(prog["n_mcm"])])]

    tape = qp.tape.make_qscript(circuit)()
    try:
        (dt,), _ = qp.defer_measurements(tape)
    except Exception as e:  # noqa: BLE001
        ctx.ev("defer.tape")
        return [("defer.tape", f"defer_measurements raised {type(e).__name__}: {e}", f"defer-crash:{type(e).__name__}", None, None)]
    out = []
    ctx.ev("defer.tape")
    names = []

    def walk(op):
        names.append(type(op).__name__)
        b = getattr(op, "base", None)
        if b is not None:
            walk(b)

    for op in dt.operations:
        walk(op)
    if any(n in ("MidMeasure", "Conditional") for n in names):
        left = sorted({n for n in names if n in ("MidMeasure", "Conditional")})
        mech = "defer-leaves:" + "+".join(left) + ("-nested" if D.has_nested(prog["stmts"]) else "")
        out.append(("defer.tape", f"output tape still contains {left} (possibly wrapped): {[repr(o)[:60] for o in dt.operations if 'Cond' in repr(o) or 'MidMeasure' in repr(o)][:3]}", mech, None, None))
        return out
    extra = [w for w in dt.wires if w not in tape.wires]
    if len(extra) > prog["n_mcm"]:
        out.append(("defer.tape", f"{len(extra)} auxiliary wires for {prog['n_mcm']} MCMs", "defer-too-many-wires", None, None))
    # simulate with R-SV (Projector → non-unitary matrix via fallback; normalise at the end)
    try:
        wo = list(dt.wires)
        gates, _ = bridge.tape_gates(dt.operations)
        st = sv.run(gates, wo)
    except Exception as e:  # noqa: BLE001
        ctx.inconclusive_case(f"defer.tape reference simulation failed: {type(e).__name__}: {e}")
        return out
    nrm = float(np.vdot(st, st).real)
    if nrm < 1e-12:
        return out
    if abs(nrm - R.Z) > 1e-9:
        out.append(("defer.tape", f"norm² of deferred tape {nrm} vs postselection probability {R.Z}", "defer-postselect-norm", nrm, R.Z))
    st = st / math.sqrt(nrm)
    for m, mp in zip(wire_meas, dt.measurements):
        ref = ref_distribution(R, m)["value"]
        if m[0] == "probs_w":
            got = sv.probs(st, wo, m[1])
        else:
            O, ws = word_matrix(m[1])
            got = sv.expval(st, O, ws, wo).real
            if m[0] == "var_obs":
                got = sv.expval(st, O @ O, ws, wo).real - got**2
        ctx.ev("defer.tape")
        if not np.allclose(got, ref, atol=ATOL):
            out.append(("defer.tape", f"{m[0]} of deferred tape (R-SV) {got} vs branch average {ref}",
                        "defer-value" + ("-nested" if D.has_nested(prog["stmts"]) else ""), got, ref))
    # joint MCM distribution from the mapped measurement value wires
    mp = dt.measurements[-1]
    try:
        mws = [mv.measurements[0].wires[0] for mv in mp.mv]
        got = sv.probs(st, wo, mws)
        ref = R.mv_probs_list(list(range(prog["n_mcm"])))
        ctx.ev("defer.tape")
        if not np.allclose(got, ref, atol=ATOL):
            out.append(("defer.tape", f"joint MCM distribution of deferred tape {got} vs {ref}", "defer-mcm-dist", got, ref))
    except Exception as e:  # noqa: BLE001
        ctx.inconclusive_case(f"defer.tape mcm wires: {type(e).__name__}: {e}")
    return out


# ------------------------------------------------------------------------------------------------ driver
def reference(prog):
    from pv.gen import c21_dyn as D
    from pv.ref import c21_branch as br

    return br.enumerate_branches(D.rbr_program(prog), prog["wires"])


def run(ctx):
    import warnings

    import pennylane as qp

    from pv.gen import c21_dyn as D

    warnings.filterwarnings("ignore")
    rng = ctx.rng
    n_an = ctx.n(72, 1400)
    n_sh = ctx.n(18, 260)
    base = ctx.shard * 1_000_000
    i = 0
    # ---------------- documented rejection: elif with MCM predicate
    try:
        def f():
            m = qp.measure(0)
            qp.cond(m, qp.X, qp.Y, elifs=[(m == 0, qp.Z)])(0)
        qp.tape.make_qscript(f)()
        ctx.note("elif_mcm", "accepted")
    except qp.exceptions.ConditionalTransformError:
        ctx.reject("elif-with-mcm-predicate")
    except Exception as e:  # noqa: BLE001
        ctx.note("elif_mcm", f"{type(e).__name__}")

    def emit(viol, prog, meas, extra):
        for mon, msg, mech, obs, exp in viol:
            ctx.violation(mon, msg, case={"program": D.describe(prog), "wires": prog["wires"], "meas": meas, **extra},
                          mech=mech, observed=obs, expected=exp)

    # ---------------- analytic
    while i < n_an and ctx.more():
        ctx.case_index = base + i
        crng = np.random.default_rng([ctx.seed, 21, ctx.shard, i])
        i += 1
        nested = crng.random() < 0.2
        prog = D.gen_program(crng, max_mcm=5 if crng.random() < 0.7 else 3, nested_prob=0.5 if nested else 0.0,
                             p_postselect=0.25 if crng.random() < 0.6 else 0.0)
        meas = gen_measurements(crng, prog, shots=None)
        R = None
        with ctx.guard("reference"):
            R = reference(prog)
        if R is None:
            continue
        fp = fingerprint(repr(prog), repr(meas))
        nontriv = len(R.branches) >= 2 and (D.n_conds(prog["stmts"]) > 0 or any(m[0].endswith("_mv") for m in meas))
        cls = ("nested" if D.has_nested(prog["stmts"]) else "flat") + ("+ps" if D.postselects(prog) else "")
        ctx.case(fp, nontrivial=nontriv, cls=cls, sample={"program": D.describe(prog), "meas": meas, "branches": len(R.branches), "Z": R.Z})
        ctx.count("programs")
        if not R.defined or R.Z < 1e-6:
            ctx.reject("postselect-zero-probability")
            continue
        for method in ("deferred", "tree-traversal", None):
            if method is None and crng.random() < 0.7:
                continue
            mode = [None, "hw-like", "fill-shots"][int(crng.integers(3))]
            sd = int(crng.integers(1 << 30))
            viol = run_case(ctx, qp, prog, meas, R, method, mode, None, sd, fp)
            viol = classify_nested(ctx, qp, viol, prog, meas, R, method, mode, None, sd, fp)
            emit(viol, prog, meas, {"method": method, "mode": mode, "shots": None})
        with ctx.guard("defer.tape"):
            emit(defer_tape_check(ctx, qp, prog, meas, R), prog, meas, {"method": "defer_measurements(tape)"})
        # broadcast gate parameters (flat programs without postselection): one reference run per batch entry
        if not D.has_nested(prog["stmts"]) and not D.postselects(prog) and crng.random() < 0.12:
            with ctx.guard("broadcast"):
                bprog, B, in_cond = D.add_broadcast(crng, prog)
                if bprog is not None:
                    from pv.ref import c21_branch as br

                    Rs = [br.enumerate_branches(D.rbr_program(bprog, batch_index=b), bprog["wires"]) for b in range(B)]
                    ctx.case(fingerprint(repr(bprog), repr(meas)), nontrivial=True, cls="broadcast",
                             sample={"program": D.describe(bprog), "meas": meas, "batch": B})
                    for method in ("deferred", "tree-traversal"):
                        emit(run_batched(ctx, qp, bprog, meas, Rs, method, 1, in_cond), bprog, meas, {"method": method, "broadcast": B, "in_cond": in_cond})
    # ---------------- deterministic postselection statistics with shots (exact support checks, all methods)
    for t in range(ctx.n(9, 160)):
        if not ctx.more():
            break
        ctx.case_index = base + 800_000 + t
        crng = np.random.default_rng([ctx.seed, 212121, ctx.shard, t])
        prog, b = D.gen_deterministic_ps(crng)
        meas = [["expval_obs", [["Z", 0]]], ["expval_mv", ["m", 0]], ["expval_obs", [["Z", 2]]]]
        extra = [["var_obs", [["Z", 0]]], ["probs_w", [0, 2]], ["counts_mv", ["l", [0]]], ["sample_w", [2]], ["probs_mv", ["s", 0]],
                 ["var_mv", ["bin", "*", ["m", 0], ["k", 2]]], ["counts_obs", [["Z", 0], ["Z", 2]]], ["sample_mv", ["e", ["bin", "-", ["k", 1], ["m", 0]]]]]
        meas = [meas[int(crng.integers(3))]] + [extra[int(k)] for k in crng.choice(len(extra), size=2, replace=False)]
        R = reference(prog)
        fp = fingerprint(repr(prog), repr(meas), "det")
        ctx.case(fp, nontrivial=True, cls="shots:deterministic-ps", sample={"program": D.describe(prog), "meas": meas, "Z": R.Z})
        ctx.count("programs")
        for method in ("one-shot", "deferred", "tree-traversal"):
            mode = [None, "hw-like"][int(crng.integers(2))] if method != "deferred" else [None, "hw-like", "fill-shots"][int(crng.integers(3))]
            shots = int(crng.integers(100, 160)) if method == "one-shot" else int(crng.integers(300, 1500))
            seed = int(crng.integers(1 << 30))
            viol = run_case(ctx, qp, prog, meas, R, method, mode, shots, seed, fp)
            viol = [v for v in viol if not v[2].endswith(("-freq", "-mean", "-var"))]  # statistical parts are covered below with confirmation
            emit(viol, prog, meas, {"method": method, "mode": mode, "shots": shots, "seed": seed})
    # ---------------- finite shots
    j = 0
    while j < n_sh and ctx.more():
        ctx.case_index = base + 500_000 + j
        crng = np.random.default_rng([ctx.seed, 2121, ctx.shard, j])
        j += 1
        nested = crng.random() < 0.15
        prog = D.gen_program(crng, max_mcm=4, nested_prob=0.5 if nested else 0.0, p_postselect=0.3 if crng.random() < 0.6 else 0.0)
        meas = gen_measurements(crng, prog, shots=True)
        R = None
        with ctx.guard("reference"):
            R = reference(prog)
        if R is None:
            continue
        fp = fingerprint(repr(prog), repr(meas), "shots")
        nontriv = len(R.branches) >= 2 and (D.n_conds(prog["stmts"]) > 0 or any(m[0].endswith("_mv") for m in meas))
        cls = "shots:" + ("nested" if D.has_nested(prog["stmts"]) else "flat") + ("+ps" if D.postselects(prog) else "")
        ctx.case(fp, nontrivial=nontriv, cls=cls, sample={"program": D.describe(prog), "meas": meas, "branches": len(R.branches), "Z": R.Z})
        ctx.count("programs")
        if not R.defined or R.Z < 0.02:
            ctx.reject("postselect-tiny-probability")
            continue
        for method in ("deferred", "tree-traversal", "one-shot", None):
            if method is None and crng.random() < 0.75:
                continue
            mode = [None, "hw-like", "fill-shots"][int(crng.integers(3))]
            big = method in ("deferred", "tree-traversal")
            shots = int(crng.integers(2000, 8000)) if big else (int(crng.integers(140, 280)) if ctx.quick else int(crng.integers(400, 900)))
            if crng.random() < 0.12:
                shots = [shots // 2, shots // 2 + 7]
            seed = int(crng.integers(1 << 30))
            viol = run_case(ctx, qp, prog, meas, R, method, mode, shots, seed, fp)
            stat = [v for v in viol if v[2].endswith(("-freq", "-mean", "-var", "-shot-count", "subtree-renormalised"))]
            if stat:
                # two-stage confirmation of statistical rejections: fresh seed, 8x shots (one-shot: 4x, it is slow)
                ctx.count("stat_first_stage_rejections")
                f8 = 4 if (method or "one-shot") == "one-shot" else 8
                s8 = [f8 * s for s in shots] if isinstance(shots, list) else f8 * shots
                viol2 = run_case(ctx, qp, prog, meas, R, method, mode, s8, seed + 7919, fp, stage=2, count=False)
                confirmed = {v[2] for v in viol2}
                viol = [v for v in viol if v not in stat] + [v for v in viol2 if v[2] in {x[2] for x in stat}]
                ctx.count("stat_confirmed", len([v for v in viol2 if v[2] in {x[2] for x in stat}]))
                del confirmed
            viol = classify_nested(ctx, qp, viol, prog, meas, R, method, mode, shots, seed, fp)
            emit(viol, prog, meas, {"method": method, "mode": mode, "shots": shots, "seed": seed})
