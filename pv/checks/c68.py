"""C68 — Kernel utilities return valid kernel matrices.

Deciding monitors (post-conditions on the real ``qp.kernels`` functions):

* ``kmat.entries``     ``kernel_matrix`` / ``square_kernel_matrix`` equal the direct entrywise evaluation k(x_i, x_j) done by the
                       harness with the *unwrapped* kernel; the square matrix is symmetric; with ``assume_normalized_kernel=True``
                       the diagonal is exactly 1 and the kernel is never evaluated on a diagonal pair (call log of the wrapper).
* ``kmat.embedding``   embedding-kernel QNodes (AngleEmbedding overlap) vs. the closed form prod cos^2((x-y)/2): symmetric, unit diagonal.
* ``cost.formula``     ``polarity`` / ``target_alignment`` vs. numpy formulas (label rescaling y_i/n_{y_i}, Frobenius normalisation).
* ``post.psd``         threshold / displace / flip / closest_psd outputs are positive semidefinite for indefinite symmetric inputs.
* ``post.relation``    documented relations, phrased without re-using eigh-reconstruction: threshold = positive part of the Jordan
                       decomposition (P>=0, P-K>=0, P(P-K)=0); displace = K - min(lambda_min,0) I; flip = P+N (commutes with K,
                       squares to K^2, PSD); PSD input returned unchanged; ``closest_psd_matrix(fix_diagonal=False)`` = threshold.
* ``post.sdp``         ``closest_psd_matrix(fix_diagonal=True)``: PSD, unit diagonal, and not farther from K (Frobenius) than a feasible
                       candidate computed by Higham's alternating projections (solver tolerances stated in TOL_SDP_*).
* ``mitigate.roundtrip`` ``mitigate_depolarizing_noise``: a noiseless unit-diagonal Gram matrix pushed through the global (single/average)
                       or per-embedding (split_channel) depolarizing model by the harness is recovered exactly; documented ValueErrors.
* ``mitigate.formula`` 'single'/'average' on matrices with unequal diagonal entries vs the documented formula (mean rate over use_entries).
"""
import math

import numpy as np

from pv.ctx import fingerprint

META = {
    "id": "C68",
    "level": "exploration",
    "technique": "runtime post-conditions on qp.kernels: entrywise differential against direct kernel evaluation with a call-log wrapper, "
                 "numpy formula references, spectral/Jordan-decomposition invariants, SDP feasibility+optimality bound, noise-model round trip",
    "level_text": "Random data sets (1-20 points; numpy arrays, lists, torch tensors), symmetric/asymmetric classical kernels and embedding "
                  "QNode kernels, balanced/unbalanced labels, and random symmetric matrices (indefinite, PSD, negative definite, "
                  "rank-deficient, integer, 1x1, badly scaled) are pushed through every public function of qp.kernels; held on the inputs observed.",
    "level_note": "Trusts numpy.linalg (eigvalsh used to *test* PSD-ness, not to rebuild outputs). target_alignment is compared with the standard "
                  "definition <K,yy^T>_F/(||K||_F ||yy^T||_F) (the docstring's denominator sqrt(sum y_i y_j) is read as the Frobenius norm of yy^T). "
                  "SDP results are accepted within solver tolerance 1e-5 (feasibility) / 2e-3 relative (optimality). Vector-valued (batched) kernel "
                  "outputs are undocumented and not driven.",
    "shards": {"quick": 2, "thorough": 16},
    "budget_s": {"quick": 150, "thorough": 600},
    "min_evals": {"quick": 800, "thorough": 30000},
    "deciding": ["kmat.entries", "kmat.embedding", "cost.formula", "post.psd", "post.relation", "post.sdp", "mitigate.roundtrip", "mitigate.formula"],
    "rule": "case = (function, input data); distinct = distinct (function, options, data bytes); non-trivial = data set with >= 2 points / "
            "symmetric matrix with at least one negative eigenvalue / noise rate > 0",
    "assumptions": ["numpy.linalg.eigvalsh decides positive semidefiniteness up to 1e-9*||K||"],
}

TOL = 1e-9
TOL_SDP_FEAS = 1e-5
TOL_SDP_OPT = 2e-3


# ----------------------------------------------------------------------------------------------- kernels
class LoggedKernel:
    """Wraps a kernel; logs which (i, j) index pairs of the data set(s) it was called on (by object identity or value)."""

    def __init__(self, k, X1, X2=None):
        self.k = k
        self.calls = []
        self.X1, self.X2 = X1, (X1 if X2 is None else X2)

    @staticmethod
    def _find(X, x):
        for i in range(len(X)):
            if X[i] is x:
                return i
        xv = np.asarray(x, dtype=float)
        hits = [i for i in range(len(X)) if np.array_equal(np.asarray(X[i], dtype=float), xv)]
        return hits[0] if len(hits) == 1 else (hits if hits else None)

    def __call__(self, x, y):
        self.calls.append((self._find(self.X1, x), self._find(self.X2, y)))
        return self.k(x, y)


def make_kernel(rng):
    """Returns (name, function of two 1-d numpy-convertible points, symmetric?, normalised?)."""
    kind = ["rbf", "rbf", "poly", "cos", "asym_lin", "asym_shift", "laplace"][int(rng.integers(7))]
    g = float(rng.uniform(0.1, 2.0))
    c = float(rng.uniform(-1, 1))
    f = lambda v: np.asarray(v, dtype=float)  # noqa: E731
    if kind == "rbf":
        return kind, (lambda x, y: float(np.exp(-g * np.sum((f(x) - f(y)) ** 2)))), True, True
    if kind == "laplace":
        return kind, (lambda x, y: float(np.exp(-g * np.sum(np.abs(f(x) - f(y)))))), True, True
    if kind == "poly":
        return kind, (lambda x, y: float((np.dot(f(x), f(y)) + c) ** 3)), True, False
    if kind == "cos":
        return kind, (lambda x, y: float(np.prod(np.cos((f(x) - f(y)) / 2) ** 2))), True, True
    if kind == "asym_lin":
        return kind, (lambda x, y: float(np.dot(f(x), f(y)) + g * np.sum(f(x)) - c * np.sum(f(y)))), False, False
    return kind, (lambda x, y: float(np.exp(-g * np.sum((f(x) - 2 * f(y) + c) ** 2)))), False, False


def make_data(rng, n, d, container):
    X = rng.normal(size=(n, d)) * rng.choice([0.3, 1.0, 3.0])
    if container == "ndarray":
        return X, X
    if container == "list":
        L = [X[i].copy() for i in range(n)]
        return L, X
    if container == "nested":
        L = [[float(v) for v in X[i]] for i in range(n)]
        return L, X
    import torch

    return torch.tensor(X), X


def direct(k, A, B):
    return np.array([[k(A[i], B[j]) for j in range(len(B))] for i in range(len(A))], dtype=float)


def kmat_case(ctx, qp, rng, info_base):
    K = qp.kernels
    n = int(rng.choice([1, 1, 2, 2, 3, 4, 5, 6, 8, 12, 20])) if not ctx.quick else int(rng.choice([1, 2, 2, 3, 4, 5, 7, 12]))
    m = int(rng.integers(1, 9))
    d = int(rng.integers(1, 4))
    container = ["ndarray", "ndarray", "list", "nested", "torch"][int(rng.integers(5))]
    name, k, sym, normd = make_kernel(rng)
    X, Xn = make_data(rng, n, d, container)
    Y, Yn = make_data(rng, m, d, container)
    dup = n >= 3 and container in ("list", "nested") and rng.random() < 0.2
    if dup:  # the same data point twice (different objects, equal values): an off-diagonal pair with k = k(x, x)
        X[n - 1] = [float(v) for v in Xn[0]] if container == "nested" else Xn[0].copy()
        Xn = Xn.copy()
        Xn[n - 1] = Xn[0]
    info = {**info_base, "kernel": name, "n": n, "m": m, "dim": d, "container": container, "dup": dup}
    fpd = (name, container, Xn.round(12).tobytes())

    def viol(mon, fn, msg, mech, obs=None, exp=None):
        ctx.violation(mon, f"{fn}: {msg}", case={**info, "function": fn, "X": Xn, "Y": Yn}, mech=mech, observed=obs, expected=exp)

    # ---------------- kernel_matrix (rectangular; asymmetric kernels allowed)
    fn = "kernel_matrix"
    ctx.case(fingerprint(fn, fpd, Yn.round(12).tobytes()), nontrivial=n * m >= 2, cls=fn, sample={**info, "function": fn} if rng.random() < 0.03 else None)
    lk = LoggedKernel(k, X, Y)
    try:
        R = K.kernel_matrix(X, Y, lk)
    except Exception as e:  # noqa: BLE001
        ctx.ev("kmat.entries")
        viol("kmat.entries", fn, f"raised {type(e).__name__}: {e}", f"raises:{fn}:{type(e).__name__}")
        R = None
    if R is not None:
        ctx.ev("kmat.entries")
        Rn = np.asarray(R, dtype=float)
        ref = direct(k, Xn, Yn)
        if Rn.shape != (n, m):
            viol("kmat.entries", fn, f"shape {Rn.shape} != ({n}, {m})", f"shape:{fn}")
        elif np.max(np.abs(Rn - ref)) > TOL * max(1, np.max(np.abs(ref))):
            ij = np.unravel_index(int(np.argmax(np.abs(Rn - ref))), ref.shape)
            viol("kmat.entries", fn, f"entry {ij} = {Rn[ij]!r} but k(x1_{ij[0]}, x2_{ij[1]}) = {ref[ij]!r}", f"entries:{fn}", Rn, ref)
    # ---------------- square_kernel_matrix
    for assume in (False, True):
        fn = "square_kernel_matrix"
        # assume_normalized_kernel=True is only admissible for normalised kernels
        if assume and not normd:
            continue
        ctx.case(fingerprint(fn, assume, fpd), nontrivial=n >= 2, cls=fn, sample={**info, "function": fn, "assume": assume} if rng.random() < 0.03 else None)
        lk = LoggedKernel(k, X)
        try:
            R = K.square_kernel_matrix(X, lk, assume_normalized_kernel=assume)
        except Exception as e:  # noqa: BLE001
            ctx.ev("kmat.entries")
            viol("kmat.entries", fn, f"raised {type(e).__name__}: {e} (assume_normalized_kernel={assume})", f"raises:{fn}:{type(e).__name__}")
            continue
        ctx.ev("kmat.entries")
        Rn = np.asarray(R, dtype=float)
        ref = direct(k, Xn, Xn)
        if Rn.shape != (n, n):
            viol("kmat.entries", fn, f"shape {Rn.shape} != ({n}, {n}) (assume={assume})", f"shape:{fn}")
            continue
        if not np.array_equal(Rn, Rn.T):
            viol("kmat.entries", fn, "square kernel matrix is not symmetric", f"asym:{fn}", Rn)
            continue
        if sym:
            cmp_ref = ref
        else:  # documented: computed "using symmetry of the kernel matrix": upper triangle evaluated and mirrored
            cmp_ref = np.triu(ref) + np.triu(ref, 1).T
        err = np.abs(Rn - cmp_ref)
        if np.max(err) > TOL * max(1, np.max(np.abs(cmp_ref))):
            ij = np.unravel_index(int(np.argmax(err)), err.shape)
            viol("kmat.entries", fn, f"entry {ij} = {Rn[ij]!r} but k(x_i, x_j) = {cmp_ref[ij]!r} (assume={assume})", f"entries:{fn}", Rn, cmp_ref)
            continue
        if assume:
            if not np.all(np.diag(Rn) == 1.0):
                viol("kmat.entries", fn, "assume_normalized_kernel=True but diagonal is not exactly 1", f"diag:{fn}", np.diag(Rn))
            diag_calls = [c for c in lk.calls if isinstance(c[0], int) and c[0] == c[1]]
            if diag_calls and container in ("list", "nested", "ndarray") and not dup:
                viol("kmat.entries", fn, f"assume_normalized_kernel=True but the kernel was evaluated on diagonal pair(s) {diag_calls[:3]}", f"diagcalls:{fn}")
    # ---------------- polarity / target_alignment
    if n >= 1:
        lab_mode = ["balanced", "unbalanced", "one_class", "random"][int(rng.integers(4))]
        if lab_mode == "balanced":
            yl = np.array([1 if i % 2 == 0 else -1 for i in range(n)])
        elif lab_mode == "unbalanced":
            yl = np.array([1 if i < max(1, n // 4) else -1 for i in range(n)])
        elif lab_mode == "one_class":
            yl = np.full(n, 1 if rng.random() < 0.5 else -1)
        else:
            yl = rng.choice([-1, 1], size=n)
        yl = yl[rng.permutation(n)]
        ycont = ["ndarray", "list", "float", "float_ndarray"][int(rng.integers(4))]
        # the same label container is handed to every call below (as a user would): a function that rescales it in place corrupts later calls
        Yl = (yl.copy() if ycont == "ndarray" else ([int(v) for v in yl] if ycont == "list" else ([float(v) for v in yl] if ycont == "float" else yl.astype(float))))
        Kref = direct(k, Xn, Xn)
        if not sym:
            Kref = np.triu(Kref) + np.triu(Kref, 1).T
        for rescale in (True, False):
            for assume in (False, True):
                if assume and not normd:
                    continue
                npl = int(np.sum(yl == 1))
                nmi = n - npl
                ys = np.array([v / npl if v == 1 else v / nmi for v in yl.astype(float)]) if rescale else yl.astype(float)
                T = np.outer(ys, ys)
                pol = float(np.sum(Kref * T))
                nK, nT = math.sqrt(float(np.sum(Kref * Kref))), math.sqrt(float(np.sum(T * T)))
                for fn in ("polarity", "polarity_normalized", "target_alignment"):
                    ctx.case(fingerprint(fn, rescale, assume, fpd, yl.tobytes()), nontrivial=n >= 2 and npl * nmi > 0, cls=fn.split("_n")[0],
                             sample={**info, "function": fn, "labels": yl, "rescale": rescale} if rng.random() < 0.01 else None)
                    try:
                        if fn == "polarity":
                            v = K.polarity(X, Yl, k, assume_normalized_kernel=assume, rescale_class_labels=rescale)
                            exp = pol
                        elif fn == "polarity_normalized":
                            v = K.polarity(X, Yl, k, assume_normalized_kernel=assume, rescale_class_labels=rescale, normalize=True)
                            exp = pol / (nK * nT) if nK * nT > 0 else None
                        else:
                            v = K.target_alignment(X, Yl, k, assume_normalized_kernel=assume, rescale_class_labels=rescale)
                            exp = pol / (nK * nT) if nK * nT > 0 else None
                    except Exception as e:  # noqa: BLE001
                        ctx.ev("cost.formula")
                        viol("cost.formula", fn, f"raised {type(e).__name__}: {e} (labels {lab_mode}, rescale={rescale})", f"raises:{fn}:{type(e).__name__}")
                        continue
                    if exp is None:
                        continue
                    ctx.ev("cost.formula")
                    v = float(np.asarray(v, dtype=float))
                    if not abs(v - exp) <= TOL * max(1.0, abs(exp)):
                        viol("cost.formula", fn, f"value {v!r} differs from formula {exp!r} (labels {lab_mode} {ycont}, rescale={rescale}, assume={assume})",
                             f"formula:{fn}", v, exp)
        ctx.ev("cost.formula")
        if not np.array_equal(np.asarray(Yl, dtype=float), yl.astype(float)):
            viol("cost.formula", "polarity", f"the caller's label container ({ycont}) was modified by polarity/target_alignment: {np.asarray(Yl).tolist()} (was {yl.tolist()})",
                 "mutates-labels")


# ----------------------------------------------------------------------------------------------- embedding kernels
def embedding_case(ctx, qp, rng, info_base):
    K = qp.kernels
    nw = int(rng.integers(1, 4))
    n = int(rng.integers(2, 5))
    X = rng.uniform(-math.pi, math.pi, size=(n, nw))
    Y = rng.uniform(-math.pi, math.pi, size=(int(rng.integers(1, 4)), nw))
    rot = ["X", "Y"][int(rng.integers(2))]
    dev = qp.device("default.qubit", wires=nw)

    @qp.qnode(dev)
    def circuit(x1, x2):
        qp.AngleEmbedding(x1, wires=range(nw), rotation=rot)
        qp.adjoint(qp.AngleEmbedding)(x2, wires=range(nw), rotation=rot)
        return qp.probs(wires=range(nw))

    kernel = lambda a, b: circuit(a, b)[0]  # noqa: E731
    closed = lambda a, b: float(np.prod(np.cos((np.asarray(a) - np.asarray(b)) / 2) ** 2))  # noqa: E731
    info = {**info_base, "kernel": f"AngleEmbedding-{rot}", "n": n, "wires": nw, "X": X}
    ctx.case(fingerprint("embedding", rot, X.tobytes(), Y.tobytes()), nontrivial=True, cls="embedding_kernel", sample=info if rng.random() < 0.1 else None)
    for assume in (False, True):
        R = np.asarray(K.square_kernel_matrix(X, kernel, assume_normalized_kernel=assume), dtype=float)
        ctx.ev("kmat.embedding")
        ref = direct(closed, X, X)
        bad = None
        if R.shape != (n, n):
            bad = f"shape {R.shape}"
        elif np.max(np.abs(R - ref)) > 1e-9:
            bad = f"differs from closed-form overlap by {np.max(np.abs(R - ref)):.3e}"
        elif not np.array_equal(R, R.T):
            bad = "not symmetric"
        elif np.max(np.abs(np.diag(R) - 1)) > 1e-9:
            bad = "diagonal is not 1 for a normalised embedding kernel"
        elif np.linalg.eigvalsh(R)[0] < -1e-9 * n:
            bad = "embedding kernel matrix not PSD"
        if bad:
            ctx.violation("kmat.embedding", f"square_kernel_matrix(assume={assume}) on embedding kernel: {bad}", case=info, mech="embedding:square", observed=R, expected=ref)
    R = np.asarray(K.kernel_matrix(X, Y, kernel), dtype=float)
    ctx.ev("kmat.embedding")
    ref = direct(closed, X, Y)
    if R.shape != ref.shape or np.max(np.abs(R - ref)) > 1e-9:
        ctx.violation("kmat.embedding", "kernel_matrix on embedding kernel differs from closed-form overlap", case=info, mech="embedding:rect", observed=R, expected=ref)


# ----------------------------------------------------------------------------------------------- post-processing
ALL_KINDS = ["indef", "indef", "indef", "psd", "psd_rankdef", "negdef", "int", "kernel_noisy", "scaled", "tiny_neg", "diag", "zero"]
SDP_KINDS = ["indef", "kernel_noisy", "kernel_noisy", "psd", "negdef", "int", "diag"]


def sym_matrix(rng, n, kinds=ALL_KINDS):
    """Random symmetric matrix of a hostile kind; returns (K, kind)."""
    kind = kinds[int(rng.integers(len(kinds)))]
    A = rng.normal(size=(n, n))
    S = (A + A.T) / 2
    if kind == "indef":
        K = S
    elif kind == "psd":
        K = A @ A.T + 1e-3 * np.eye(n)
    elif kind == "psd_rankdef":
        r = max(1, n // 2)
        Bm = rng.normal(size=(n, r))
        K = Bm @ Bm.T
    elif kind == "negdef":
        K = -(A @ A.T) - 0.1 * np.eye(n)
    elif kind == "int":
        K = np.rint(3 * S).astype(int)
        K = np.triu(K) + np.triu(K, 1).T
    elif kind == "kernel_noisy":
        V = rng.normal(size=(n, 3))
        G = np.exp(-0.5 * ((V[:, None, :] - V[None, :, :]) ** 2).sum(-1))
        N = rng.normal(size=(n, n)) * 0.2
        K = G + (N + N.T) / 2
    elif kind == "scaled":
        K = S * float(10.0 ** rng.integers(-6, 7))
    elif kind == "tiny_neg":
        Bm = rng.normal(size=(n, n))
        Q, _ = np.linalg.qr(Bm)
        w = np.abs(rng.normal(size=n)) + 0.1
        w[0] = -float(10.0 ** rng.integers(-12, -3))
        K = (Q * w) @ Q.T
        K = (K + K.T) / 2
    elif kind == "diag":
        K = np.diag(rng.normal(size=n))
    else:
        K = np.zeros((n, n))
    return K, kind


def is_psd(M, atol):
    M = np.asarray(M, dtype=float)
    return float(np.linalg.eigvalsh((M + M.T) / 2)[0]) >= -atol


def post_case(ctx, qp, rng, info_base, with_sdp):
    Kn = qp.kernels
    n = int(rng.choice([1, 2, 2, 3, 3, 4, 5, 6, 8, 12])) if not with_sdp else int(rng.integers(2, 7))
    K, kind = sym_matrix(rng, n, SDP_KINDS if with_sdp else ALL_KINDS)
    Kf = np.asarray(K, dtype=float)
    w = np.linalg.eigvalsh(Kf)
    scale = float(np.max(np.abs(w))) if n else 1.0
    negative = bool(w[0] < -1e-9 * max(scale, 1e-300))
    clearly_psd = bool(w[0] > 1e-9 * max(scale, 1e-300)) or kind == "zero"
    info = {**info_base, "kind": kind, "n": n, "K": Kf, "eig_min": float(w[0]), "eig_max": float(w[-1])}
    fpd = Kf.tobytes()
    K_before = np.array(K, copy=True)
    atol = 1e-9 * max(scale, 1e-300) * max(1, n)

    def viol(mon, fn, msg, mech, obs=None, exp=None):
        ctx.violation(mon, f"{fn}: {msg}", case={**info, "function": fn}, mech=mech, observed=obs, expected=exp)

    def run(fn, f):
        ctx.case(fingerprint(fn, fpd), nontrivial=negative, cls=fn, sample={**info, "function": fn} if rng.random() < 0.02 else None)
        try:
            out = f(K)
        except Exception as e:  # noqa: BLE001
            ctx.ev("post.psd")
            viol("post.psd", fn, f"raised {type(e).__name__}: {e} on a symmetric matrix ({kind})", f"raises:{fn}:{type(e).__name__}")
            return None
        out = np.asarray(out, dtype=float)
        ctx.ev("post.psd")
        if out.shape != (n, n):
            viol("post.psd", fn, f"shape {out.shape}", f"shape:{fn}")
            return None
        if not np.array_equal(np.asarray(K), K_before):
            viol("post.psd", fn, "input matrix modified in place", f"mutates:{fn}")
        if np.max(np.abs(out - out.T)) > atol:
            viol("post.psd", fn, "output not symmetric", f"asym:{fn}", out)
            return None
        lam = float(np.linalg.eigvalsh((out + out.T) / 2)[0])
        if lam < -atol:
            viol("post.psd", fn, f"output has negative eigenvalue {lam:.3e} (input {kind}, eig_min {w[0]:.3e}, scale {scale:.3e})", f"psd:{fn}", out)
            return None
        return out

    # threshold: positive part of the Jordan decomposition
    for fn, f in (("threshold_matrix", Kn.threshold_matrix), ("closest_psd_matrix", lambda M: Kn.closest_psd_matrix(M, fix_diagonal=False))):
        P = run(fn, f)
        if P is not None:
            ctx.ev("post.relation")
            N = P - Kf
            bad = None
            if clearly_psd and np.max(np.abs(N)) > atol:
                bad = "PSD input changed"
            elif not is_psd(N, atol):
                bad = "P - K is not PSD (eigenvalues were not clipped at 0)"
            elif np.max(np.abs(P @ N)) > 1e-8 * max(scale, 1e-300) ** 2 * max(1, n):
                bad = "P (P - K) != 0: not the positive part of K"
            if bad:
                viol("post.relation", fn, f"{bad} (input {kind})", f"relation:{fn}", P)
    # displace
    D = run("displace_matrix", Kn.displace_matrix)
    if D is not None:
        ctx.ev("post.relation")
        exp = Kf - min(float(w[0]), 0.0) * np.eye(n)
        if np.max(np.abs(D - exp)) > atol:
            viol("post.relation", "displace_matrix", f"output != K - min(lambda_min, 0) I (input {kind})", "relation:displace_matrix", D, exp)
    # flip
    F = run("flip_matrix", Kn.flip_matrix)
    if F is not None:
        ctx.ev("post.relation")
        s2 = max(scale, 1e-300) ** 2 * max(1, n)
        bad = None
        if clearly_psd and np.max(np.abs(F - Kf)) > atol:
            bad = "PSD input changed"
        elif np.max(np.abs(F @ Kf - Kf @ F)) > 1e-8 * s2:
            bad = "output does not commute with K (eigenvectors not kept)"
        elif np.max(np.abs(F @ F - Kf @ Kf)) > 1e-8 * s2:
            bad = "output^2 != K^2 (spectrum is not |lambda|)"
        if bad:
            viol("post.relation", "flip_matrix", f"{bad} (input {kind})", "relation:flip_matrix", F)
    # SDP: closest PSD with unit diagonal
    if with_sdp and n <= 6 and kind not in ("scaled", "zero") and scale < 50:
        fn = "closest_psd_matrix/fix_diagonal"
        solver = [None, None, "CLARABEL", "SCS"][int(rng.integers(4))] if not ctx.quick else [None, "CLARABEL"][int(rng.integers(2))]
        ctx.case(fingerprint(fn, fpd, solver), nontrivial=True, cls=fn, sample={**info, "function": fn, "solver": solver} if rng.random() < 0.1 else None)
        try:
            X = Kn.closest_psd_matrix(Kf, fix_diagonal=True, solver=solver)
        except RuntimeError as e:
            ctx.reject("RuntimeError:solver-did-not-converge")
            ctx.note_add("sdp_rejections", f"{kind} n={n} solver={solver}: {e}")
            X = None
        except Exception as e:  # noqa: BLE001
            ctx.ev("post.sdp")
            viol("post.sdp", fn, f"raised {type(e).__name__}: {e}", f"raises:closest_psd:{type(e).__name__}")
            X = None
        if X is not None:
            ctx.ev("post.sdp")
            X = np.asarray(X, dtype=float)
            tolf = TOL_SDP_FEAS * (100 if solver == "SCS" else 1)
            lam = float(np.linalg.eigvalsh((X + X.T) / 2)[0])
            cand = higham_candidate(Kf)
            dist, dref = float(np.linalg.norm(X - Kf)), float(np.linalg.norm(cand - Kf))
            if X.shape != (n, n):
                viol("post.sdp", fn, f"shape {X.shape}", "sdp:shape")
            elif lam < -tolf * 10:
                viol("post.sdp", fn, f"result not PSD: min eigenvalue {lam:.3e} (solver {solver})", "sdp:psd", X)
            elif np.max(np.abs(np.diag(X) - 1)) > tolf * 10:
                viol("post.sdp", fn, f"diagonal not fixed to 1: {np.diag(X)} (solver {solver})", "sdp:diag", X)
            elif dist > dref + (TOL_SDP_OPT * (10 if solver == "SCS" else 1)) * max(1.0, dref):
                viol("post.sdp", fn, f"result is not the closest: ||X-K||_F = {dist:.6f} but a feasible matrix at distance {dref:.6f} exists (solver {solver})",
                     "sdp:optimality", X, cand)


def higham_candidate(A, iters=400):
    """Feasible (PSD, unit diagonal) matrix close to the optimum: Higham's alternating projections with Dykstra's correction,
    then made exactly feasible by a convex combination with the identity."""
    n = A.shape[0]
    Y = (A + A.T) / 2
    dS = np.zeros_like(Y)
    for _ in range(iters):
        R = Y - dS
        w, v = np.linalg.eigh(R)
        X = (v * np.clip(w, 0, None)) @ v.T
        dS = X - R
        Ynew = X.copy()
        np.fill_diagonal(Ynew, 1.0)
        if np.linalg.norm(Ynew - Y) < 1e-12:
            Y = Ynew
            break
        Y = Ynew
    Y = (Y + Y.T) / 2
    lam = float(np.linalg.eigvalsh(Y)[0])
    if lam < 0:
        t = -lam / (1 - lam)  # (1-t) lam + t >= 0
        Y = (1 - t) * Y + t * np.eye(n)
        Y = (1 - 1e-12) * Y + 1e-12 * np.eye(n)
    return Y


# ----------------------------------------------------------------------------------------------- noise mitigation
def mitigate_case(ctx, qp, rng, info_base):
    Kn = qp.kernels
    n = int(rng.integers(1, 8))
    nw = int(rng.integers(1, 6))
    dim = 2**nw
    # noiseless fidelity kernel of random pure states in dimension dim: unit diagonal, entries in [0, 1]
    V = rng.normal(size=(n, dim)) + 1j * rng.normal(size=(n, dim))
    V /= np.linalg.norm(V, axis=1, keepdims=True)
    K0 = np.abs(V.conj() @ V.T) ** 2
    np.fill_diagonal(K0, 1.0)
    method = ["single", "average", "split_channel"][int(rng.integers(3))]
    info = {**info_base, "method": method, "n": n, "num_wires": nw}
    if method == "split_channel":
        lam = rng.uniform(0.0, 0.6, size=n)
        if rng.random() < 0.2:
            lam[int(rng.integers(n))] = 0.0
        surv = np.outer(1 - lam, 1 - lam)
        Knoisy = surv * K0 + (1 - surv) / dim
        use = None
        nontriv = bool(np.any(lam > 0))
        info["rates"] = lam
    else:
        lam = float(rng.choice([0.0, rng.uniform(0.0, 0.8)], p=[0.15, 0.85]))
        Knoisy = (1 - lam) * K0 + lam / dim
        nontriv = lam > 0
        info["rate"] = lam
        r = rng.random()
        if method == "single":
            use = None if r < 0.4 else [int(rng.integers(n))]
        else:
            use = None if r < 0.4 else [int(x) for x in rng.choice(n, size=int(rng.integers(1, n + 1)), replace=False)]
        if use is not None and rng.random() < 0.5:
            use = np.array(use) if rng.random() < 0.5 else tuple(use)
        info["use_entries"] = use
    ctx.case(fingerprint("mitigate", method, Knoisy.tobytes(), nw, repr(use)), nontrivial=nontriv, cls=f"mitigate/{method}",
             sample=info if rng.random() < 0.05 else None)
    Kin = Knoisy.copy()
    try:
        out = Kn.mitigate_depolarizing_noise(Kin, nw, method, use_entries=use)
    except Exception as e:  # noqa: BLE001
        ctx.ev("mitigate.roundtrip")
        ctx.violation("mitigate.roundtrip", f"mitigate_depolarizing_noise({method}) raised {type(e).__name__}: {e} on an admissible noisy kernel matrix",
                      case={**info, "K": Knoisy}, mech=f"raises:mitigate:{method}:{type(e).__name__}")
        return
    ctx.ev("mitigate.roundtrip")
    out = np.asarray(out, dtype=float)
    if out.shape != K0.shape or np.max(np.abs(out - K0)) > 1e-8:
        ctx.violation("mitigate.roundtrip", f"mitigate_depolarizing_noise({method}, use_entries={use!r}) does not recover the noiseless kernel matrix "
                                            f"(max error {np.max(np.abs(out - K0)) if out.shape == K0.shape else 'shape'})",
                      case={**info, "K": Knoisy}, mech=f"roundtrip:{method}", observed=out, expected=K0)
    if not np.array_equal(Kin, Knoisy):
        ctx.violation("mitigate.roundtrip", "input matrix modified in place", case=info, mech="mutates:mitigate")
    # documented formulas on a matrix whose diagonal entries differ (finite-shot noise on the diagonal): the global rate is the MEAN of the
    # per-entry rates over use_entries ('average'), resp. the rate of the single chosen entry ('single')
    if method in ("single", "average"):
        Kp = Knoisy.copy()
        Kp[np.diag_indices(n)] = np.clip(np.diag(Knoisy) + rng.uniform(-0.08, 0.08, size=n), 1.0 / dim + 0.02, 1.0)
        ue = [0] if (use is None and method == "single") else (list(range(n)) if use is None else [int(u) for u in np.asarray(use).reshape(-1)])
        if method == "single":
            ue = ue[:1]
        rates = (1 - np.diag(Kp)[ue]) * dim / (dim - 1)
        lam_bar = float(np.mean(rates))
        if lam_bar < 0.98:
            ref = (Kp - lam_bar / dim) / (1 - lam_bar)
            try:
                out2 = np.asarray(Kn.mitigate_depolarizing_noise(Kp.copy(), nw, method, use_entries=use), dtype=float)
            except Exception as e:  # noqa: BLE001
                out2 = None
                ctx.ev("mitigate.formula")
                ctx.violation("mitigate.formula", f"mitigate_depolarizing_noise({method}) raised {type(e).__name__}: {e}", case={**info, "K": Kp}, mech=f"raises:mitigate:{method}:{type(e).__name__}")
            if out2 is not None:
                ctx.ev("mitigate.formula")
                if out2.shape != ref.shape or np.max(np.abs(out2 - ref)) > 1e-9 * max(1.0, np.max(np.abs(ref))):
                    ctx.violation("mitigate.formula", f"mitigate_depolarizing_noise({method}, use_entries={use!r}) differs from (K - lam/d)/(1 - lam) with lam = mean noise "
                                                      f"rate of the used diagonal entries", case={**info, "K": Kp}, mech=f"formula:{method}", observed=out2, expected=ref)
    # documented rejections
    if rng.random() < 0.3:
        ctx.ev("mitigate.invalid")
        Kbad = Knoisy.copy()
        np.fill_diagonal(Kbad, 1.0 / dim - rng.uniform(0, 0.01))
        for meth in (method, "nonsense"):
            try:
                Kn.mitigate_depolarizing_noise(Kbad, nw, meth, use_entries=use if meth != "nonsense" else None)
            except ValueError:
                ctx.reject(f"ValueError:mitigate:{'method' if meth == 'nonsense' else 'small-diagonal'}")
            except Exception as e:  # noqa: BLE001
                ctx.violation("mitigate.invalid", f"{meth}: raised {type(e).__name__} instead of documented ValueError: {e}", case=info, mech=f"invalid:mitigate:{meth}")
            else:
                ctx.violation("mitigate.invalid", f"{meth}: diagonal <= 1/dim (or unknown method) accepted silently", case=info, mech=f"invalid:mitigate:{meth}")


# ----------------------------------------------------------------------------------------------- driver
def run(ctx):
    import warnings

    import pennylane as qp

    warnings.filterwarnings("ignore")
    plan = [("kmat", ctx.n(90, 6000)), ("post", ctx.n(260, 16000)), ("mitigate", ctx.n(200, 12000)), ("embedding", ctx.n(6, 160)),
            ("sdp", ctx.n(24, 640))]
    base = 0
    for kind, count in plan:
        for i in range(count):
            if not ctx.more():
                return
            gi = base + i * ctx.nshards + ctx.shard
            if ctx.only_case is not None and gi != ctx.only_case:
                continue
            ctx.case_index = gi
            rng = ctx.case_rng(gi)
            info = {"family": kind, "case_index": gi}
            with ctx.guard(kind, "harness error"):
                if kind == "kmat":
                    kmat_case(ctx, qp, rng, info)
                elif kind == "post":
                    post_case(ctx, qp, rng, info, with_sdp=False)
                elif kind == "sdp":
                    post_case(ctx, qp, rng, info, with_sdp=True)
                elif kind == "mitigate":
                    mitigate_case(ctx, qp, rng, info)
                else:
                    embedding_case(ctx, qp, rng, info)
        base += 10_000_000
