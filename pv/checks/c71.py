"""C71 — Snapshots report the state of the circuit prefix.

Deciding monitors (post-conditions on the REAL ``qp.snapshots``):

* ``snap.value``   – for every snapshot j of a generated circuit, the entry of the returned dictionary under its key
  equals the reference measurement (default: the state; on default.mixed the density matrix) of the circuit truncated
  at that snapshot, computed by R-SV / R-DM from the operators before position j.  Finite shots: ``state`` snapshots
  and ``shots=None`` snapshots stay exact; sampled snapshots (probs / counts / sample with integer shots) are tested
  with a chi-square test at alpha = 1e-9 with a two-stage confirmation (fresh seed, 8x shots).
* ``snap.keys``    – the dictionary has exactly the documented keys: the tag, or the running index of the snapshot
  among all snapshots, plus ``"execution_results"``.
* ``snap.final``   – ``"execution_results"`` equals both the reference result of the whole circuit and the result of
  the same QNode executed without ``qp.snapshots`` (snapshots do not disturb the circuit; in particular a sampled
  snapshot does not collapse the simulated state: a later exact ``state`` snapshot is still the prefix state).

Paths: QNode + debugger (default.qubit, default.mixed) and the tape transform (``qp.snapshots(tape)`` -> prefix tapes
executed on a device with explicit wires -> post-processing).
"""
import warnings

import numpy as np

from pv.ctx import fingerprint

META = {
    "id": "C71",
    "level": "exploration",
    "technique": "post-condition on qp.snapshots(qnode)() / qp.snapshots(tape): every entry vs reference measurement of the circuit prefix (R-SV / R-DM); differential of execution_results against the un-instrumented QNode; chi-square (alpha 1e-9, two-stage) for sampled snapshots",
    "level_text": "Random circuits over 1-5 labelled wires with 0-5 snapshots at random positions (first, last, consecutive), tagged / untagged / "
                  "duplicate tags, all analytic snapshot measurement kinds, broadcasting, default.qubit and default.mixed (with noise channels), finite "
                  "shots with exact and sampled snapshots, and the tape-splitting path. Held on the circuits observed.",
    "level_note": "Duplicate tags are only demanded to yield the list of values in order on default.qubit (the behaviour its docs show for repeated "
                  "snapshots); default.mixed and the tape path are not given duplicate tags (undocumented). Circuits with mid-circuit measurements are "
                  "not generated (their snapshot semantics are per-branch lists; left to C21). Devices without wires are given explicit wires.",
    "shards": {"quick": 3, "thorough": 9},
    "budget_s": {"quick": 110, "thorough": 180},
    "min_evals": {"quick": 600, "thorough": 5000},
    "deciding": ["snap.value", "snap.keys", "snap.final"],
    "rule": "case = (circuit spec, snapshot positions/tags/measurements, device, shots, path); distinct = content fingerprint; non-trivial = at "
            "least one snapshot sits strictly inside the circuit (operators before and after it) and its reference value differs from the value at the start",
    "assumptions": ["reference gate table transcribes the documented formulas"],
}

TOL = 1e-9
ALPHA = 1e-9
SNAP_KINDS = ("state", "state", "dm", "expval", "var", "probs", "purity", "vn", "mi")


def chi2_reject(counts, probs, alpha=ALPHA):
    """True when the observed counts are incompatible with probs at level alpha (cells with expectation < 5 merged;
    any observation in a zero-probability cell rejects outright)."""
    from scipy import stats
    counts = np.asarray(counts, dtype=float)
    probs = np.clip(np.asarray(probs, dtype=float), 0, None)
    n = counts.sum()
    if np.any((probs < 1e-12) & (counts > 0)):
        return True
    exp = probs / probs.sum() * n
    big = exp >= 5
    o = list(counts[big]) + ([counts[~big].sum()] if (~big).any() and exp[~big].sum() > 0 else [])
    e = list(exp[big]) + ([exp[~big].sum()] if (~big).any() and exp[~big].sum() > 0 else [])
    if len(o) < 2:
        return False
    stat = sum((a - b) ** 2 / b for a, b in zip(o, e) if b > 0)
    return bool(stats.chi2.sf(stat, len(o) - 1) < alpha)


def gen_case(rng, gen, c28, D, mixed):
    nw = int(rng.integers(1, 6))
    if mixed:
        spec = c28.rand_noisy_case(rng, gen, D, True) if rng.random() < 0.6 else None
    else:
        spec = None
    if spec is None:
        allow = c28.MIXED_ALLOW if mixed else ("special", "rot", "d1", "d2", "d3", "d4", "cnot", "mcx", "grover", "qu", "diag", "cqu", "multirz",
                                                "paulirot", "pcphase", "intcmp", "sym", "gphase")
        spec = gen.rand_case(rng, nw=nw, n_ops=int(rng.integers(1, 10)), batch_p=0.15, prep_p=0.25, allow=allow,
                             meas_kinds=("expval", "var", "probs", "state", "dm", "purity"),
                             obs_kinds=("pauli", "sprod", "sum", "herm", "proj", "hadamard"),
                             dev_wires_mode=["same", "perm", "superset"][int(rng.integers(3))])
    spec["ops"] = [s for s in spec["ops"] if s["t"] not in ("snap", "barrier")]
    if len(spec["dev_wires"]) > 7:
        spec["dev_wires"] = list(spec["wires"])
    # snapshots: positions in 0..len(ops) (0 = before everything; after a leading state preparation at the earliest)
    nops = len(spec["ops"])
    first = 1 if nops and spec["ops"][0]["t"] in ("basis", "prep") else 0
    k = int(rng.integers(0, 6))
    pos = sorted(int(x) for x in rng.integers(first, nops + 1, size=k))
    if k and rng.random() < 0.3:
        pos[-1] = nops
    if k and rng.random() < 0.3:
        pos[0] = first
    snaps = []
    tags = ["a", "tag", "very_important_state", "s1"]
    for p in pos:
        r = rng.random()
        tag = None if r < 0.5 else tags[int(rng.integers(len(tags)))]
        ms = gen.rand_meas(rng, spec["wires"], kinds=SNAP_KINDS, obs_kinds=("pauli", "sprod", "sum", "herm", "proj", "hadamard"), n=1)[0]
        if ms["m"] == "state" and rng.random() < 0.5:
            ms = None  # default measurement
        snaps.append({"pos": p, "tag": tag, "meas": ms})
    return spec, snaps


def build_snapshot(qp, gen, s, shots_arg="workflow"):
    kw = {}
    if s["meas"] is not None:
        kw["measurement"] = gen.build_meas(qp, [s["meas"]])[0]
    if shots_arg != "workflow":
        kw["shots"] = shots_arg
    return qp.Snapshot(s["tag"], **kw) if s["tag"] else qp.Snapshot(**kw)


def expected_keys(snaps, dup_as_list):
    """key -> list of snapshot indices stored under it (documented: the tag, else the index among all snapshots)."""
    keys = {}
    for j, s in enumerate(snaps):
        keys.setdefault(s["tag"] if s["tag"] else j, []).append(j)
    return keys


def run(ctx):
    import pennylane as qp

    from pv.checks import c26 as C26
    from pv.checks import c28 as C28
    from pv.gen import c26_gen as gen
    from pv.ref import c26_ref as R
    from pv.ref import c28_dm as D

    warnings.filterwarnings("ignore")
    N = ctx.n(240, 15000)
    for i in range(N):
        if not ctx.more():
            break
        gi = i * ctx.nshards + ctx.shard
        if ctx.only_case is not None and gi != ctx.only_case:
            continue
        ctx.case_index = gi
        rng = ctx.case_rng(gi)
        r = rng.random()
        devname = "default.mixed" if r < 0.3 else "default.qubit"
        mixed = devname == "default.mixed"
        path = "tape" if (not mixed and rng.random() < 0.2) else "qnode"
        try:
            spec, snaps = gen_case(rng, gen, C28, D, mixed)
        except Exception as e:  # noqa: BLE001
            ctx.inconclusive_case(f"generator failed: {type(e).__name__}: {e}")
            continue
        shots = None
        if path == "qnode" and not spec["batch"] and rng.random() < 0.2:
            shots = int(rng.integers(300, 1200))
        if mixed or path == "tape" or shots:
            # no duplicate tags where their handling is undocumented
            seen = set()
            for s in snaps:
                if s["tag"] in seen:
                    s["tag"] = None
                if s["tag"]:
                    seen.add(s["tag"])
        order = spec["dev_wires"]
        desc = gen.describe(spec)
        sdesc = [{"pos": s["pos"], "tag": s["tag"], "meas": gen.describe({**spec, "ops": [], "meas": [s["meas"]]})["meas"][0] if s["meas"] else None} for s in snaps]
        info = {"spec": desc, "snapshots": sdesc, "device": devname, "path": path, "shots": shots, "case_index": gi}
        # ---------------- reference
        try:
            ops_np = C28.build_ops(qp, gen, spec["ops"])
            B = spec["batch"]

            def ref_state(upto, b):
                if mixed:
                    return D.run(ops_np[:upto], order, b)[0]
                return R.run(ops_np[:upto], order, b)[0]

            def ref_meas(ms, upto):
                mp = gen.build_meas(qp, [ms])[0] if ms is not None else qp.state()
                vals = [np.asarray(R.measure(mp, ref_state(upto, b if B else None), order, is_dm=mixed)[0]) for b in range(B or 1)]
                # a prefix that contains no broadcast operator yet is not batched
                pre_b = R.tape_batch(ops_np[:upto])
                return np.stack(vals) if (B and pre_b is not None) else vals[0]

            snap_ref = [ref_meas(s["meas"], s["pos"]) for s in snaps]
            final_ref = [ref_meas(m, len(ops_np)) for m in spec["meas"]]
            start_ref = [ref_meas(s["meas"], 0 if not (ops_np and type(ops_np[0]).__name__ in ("BasisState", "StatePrep")) else 1) for s in snaps]
        except Exception as e:  # noqa: BLE001
            ctx.inconclusive_case(f"reference failed: {type(e).__name__}: {e}")
            continue
        nontriv = any(0 < s["pos"] < len(ops_np) and (np.shape(a) != np.shape(b) or not np.allclose(a, b, atol=1e-6)) for s, a, b in zip(snaps, snap_ref, start_ref))
        ctx.case(fingerprint(repr(desc), repr(sdesc), [np.asarray(p).tobytes() for s in spec["ops"] for p in s.get("params", [])], devname, path, shots),
                 nontrivial=bool(nontriv), cls=f"{devname}:{path}:{'shots' if shots else 'analytic'}", sample=info)
        ctx.cover(f"n_snapshots:{len(snaps)}")
        for s in snaps:
            ctx.cover("snapshot-meas:" + (s["meas"]["m"] if s["meas"] else "default"))
        # ---------------- real
        seq = []
        sp = sorted(range(len(snaps)), key=lambda j: snaps[j]["pos"])
        ms_final = gen.build_meas(qp, spec["meas"])
        if shots:
            # with finite shots: final measurements must be sample-based; exact snapshots: state / shots=None; sampled: probs with workflow shots
            ms_final = [qp.probs(wires=spec["wires"][: min(3, len(spec["wires"]))])]
            spec_final = [{"m": "probs", "wires": spec["wires"][: min(3, len(spec["wires"]))]}]
            final_ref = [ref_meas(spec_final[0], len(ops_np))]
        snap_mode = []
        for j, s in enumerate(snaps):
            if not shots:
                snap_mode.append("exact")
            elif s["meas"] is None or s["meas"]["m"] == "state":
                snap_mode.append("exact")
            elif s["meas"]["m"] == "probs" and rng.random() < 0.6:
                snap_mode.append("sampled")
            else:
                snap_mode.append("exact-shots-none")

        def make_items():
            items, nxt = [], 0
            ops_i = C28.build_ops(qp, gen, spec["ops"])
            for p in range(len(ops_i) + 1):
                for j in sp:
                    if snaps[j]["pos"] == p:
                        items.append(build_snapshot(qp, gen, snaps[j], None if snap_mode[j] == "exact-shots-none" else "workflow"))
                if p < len(ops_i):
                    items.append(ops_i[p])
            return items

        def make_qnode(seed, with_snaps=True, nshots=shots):
            dev = qp.device(devname, wires=spec["dev_wires"], seed=seed)
            items = make_items()

            def qfunc():
                for o in items:
                    if with_snaps or type(o).__name__ != "Snapshot":
                        qp.apply(o)
                out = tuple(qp.apply(m) for m in ms_final)
                return out[0] if len(out) == 1 else out

            qn = qp.QNode(qfunc, dev, diff_method=None)
            return qp.set_shots(qn, nshots) if nshots else qn

        retag = make_retag(qp, C26, spec, mixed)
        try:
            if path == "qnode":
                out = qp.snapshots(make_qnode(1000 + gi))()
            else:
                tape = qp.tape.QuantumScript(make_items(), ms_final)
                tapes, fn = qp.snapshots(tape)
                dev = qp.device(devname, wires=spec["dev_wires"])
                out = fn(qp.execute(list(tapes), dev, diff_method=None))
        except Exception as e:  # noqa: BLE001
            en = type(e).__name__
            if en in ("DeviceError", "DecompositionError", "WireError"):
                ctx.reject(en)
                ctx.note_add("rejection_messages", f"case {gi}: {en}: {str(e)[:140]}")
                continue
            # counterfactual probe: the statement is about circuits the device can execute; if the very same circuit WITHOUT its snapshots
            # fails in the same way on this device, the failure belongs to the simulator (C26/C27/C28/C33), not to the snapshot machinery
            try:
                make_qnode(1000 + gi, with_snaps=False)()
                same = False
            except Exception as e2:  # noqa: BLE001
                same = type(e2).__name__ == en
            if same:
                ctx.reject(f"circuit-fails-without-snapshots:{devname}:{en}")
                ctx.note_add("rejection_messages", f"case {gi}: without snapshots too: {en}: {str(e)[:140]}")
                continue
            ctx.ev("snap.value")
            ctx.violation("snap.value", f"qp.snapshots raised {en}: {str(e)[:300]} ({devname}, {path}, shots={shots})", case=info,
                          mech=retag(f"raises:{en}:{devname}:{path}:{'shots' if shots else 'analytic'}:{'batch' if spec['batch'] else 'nobatch'}"))
            continue
        # ---------------- keys
        ctx.ev("snap.keys")
        exp_keys = expected_keys(snaps, True)
        want = set(exp_keys) | {"execution_results"}
        if not isinstance(out, dict) or set(out.keys()) != want:
            ctx.violation("snap.keys", f"snapshot dictionary has keys {sorted(map(str, out.keys())) if isinstance(out, dict) else type(out)}, documented {sorted(map(str, want))}",
                          case=info, mech=retag(f"keys:{devname}:{path}"))
            continue
        # ---------------- values
        tol = C28.TOL_ACTION if mixed else TOL
        for key, idxs in exp_keys.items():
            got = out[key]
            if len(idxs) > 1:
                ctx.ev("snap.value")
                if not isinstance(got, list) or len(got) != len(idxs):
                    ctx.violation("snap.value", f"tag {key!r} used by {len(idxs)} snapshots: expected the list of their values in order, got {type(got).__name__}"
                                  + (f" of length {len(got)}" if isinstance(got, list) else ""), case=info, mech=retag(f"duplicate-tag:{devname}"))
                    continue
                vals = got
            else:
                vals = [got]
            for j, v in zip(idxs, vals):
                ctx.ev("snap.value")
                ref = snap_ref[j]
                if snap_mode[j] == "sampled":
                    try:
                        p_obs = R._np(v)
                        cnt = np.rint(p_obs * shots)
                        if p_obs.shape != ref.shape:
                            ctx.violation("snap.value", f"sampled probs snapshot {key!r} has shape {p_obs.shape}, reference {ref.shape}", case=info, mech=retag("sampled:shape"))
                            continue
                        if chi2_reject(cnt, ref):
                            out2 = qp.snapshots(make_qnode(777000 + gi, nshots=8 * shots))()
                            v2 = out2[key]
                            ctx.count("stat.second_stage")
                            if chi2_reject(np.rint(R._np(v2) * 8 * shots), ref):
                                ctx.violation("snap.value", f"sampled snapshot {key!r} (probs, {shots} shots) is not distributed like the prefix state (alpha {ALPHA}, confirmed with 8x shots)",
                                              case=info, mech=retag(f"sampled:distribution:{devname}"), observed=p_obs, expected=ref)
                    except Exception as e:  # noqa: BLE001
                        ctx.inconclusive_case(f"sampled snapshot check failed: {type(e).__name__}: {e}")
                    continue
                try:
                    g = R._np(v)
                except Exception as e:  # noqa: BLE001
                    ctx.violation("snap.value", f"snapshot {key!r} is not array-like: {e}", case=info, mech=retag("value:type"))
                    continue
                kind = snaps[j]["meas"]["m"] if snaps[j]["meas"] else "default"
                if g.shape != ref.shape:
                    ctx.violation("snap.value", f"snapshot {key!r} ({kind}, position {snaps[j]['pos']} of {len(ops_np)}) has shape {g.shape}, reference {ref.shape}",
                                  case=info, mech=retag(f"value:shape:{kind}:{devname}"), observed=g, expected=ref)
                    continue
                err = float(np.max(np.abs(g - ref))) if g.size else 0.0
                t = max(tol, 1e-8 if kind in ("vn", "mi") else 0) * max(1.0, float(np.max(np.abs(ref))) if ref.size else 1.0)
                if not err <= t:
                    # which prefix does it equal instead? (localises 'taken after the following op')
                    where = None
                    for q in range(len(ops_np) + 1):
                        try:
                            alt = ref_meas(snaps[j]["meas"], q)
                            if alt.shape == g.shape and np.max(np.abs(alt - g)) <= t:
                                where = q
                                break
                        except Exception:  # noqa: BLE001
                            pass
                    ctx.violation("snap.value", f"snapshot {key!r} ({kind}) at position {snaps[j]['pos']} of {len(ops_np)} differs from the prefix reference by {err:.3e}"
                                  + (f"; it equals the value after {where} operators" if where is not None else ""), case=info,
                                  mech=retag(f"value:{'wrong-prefix' if where is not None else 'wrong'}:{devname}:{path}"), observed=g, expected=ref)
        # ---------------- final results: vs reference and vs the un-instrumented QNode
        res = out["execution_results"]
        rr = (res,) if len(ms_final) == 1 else res
        for k in range(len(ms_final)):
            ctx.ev("snap.final")
            try:
                g = R._np(rr[k])
            except Exception as e:  # noqa: BLE001
                ctx.violation("snap.final", f"execution_results[{k}] not array-like: {e}", case=info, mech=retag("final:type"))
                continue
            ref = final_ref[k]
            if shots:
                if g.shape != ref.shape or chi2_reject(np.rint(g * shots), ref):
                    ctx.count("stat.final_second_stage")
                    g2 = R._np(qp.snapshots(make_qnode(555000 + gi, nshots=8 * shots))()["execution_results"])
                    if g2.shape != ref.shape or chi2_reject(np.rint(g2 * 8 * shots), ref):
                        ctx.violation("snap.final", "execution_results (sampled probs) are not distributed like the full circuit when snapshots are present (confirmed with 8x shots)",
                                      case=info, mech=retag(f"final:distribution:{devname}"), observed=g, expected=ref)
                continue
            kind = spec["meas"][k]["m"]
            t = max(tol, 1e-8 if kind in ("vn", "mi") else 0) * max(1.0, float(np.max(np.abs(ref))) if ref.size else 1.0)
            if g.shape != ref.shape or not float(np.max(np.abs(g - ref)) if g.size else 0.0) <= t:
                ctx.violation("snap.final", f"execution_results[{k}] ({kind}) differs from the reference of the whole circuit"
                              + (f" by {np.max(np.abs(g - ref)):.3e}" if g.shape == ref.shape else f": shape {g.shape} vs {ref.shape}"), case=info,
                              mech=retag(f"final:{kind}:{devname}"), observed=g, expected=ref)
        if path == "qnode" and not shots:
            ctx.ev("snap.final")
            try:
                plain = make_qnode(1000 + gi, with_snaps=False)()
                pp = (plain,) if len(ms_final) == 1 else plain
                same = all(R._np(a).shape == R._np(b).shape and np.allclose(R._np(a), R._np(b), atol=1e-12, rtol=0) for a, b in zip(pp, rr))
                if not same:
                    ctx.violation("snap.final", "execution_results differ from the result of the same QNode run without snapshots", case=info,
                                  mech=retag(f"final:differential:{devname}"), observed=rr, expected=pp)
            except Exception as e:  # noqa: BLE001
                ctx.note_add("plain_qnode_errors", f"case {gi}: {type(e).__name__}: {str(e)[:100]}")


def make_retag(qp, C26, spec, mixed):
    memo = {}

    def retag(mech):
        """Mechanism classifiers of defects already seen on the unchanged tree by C26 / C28 (tagging only)."""
        if "m" not in memo:
            memo["m"] = None
            unit = {**spec, "ops": [s for s in spec["ops"] if s["t"] not in ("chan", "qchan")]}
            if mixed and spec["batch"] == 1:
                memo["m"] = "batch1:default.mixed"
            elif C26.stale_batch_ops(qp, unit):
                memo["m"] = "batch-size-none:symbolic-op"
            elif C26.bad_prods(qp, unit):
                memo["m"] = "prod-matrix:overlapping-wires"
        return memo["m"] or mech

    return retag
